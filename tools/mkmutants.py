#!/usr/bin/env python3
"""Generates /verif/mutants/<PROP>-<name>.patch from the replacement table below (each is a small,
realistic, compiling breakage of rust-bio).  /repo is restored after each one."""
import subprocess, sys, os
REPO="/repo"
M=[]
def mut(prop,name,file,old,new,count=1):
    M.append((prop,name,file,old,new,count))

# ---------------- C01 pairwise
mut("C01","drop-Lx-update-in-last-column-fixup","src/alignment/pairwise/mod.rs",
"""                self.traceback.get_mut(i, j).set_s_bits(TB_INS);
                if self.S[curr][i] + self.scoring.xclip_suffix > self.S[curr][m] {
                    self.S[curr][m] = self.S[curr][i] + self.scoring.xclip_suffix;
                    self.Lx[j] = m - i;""",
"""                self.traceback.get_mut(i, j).set_s_bits(TB_INS);
                if self.S[curr][i] + self.scoring.xclip_suffix > self.S[curr][m] {
                    self.S[curr][m] = self.S[curr][i] + self.scoring.xclip_suffix;""")
mut("C01","xclip-suffix-tracker-ge","src/alignment/pairwise/mod.rs",
"""                // Track the score if we do suffix clip (x) from here
                if self.S[curr][i] + self.scoring.xclip_suffix > self.S[curr][m] {
                    self.S[curr][m] = self.S[curr][i] + self.scoring.xclip_suffix;
                    self.Lx[j] = m - i;
                }""",
"""                // Track the score if we do suffix clip (x) from here
                if self.S[curr][i] + self.scoring.xclip_suffix >= self.S[curr][m] {
                    self.S[curr][m] = self.S[curr][i] + self.scoring.xclip_suffix;
                    self.Lx[j] = m - i;
                }""")
mut("C01","semiglobal-forgets-to-restore-yclip-suffix","src/alignment/pairwise/mod.rs",
"""        // Filter out Xclip and Yclip from alignment.operations
        alignment.filter_clip_operations();

        // Set the clip penalties to the original values
        self.scoring.xclip_prefix = clip_penalties[0];
        self.scoring.xclip_suffix = clip_penalties[1];
        self.scoring.yclip_prefix = clip_penalties[2];
        self.scoring.yclip_suffix = clip_penalties[3];

        alignment
    }

    /// Calculate local alignment""",
"""        // Filter out Xclip and Yclip from alignment.operations
        alignment.filter_clip_operations();

        // Set the clip penalties to the original values
        self.scoring.xclip_prefix = clip_penalties[0];
        self.scoring.xclip_suffix = clip_penalties[1];
        self.scoring.yclip_prefix = clip_penalties[2];

        alignment
    }

    /// Calculate local alignment""")
mut("C01","Sn-not-reset-between-calls","src/alignment/pairwise/mod.rs",
"""                self.Sn.clear();
                self.Sn.extend(repeat(MIN_SCORE).take(m + 1));
                self.Sn[0] = self.scoring.yclip_suffix;""",
"""                self.Sn.resize(m + 1, MIN_SCORE);
                self.Sn[0] = self.scoring.yclip_suffix;""")
mut("C01","gap-extend-dropped-when-opening-deletion","src/alignment/pairwise/mod.rs",
"""                let d_score = self.D[prev][i] + self.scoring.gap_extend;
                let s_score = self.S[prev][i] + self.scoring.gap_open + self.scoring.gap_extend;
                let best_d_score;""",
"""                let d_score = self.D[prev][i] + self.scoring.gap_extend;
                let s_score = self.S[prev][i] + self.scoring.gap_open;
                let best_d_score;""")
# ---------------- C02 banded
mut("C02","band-reset-loop-dropped","src/alignment/pairwise/banded.rs",
"""            for i in i_end..min(m + 1, self.band.ranges[min(n, j + 1)].end) {
                self.S[curr][i] = MIN_SCORE;
                self.I[curr][i] = MIN_SCORE;
                self.D[curr][i] = MIN_SCORE;
            }""",
"""            for i in i_end..min(m + 1, self.band.ranges[min(n, j + 1)].end) {
                self.I[curr][i] = MIN_SCORE;
                self.D[curr][i] = MIN_SCORE;
            }""")
mut("C02","max-cells-doubled","src/alignment/pairwise/banded.rs",
"""        if self.band.num_cells() > MAX_CELLS {""","""        if self.band.num_cells() > 2 * MAX_CELLS {""")
mut("C02","with-matches-ignores-empty-list","src/alignment/pairwise/banded.rs",
"""        if matches.is_empty() {
            let mut band = Band::new(x.len(), y.len());
            band.full_matrix();
            return band;
        }

        let match_score = match scoring.match_scores {""",
"""        if matches.is_empty() {
            let mut band = Band::new(x.len(), y.len());
            band.full_matrix();
            band.ranges[0] = 0..min(1, x.len() + 1);
            return band;
        }

        let match_score = match scoring.match_scores {""")
mut("C02","local-forgets-to-restore-xclip-prefix","src/alignment/pairwise/banded.rs",
"""        alignment.mode = AlignmentMode::Local;

        // Filter out Xclip and Yclip from alignment.operations
        alignment.filter_clip_operations();

        // Set the clip penalties to the original values
        self.scoring.xclip_prefix = clip_penalties[0];""",
"""        alignment.mode = AlignmentMode::Local;

        // Filter out Xclip and Yclip from alignment.operations
        alignment.filter_clip_operations();

        // Set the clip penalties to the original values""")
# ---------------- C08 exact matchers
mut("C08","horspool-shift-table-over-whole-pattern","src/pattern_matching/horspool.rs",
"""        for (j, &a) in pattern[..m - 1].iter().enumerate() {""","""        for (j, &a) in pattern[..m].iter().enumerate() {""")
mut("C08","kmp-lps-fallback-off","src/pattern_matching/kmp.rs",
"""            q = self.lps[q - 1];""","""            q = self.lps[q - 1].saturating_sub(1);""")
mut("C08","shift-and-accept-bit-one-too-low","src/pattern_matching/shift_and.rs",
"""        accept = bit;
        bit = bit.wrapping_mul(2);""","""        accept = bit;
        bit = bit.wrapping_mul(2);
        if bit == 0 {
            accept >>= 1;
        }""")
# ---------------- C11 fasta/fastq
mut("C11","fastq-counts-quality-lines-wrong-for-wrapped","src/io/fastq.rs",
"""            for _ in 0..lines_read {""","""            for _ in 0..lines_read.min(3) {""")
mut("C11","fasta-reader-drops-lookahead-on-blank-buffer","src/io/fasta.rs",
"""            if self.line.is_empty() || self.line.starts_with('>') {
                break;
            }
            record.seq.push_str(self.line.trim_end());""","""            if self.line.is_empty() || self.line.starts_with('>') {
                break;
            }
            record.seq.push_str(self.line.trim());""")
mut("C11","fastq-seq-line-starting-with-at-treated-as-header","src/io/fastq.rs",
"""            while !self.line_buffer.is_empty() && !self.line_buffer.starts_with('+') {""",
"""            while !self.line_buffer.is_empty()
                && !self.line_buffer.starts_with('+')
                && !(lines_read > 0 && self.line_buffer.starts_with('@'))
            {""")
mut("C11","fastq-qual-trims-leading-too","src/io/fastq.rs",
"""                record.qual.push_str(self.line_buffer.trim_end());""","""                record.qual.push_str(self.line_buffer.trim());""")
# ---------------- C12 indexed fasta
mut("C12","seek-uses-line-bases-stride","src/io/fasta.rs",
"""        let line_start = start / idx.line_bases * idx.line_bytes;""","""        let line_start = start / idx.line_bases * (idx.line_bases + 1);""")
mut("C12","line-offset-reset-gt","src/io/fasta.rs",
"""        if *line_offset >= idx.line_bytes {
            *line_offset = 0;
        }""","""        if *line_offset > idx.line_bytes {
            *line_offset = 0;
        }""")
mut("C12","iterator-capacity-from-line-bytes","src/io/fasta.rs",
"""            min(bases_left, idx.line_bases) as usize,""","""            min(bases_left, idx.line_bytes) as usize,""")
mut("C12","read-does-not-clear-buffer","src/io/fasta.rs",
"""        let mut line_offset = self.seek_to(&idx, start)?;

        seq.clear();""","""        let mut line_offset = self.seek_to(&idx, start)?;

        if start > 0 {
            seq.clear();
        }""")
# ---------------- C13 bed/gff
mut("C13","gff-value-split-on-terminator","src/io/gff.rs",
"""                        for value in caps["value"].split(self.value_delim) {""","""                        for value in caps["value"].split(|c| c == self.value_delim || c == '.') {""")
mut("C13","bed-writer-drops-single-aux","src/io/bed.rs",
"""        if record.aux.is_empty() {
            self.inner
                .serialize((&record.chrom, record.start, record.end))""","""        if record.aux.len() <= 1 {
            self.inner
                .serialize((&record.chrom, record.start, record.end))""")
mut("C13","gff-reader-comment-char-unset","src/io/gff.rs",
"""                .has_headers(false)
                .comment(Some(b'#'))
                .from_reader(reader),
            gff_type: fileformat,""","""                .has_headers(false)
                .from_reader(reader),
            gff_type: fileformat,""")
mut("C13","gff-writer-reverses-values-of-a-key","src/io/gff.rs",
"""                .flat_map(|(a, bs)| bs.iter().map(move |b| (a, b)))""","""                .flat_map(|(a, bs)| bs.iter().rev().map(move |b| (a, b)))""")
# ---------------- C18 containers
mut("C18","bitenc-shifted-block-uses-32","src/data_structures/bitenc.rs",
"""                let shifted_block = value_block >> (self.usable_bits_per_block - bit);""","""                let shifted_block = value_block >> (32 - bit);""")
mut("C18","smallints-le-max","src/data_structures/smallints.rs",
"""            Some(v) if v < maxv => self.smallints[i] = v,""","""            Some(v) if v <= maxv => self.smallints[i] = v,""")
mut("C18","fenwick-set-stops-one-early","src/data_structures/bit_tree.rs",
"""        while idx < self.tree.len() {
            self.tree[idx] = Op::operation(self.tree[idx], val);""","""        while idx < self.tree.len() - 1 {
            self.tree[idx] = Op::operation(self.tree[idx], val);""")
mut("C18","bitenc-clear-keeps-len","src/data_structures/bitenc.rs",
"""    pub fn clear(&mut self) {
        self.storage.clear();
        self.len = 0;
    }""","""    pub fn clear(&mut self) {
        self.storage.clear();
        self.len %= 32 / self.width;
    }""")

def sh(*a, **k): return subprocess.run(a, cwd=REPO, capture_output=True, text=True, **k)
os.makedirs("/verif/mutants", exist_ok=True)
assert sh("git","status","--porcelain").stdout.strip()=="", "repo not clean"
only = sys.argv[1] if len(sys.argv)>1 else None
for prop,name,file,old,new,count in M:
    if only and only not in f"{prop}-{name}": continue
    p=os.path.join(REPO,file); s=open(p).read()
    if s.count(old)!=count:
        print(f"SKIP {prop}-{name}: pattern occurs {s.count(old)} times"); continue
    open(p,"w").write(s.replace(old,new))
    d=sh("git","diff").stdout
    open(f"/verif/mutants/{prop}-{name}.patch","w").write(d)
    sh("git","checkout","--",".")
    print(f"ok   {prop}-{name}")
