#!/bin/bash
# tools/run_seeded.sh [pattern] : for every seeded/<PROP>-<k>/ apply its patch (patch_rebased.diff if
# present) to /repo's working tree, run the quick check of <PROP>, undo the patch straight away.
# One line per seed; /repo is left clean.
set -u
PAT="${1:-}"
cd /verif
restore() { git -C /repo checkout -- . ; }
trap restore EXIT
[ -z "$(git -C /repo status --porcelain)" ] || { echo "/repo is not clean"; exit 2; }
for d in seeded/C*-*/; do
  name=$(basename "$d")
  case "$name" in *"$PAT"*) ;; *) continue;; esac
  prop=${name%%-*}
  p="$d/patch.diff"; [ -f "$d/patch_rebased.diff" ] && p="$d/patch_rebased.diff"
  if ! git -C /repo apply "/verif/$p" 2>/dev/null; then echo "$name APPLY-FAILED"; continue; fi
  out=$(./check "$prop" --tier quick 2>&1); rc=$?
  keys=$(echo "$out" | grep -o "violation class [^ ]*" | sed 's/violation class //' | tr '\n' ' ')
  mach=$(echo "$out" | grep -c "MACHINERY-ERROR")
  echo "$name check_exit=$rc machinery=$mach keys=$keys"
  restore
done
