#!/usr/bin/env python3
"""Regenerates /verif/MANIFEST.json from the table below and validates it against the schema."""
import json, subprocess, sys, os
ROOT = os.path.dirname(os.path.dirname(os.path.abspath(__file__)))

# id -> (category, technique, text, note, design_ref)
CHECKS = {}
def add(pid, cat, technique, text, note):
    CHECKS[pid] = dict(cat=cat, technique=technique, text=text, note=note)

exec(open(os.path.join(ROOT, "tools", "checks_table.py")).read())

props = [json.loads(l) for l in open(os.path.join(ROOT, "properties.jsonl"))]
checks, na = [], []
for p in props:
    pid = p["id"]
    if pid in CHECKS:
        c = CHECKS[pid]
        checks.append({
            "property_id": pid,
            "quick_cmd": f"./check {pid} --tier quick",
            "thorough_cmd": f"./check {pid} --tier thorough",
            "evidence_file": f"/verif/evidence/{pid}.json",
            "replay_cmd_template": f"./check {pid} --replay {{path}}",
            "engine": "bmc",
            "level_claimed": {"category": c["cat"], "text": c["text"], "design_ref": f"DESIGN.md section 3, {pid}"},
            "level_note": c["note"],
            "technique": c["technique"],
        })
    else:
        na.append({"property_id": pid, "reason": NOT_APPLICABLE.get(pid, "check not built yet in this round; planned in DESIGN.md section 3")})

manifest = {
    "version": 1,
    "setup_cmd": "cd /verif/engine && CARGO_NET_OFFLINE=true cargo build --release --offline",
    "hooks": {
        "guard": "bio_verif",
        "enable": "none needed: the checks link the unmodified crate (bio = { path = \"/repo\" }) and observe private state through the types' own Serialize/Debug/Hash derives; the cfg name bio_verif is reserved but no source line in /repo uses it",
        "baseline_off_cmd": "/verif/run_repo_tests.sh /repo",
        "source_commits": [],
        "add_only": True,
    },
    "engines": [{
        "name": "bmc",
        "path": "/verif/engine",
        "serves_properties": [c["property_id"] for c in checks],
        "kind_free_text": "bounded exhaustive explorer that executes the real rust-bio code: complete input sweeps (K1), explicit-state BFS over operation histories with state de-duplication (K2), environment-answer / truncation / corruption enumeration for the parsers (K3); worker processes with watchdog, address-space cap and pinpoint re-runs attribute hangs and aborts to single cases",
    }],
    "checks": checks,
    "notes": "Every check rebuilds the engine and rust-bio from /repo's working tree (cargo fingerprinting) before running. Exit 0 = property held on everything explored (KNOWN-FINDING lines are informational), exit 1 + VIOLATION line = violation not listed in known_findings.txt, exit 2 = machinery error. VERIF_JOBS, VERIF_WALL_CAP_S, VERIF_STALL_S tune the driver; VERIF_SEED is recorded but no check makes a random choice.",
    "not_applicable": na,
}
out = os.path.join(ROOT, "MANIFEST.json")
json.dump(manifest, open(out, "w"), indent=1)
try:
    import jsonschema
    jsonschema.validate(manifest, json.load(open("/root/.vp/MANIFEST.schema.json")))
    print("MANIFEST.json valid;", len(checks), "checks,", len(na), "not claimed")
except ImportError:
    print("jsonschema not importable here; written without validation")
