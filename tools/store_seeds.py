#!/usr/bin/env python3
"""Copies confirmed seeded changes from the scratch worktrees into /verif/seeded/<PROP>-<k>/
(patch.diff [+ patch_rebased.diff], demo.rs, notes.md from the independent agent, meta.json) using
seeded/eval_log.txt (what our checks reported) and the confirm logs (our own confirmation)."""
import os, json, shutil, re, sys
ROOT='/verif/seeded'
ROUND=int(sys.argv[1]) if len(sys.argv)>1 else 1
LOG={1:'eval_log.txt',2:'eval_log_r2.txt',3:'eval_log_r3.txt',4:'eval_log_r4.txt'}[ROUND]
evals={}
for line in open(f'{ROOT}/{LOG}'):
    if line.startswith('#') or not line.strip(): continue
    prop,k,first,after,strength=line.split(None,4)
    evals[(prop,k)]=(first,after,strength.strip())
out=[]
for (prop,k),(first,after,strength) in sorted(evals.items()):
    wt={1:f'/tmp/seed-{prop}',2:f'/tmp/seed2-{prop}',3:f'/tmp/seed3-{prop}',4:f'/tmp/seed4-{prop}'}[ROUND]
    src=f'{wt}/OUT/{k}'
    dst=f'{ROOT}/{prop}-{k}' if ROUND==1 else f'{ROOT}/{prop}-r{ROUND}-{k}'
    if not os.path.isdir(src):
        if os.path.isdir(dst): 
            out.append((prop,k,first,after,strength,'(stored earlier)')); 
        continue
    conf=''
    if os.path.exists(f'{wt}/confirm.log'):
        for l in open(f'{wt}/confirm.log'):
            if l.startswith(f'{wt}/{k} '): conf=l.strip()
    os.makedirs(dst,exist_ok=True)
    for f in ['patch.diff','demo.rs','notes.md','patch_rebased.diff']:
        if os.path.exists(f'{src}/{f}'): shutil.copy(f'{src}/{f}',f'{dst}/{f}')
    notes=open(f'{src}/notes.md').read() if os.path.exists(f'{src}/notes.md') else ''
    meta={
      'property': prop,
      'source': 'independent sub-agent given only the property text and its own git worktree of rust-bio',
      'needs_to_manifest': (re.sub(r'\s+',' ',notes)[:1200]),
      'confirmed_by_us': {
          'how': 'tools/confirm_seed.sh in the scratch worktree: patch applied, `cargo test --offline --lib --tests` (demos removed) , then the demo with and without the change',
          'result': conf,
      },
      'check_verdict': {
          'first_run': first, 'after_strengthening': after if after!='-' else first, 'strengthening': None if strength=='-' else strength.replace('-',' '),
          'how': 'tools/mutenv.sh run <patch> <PROP> quick (engine copy linked against a detached worktree of /repo HEAD with the patch applied); kept seeds are re-run against /repo itself by tools/run_seeded.sh',
      },
    }
    json.dump(meta,open(f'{dst}/meta.json','w'),indent=1)
    out.append((prop,k,first,after,strength,'confirmed (suite 442+2 ok with the change, demo fails with / passes without)' if 'suite_ok=yes' in conf else 'NOT-CONFIRMED-YET'))
with open(f'{ROOT}/RESULTS.md' if ROUND==1 else f'{ROOT}/RESULTS_round{ROUND}.md','w') as f:
    f.write('# Seeded changes (independently produced) and what the checks report\n\n| seed | first run of the quick check | after strengthening | what was strengthened | confirmation |\n|---|---|---|---|---|\n')
    for prop,k,first,after,strength,c in out:
        f.write(f'| {prop}-{("r%d-"%ROUND) if ROUND>1 else ""}{k} | {first} | {after} | {strength.replace("-"," ") if strength!="-" else "-"} | {c} |\n')
print(len(out),'seeds stored')
