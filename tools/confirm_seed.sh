#!/bin/bash
# tools/confirm_seed.sh <worktree> <k> : independently confirms seeded change <worktree>/OUT/<k>:
#   (1) patch applies and compiles, (2) the existing suite (lib + tests/mod.rs, demos removed) passes
#   with the change, (3) the demo FAILS with the change, (4) the demo PASSES without it.
# Prints one summary line; leaves the worktree's src clean.
WT="$1"; K="$2"
cd "$WT" || exit 2
export CARGO_NET_OFFLINE=true
git checkout -- src; rm -f tests/demo_*.rs
git apply "OUT/$K/patch.diff" || { echo "$WT/$K APPLY-FAILED"; exit 1; }
suite=$(cargo test --offline --lib --tests 2>&1 | grep -E "^test result" | tr '\n' ' ')
suite_ok=$(echo "$suite" | grep -q "FAILED\|failed; [1-9]" && echo no || echo yes)
echo "$suite" | grep -q "test result" || suite_ok=no
cp "OUT/$K/demo.rs" "tests/demo_$K.rs"
with=$(cargo test --offline --test "demo_$K" 2>&1 | grep -E "^test result|error(\[|:)" | head -2 | tr '\n' ' ')
git checkout -- src
without=$(cargo test --offline --test "demo_$K" 2>&1 | grep -E "^test result|error(\[|:)" | head -2 | tr '\n' ' ')
rm -f "tests/demo_$K.rs"
echo "$WT/$K suite_ok=$suite_ok [$suite] demo_with_change=[$with] demo_without=[$without]"
