#!/bin/bash
# Replays every stored counterexample of a *fixed* finding (regressions/*.json) on the current
# tree; each must now pass.  Exit 1 if one of them violates again.
cd /verif
rc=0
for f in regressions/*.json; do
  prop=$(basename "$f" | cut -d- -f1)
  out=$(./check "$prop" --replay "$f" 2>&1); r=$?
  echo "$f -> exit $r $(echo "$out" | tail -1 | cut -c1-120)"
  [ $r -eq 0 ] || rc=1
done
exit $rc
