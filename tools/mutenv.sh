#!/bin/bash
# tools/mutenv.sh sync        : refresh the private mutation environment under /tmp/mut
#                               (engine copy whose `bio` dependency points at /tmp/mut/repo, a
#                               detached worktree of /repo's HEAD) — lets mutants be evaluated
#                               without touching /repo while other builds depend on it
# tools/mutenv.sh run <patch> <PROP> [tier] : apply patch to /tmp/mut/repo, run the check there, restore
set -u
M=/tmp/mut
case "${1:-}" in
sync)
  mkdir -p $M/root
  [ -d $M/repo ] || git -C /repo worktree add -q --detach $M/repo HEAD
  git -C $M/repo checkout -q --detach "$(git -C /repo rev-parse HEAD)" && git -C $M/repo checkout -- .
  rsync -a --delete --exclude target /verif/engine/ $M/engine/
  sed -i 's#bio = { path = "/repo" }#bio = { path = "/tmp/mut/repo" }#' $M/engine/Cargo.toml
  cp /verif/known_findings.txt $M/root/
  (cd $M/engine && CARGO_NET_OFFLINE=true cargo build --release --offline --quiet 2>&1 | tail -3)
  ;;
run)
  P="$2"; ID="$3"; TIER="${4:-quick}"
  git -C $M/repo checkout -- . ; git -C $M/repo clean -fdq -- src
  git -C $M/repo apply "$P" || { echo "APPLY-FAILED $P"; exit 2; }
  (cd $M/engine && CARGO_NET_OFFLINE=true cargo build --release --offline --quiet 2>$M/build.log) || { echo "BUILD-FAILED"; tail -20 $M/build.log; git -C $M/repo checkout -- .; exit 2; }
  out=$(VERIF_ROOT=$M/root $M/engine/target/release/bmc drive "$ID" --tier "$TIER" 2>&1); rc=$?
  keys=$(echo "$out" | grep -o "violation class [^ ]*" | sed 's/violation class //' | tr '\n' ' ')
  mach=$(echo "$out" | grep -c "MACHINERY-ERROR")
  echo "$(basename $(dirname $P))/$(basename $P) prop=$ID exit=$rc machinery=$mach keys=$keys"
  git -C $M/repo checkout -- . ; git -C $M/repo clean -fdq -- src
  ;;
*) echo "usage: mutenv.sh sync | run <patch> <PROP> [tier]"; exit 2;;
esac
