#!/bin/bash
# tools/revert_test.sh <fix-commit> <check id> [tier]
# Reverse-applies one "fix:" commit of /repo to the working tree (nothing is committed), runs the
# check, restores the tree.  The check must then exit 1 and name the fixed finding's key.
set -u
C="$1"; ID="$2"; TIER="${3:-quick}"
cd /verif
trap 'git -C /repo checkout -- . ; echo "[revert_test] /repo restored: $(git -C /repo status --short | wc -l) dirty files"' EXIT
git -C /repo show "$C" | git -C /repo apply -R || { echo "cannot reverse-apply $C"; exit 2; }
./check "$ID" --tier "$TIER" | grep -E "violation class|VIOLATION|KNOWN|quick:|thorough:" | cut -c1-400
echo "[revert_test] exit code of check: ${PIPESTATUS[0]}"
