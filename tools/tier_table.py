#!/usr/bin/env python3
"""Prints a markdown table of what the last quick and thorough run of every check covered
(from evidence/by_tier/*.json, which the checks write themselves)."""
import json, glob, os
rows=[]
for pid in ['C%02d'%i for i in range(1,21)]:
    r=[pid]
    for tier in ('quick','thorough'):
        f=f'/verif/evidence/by_tier/{pid}.{tier}.json'
        if not os.path.exists(f): r+=['-','-','-','-']; continue
        e=json.load(open(f)); c=e['coverage']
        st=''
        if c.get('states'): st=f" / {c['states']:,} states, {c['transitions']:,} transitions"
        r+=[f"{c['evaluations']:,}", f"{c['distinct_nontrivial']:,}", f"{e['wall_s']:.0f} s", ('yes' if c.get('exhaustive') else 'NO')+st]
    rows.append(r)
print('| check | quick cases | non-trivial | wall | exhaustive | thorough cases | non-trivial | wall | exhaustive |')
print('|---|---|---|---|---|---|---|---|---|')
for r in rows: print('| '+' | '.join(r)+' |')
