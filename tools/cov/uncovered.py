#!/usr/bin/env python3
"""uncovered.py [--union] [--tier quick] [ID ...] : uncovered lines of the anchored source files."""
import json, subprocess, sys, os, glob
LL='/root/.rustup/toolchains/nightly-x86_64-unknown-linux-gnu/lib/rustlib/x86_64-unknown-linux-gnu/bin'
REPO='/tmp/mut/repo'; BIN='/tmp/cov/engine/target/release/bmc'
args=sys.argv[1:]; union='--union' in args; tier='quick'
if '--tier' in args: tier=args[args.index('--tier')+1]
ids=[a for a in args if a.startswith('C')]
props={}
for l in open('/verif/properties.jsonl'):
    p=json.loads(l); props[p['id']]=[f for f in p['anchors']['files'] if f.startswith('src/')]
def report(label, prof, files):
    out=subprocess.run([LL+'/llvm-cov','export','-format=lcov',BIN,'-instr-profile='+prof]+[REPO+'/'+f for f in files],capture_output=True,text=True).stdout
    cur=None; unc={}
    for line in out.splitlines():
        if line.startswith('SF:'): cur=line[3:]; unc[cur]=[]
        elif line.startswith('DA:'):
            ln,c=line[3:].split(',')[:2]
            if int(c)==0: unc[cur].append(int(ln))
    print('====',label)
    for f,lines in unc.items():
        src=open(f).read().splitlines()
        print(f'--- {f[len(REPO)+1:]}: {len(lines)} uncovered lines')
        prev=None
        for ln in lines:
            if prev is not None and ln!=prev+1: print('  .')
            print(f'  {ln:5d}: {src[ln-1]}'); prev=ln
if union:
    profs=sorted(glob.glob(f'/tmp/cov/prof/C??-{tier}.profdata'))
    subprocess.run([LL+'/llvm-profdata','merge','-sparse']+profs+['-o','/tmp/cov/prof/ALL.profdata'],check=True)
    report('ALL', '/tmp/cov/prof/ALL.profdata', sorted({f for v in props.values() for f in v}))
else:
    for pid in ids or sorted(props):
        report(pid, f'/tmp/cov/prof/{pid}-{tier}.profdata', props[pid])
