#!/bin/bash
# usage: run.sh <ID> [tier]
LL=$(dirname $(rustup +nightly which rustc 2>/dev/null || echo /root/.rustup/toolchains/nightly-x86_64-unknown-linux-gnu/bin/rustc))/../lib/rustlib/x86_64-unknown-linux-gnu/bin
id=$1; tier=${2:-quick}
rm -rf /tmp/cov/prof/$id-$tier; mkdir -p /tmp/cov/prof/$id-$tier
LLVM_PROFILE_FILE=/tmp/cov/prof/$id-$tier/%p.profraw VERIF_ROOT=/tmp/cov/root VERIF_WALL_CAP_S=${VERIF_WALL_CAP_S:-3000} /tmp/cov/engine/target/release/bmc drive $id --tier $tier 2>&1 | grep -E "$tier:|VIOLATION|MACHINERY" | cut -c1-200
$LL/llvm-profdata merge -sparse /tmp/cov/prof/$id-$tier/*.profraw -o /tmp/cov/prof/$id-$tier.profdata && rm -rf /tmp/cov/prof/$id-$tier
