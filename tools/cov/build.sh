#!/bin/bash
set -e
mkdir -p /tmp/cov/root /tmp/cov/prof
[ -d /tmp/mut/repo ] || /verif/tools/mutenv.sh sync
rsync -a --delete --exclude target /verif/engine/ /tmp/cov/engine/
sed -i 's#bio = { path = "/repo" }#bio = { path = "/tmp/mut/repo" }#' /tmp/cov/engine/Cargo.toml
cp /verif/known_findings.txt /tmp/cov/root/
cd /tmp/cov/engine && RUSTFLAGS="-C instrument-coverage" CARGO_NET_OFFLINE=true cargo +nightly build --release --offline
