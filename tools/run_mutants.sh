#!/bin/bash
# tools/run_mutants.sh [-t] [pattern]
# For every /verif/mutants/<PROP>-*.patch (or /verif/seeded/*/patch.diff with -s) matching the
# pattern: apply to /repo's working tree, optionally (-t) run the repository's own test-suite,
# run the quick check of <PROP>, restore /repo.  Prints one line per mutant:
#   <mutant> tests=<pass|fail|skipped> check_exit=<code> keys=<violation classes>
set -u
RUNTESTS=0
if [ "${1:-}" = "-t" ]; then RUNTESTS=1; shift; fi
PAT="${1:-}"
cd /verif
restore() { git -C /repo checkout -- . ; }
trap restore EXIT
[ -z "$(git -C /repo status --porcelain)" ] || { echo "/repo is not clean"; exit 2; }
for p in mutants/*.patch; do
  name=$(basename "$p" .patch)
  case "$name" in *"$PAT"*) ;; *) continue;; esac
  prop=${name%%-*}
  if ! git -C /repo apply "/verif/$p" 2>/dev/null; then echo "$name APPLY-FAILED"; continue; fi
  t=skipped
  if [ $RUNTESTS -eq 1 ]; then
    if ./run_repo_tests.sh /repo >/dev/null 2>&1; then t=pass; else t=FAIL; fi
  fi
  out=$(./check "$prop" --tier quick 2>&1); rc=$?
  keys=$(echo "$out" | grep -o "violation class [^ ]*" | sed 's/violation class //' | tr '\n' ' ')
  mach=$(echo "$out" | grep -c "MACHINERY-ERROR")
  echo "$name tests=$t check_exit=$rc machinery=$mach keys=$keys"
  restore
done
