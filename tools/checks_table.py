NOT_APPLICABLE = {}

add("C08", "exploration", "exhaustive input sweep of the real matchers against a naive scan (bounded lengths, boundary-length families, reuse histories)",
    "Every (pattern, text) pair over 2-3 symbol alphabets up to the stated lengths, through three byte embeddings, plus periodic patterns around the 32/64 word boundaries and one-object reuse with interleaved iterators, is executed on the five real matchers and compared with a naive window scan; no sampling. Small-scope exhaustive coverage is the right level because every matcher is a pure function of (pattern, text) and its defects (border handling, shift tables, word-size masks) show on the smallest instances of the relevant shape.",
    "Trusted: the naive scan; bounded claim (lengths listed in evidence.bounds); patterns >64 only checked for refusal by the bit-parallel matchers.")

add("C18", "model_checking", "explicit-state BFS over operation histories of the real containers against Vec models, states de-duplicated on the full object state",
    "Breadth-first search over all push/push_values/set/clear histories (BitEnc, widths 1-8), push/set histories from several constructors (SmallInts, four type pairs) and all update sequences (Fenwick sum/max) up to the stated depth; after every transition the complete observable state (length, iteration, every get, out-of-range get, block count) is compared with a Vec model. States are merged only when every field of the real object and the model coincide.",
    "Trusted: Vec models; determinism of the subject (no interior randomness); bounded depth and value grids as listed in evidence.bounds.")
