#!/bin/bash
# Runs the repository's pinned test suite (guard OFF — there are no verification hooks in /repo).
# Usage: run_repo_tests.sh [repo-dir]   ; prints a summary line and exits non-zero on any failure.
cd "${1:-/repo}" || exit 2
export CARGO_NET_OFFLINE=true
cargo nextest run --workspace --no-fail-fast --tool-config-file pb:/w/lib/nextest.toml --profile pb --test-threads 8 --offline 2>&1 | tail -5
rc=${PIPESTATUS[0]}
if [ $rc -ne 0 ] && ! command -v cargo-nextest >/dev/null; then
  cargo test --workspace --no-fail-fast --offline 2>&1 | grep -E "^test result|FAILED|failed" | tail -20
  rc=${PIPESTATUS[0]}
fi
exit $rc
