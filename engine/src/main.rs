//! bmc — bounded exhaustive explorer of the rust-bio implementation.
//!   bmc drive <ID> --tier quick|thorough        (what ./check calls)
//!   bmc replay <ID> <file>
//!   bmc worker <ID> --tier T --unit N [--pin F] [--skip F] [--deadline-unix S]     (internal)
//!   bmc replay-worker <ID> <case.json>                                             (internal)
//!   bmc list

mod bfs;
mod ctx;
mod driver;
mod env;
mod fork;
mod gen;
mod oracles;
mod props;

use ctx::{Ctx, Tier, PROGRESS};
use std::collections::HashSet;
use std::sync::atomic::Ordering;
use std::time::{Duration, Instant, SystemTime, UNIX_EPOCH};

fn env_u64(name: &str, default: u64) -> u64 {
    std::env::var(name)
        .ok()
        .and_then(|s| s.parse().ok())
        .unwrap_or(default)
}

fn rss_bytes() -> u64 {
    if let Ok(s) = std::fs::read_to_string("/proc/self/statm") {
        if let Some(r) = s.split_whitespace().nth(1) {
            if let Ok(p) = r.parse::<u64>() {
                return p * 4096;
            }
        }
    }
    0
}

fn process_cpu_seconds() -> f64 {
    let mut ts = libc::timespec { tv_sec: 0, tv_nsec: 0 };
    unsafe {
        libc::clock_gettime(libc::CLOCK_PROCESS_CPUTIME_ID, &mut ts);
    }
    ts.tv_sec as f64 + ts.tv_nsec as f64 * 1e-9
}

/// Watchdog: a worker whose current case has consumed VERIF_STALL_S seconds of *CPU time* without
/// finishing (a subject that loops burns CPU; a worker that is merely starved on a loaded machine
/// does not), or that made no progress for VERIF_STALL_WALL_S of wall clock (a subject that
/// blocks), or whose resident set exceeds VERIF_RSS_CAP_MB, exits with a distinctive code so the
/// driver can attribute the case.
fn start_watchdog() {
    let stall_cpu = env_u64("VERIF_STALL_S", 20) as f64;
    let stall_wall = Duration::from_secs(env_u64("VERIF_STALL_WALL_S", 900));
    let rss_cap = env_u64("VERIF_RSS_CAP_MB", 4096) * 1024 * 1024;
    std::thread::spawn(move || {
        let mut last = PROGRESS.load(Ordering::Relaxed);
        let mut since = Instant::now();
        let mut cpu_at = process_cpu_seconds();
        loop {
            std::thread::sleep(Duration::from_millis(20));
            let p = PROGRESS.load(Ordering::Relaxed);
            if p != last {
                last = p;
                since = Instant::now();
                cpu_at = process_cpu_seconds();
            } else if process_cpu_seconds() - cpu_at > stall_cpu {
                eprintln!("WATCHDOG: no progress for {}s of CPU time at case #{}", stall_cpu, p);
                std::process::exit(97);
            } else if since.elapsed() > stall_wall {
                eprintln!("WATCHDOG: no progress for {:?} of wall clock at case #{}", stall_wall, p);
                std::process::exit(97);
            }
            if rss_bytes() > rss_cap {
                eprintln!("WATCHDOG: resident set above cap at case #{}", p);
                std::process::exit(98);
            }
        }
    });
}

fn limit_address_space() {
    let bytes = env_u64("VERIF_WORKER_AS_MB", 12288) * 1024 * 1024;
    unsafe {
        let lim = libc::rlimit {
            rlim_cur: bytes,
            rlim_max: bytes,
        };
        libc::setrlimit(libc::RLIMIT_AS, &lim);
        let core = libc::rlimit {
            rlim_cur: 0,
            rlim_max: 0,
        };
        libc::setrlimit(libc::RLIMIT_CORE, &core);
    }
}

fn arg_after(args: &[String], flag: &str) -> Option<String> {
    args.iter()
        .position(|a| a == flag)
        .and_then(|i| args.get(i + 1).cloned())
}

fn main() {
    let args: Vec<String> = std::env::args().skip(1).collect();
    if args.is_empty() {
        eprintln!("usage: bmc drive|replay|list ...");
        std::process::exit(2);
    }
    match args[0].as_str() {
        "list" => {
            for p in props::all() {
                println!("{} {}", p.id(), p.level());
            }
        }
        "drive" => {
            let id = args.get(1).cloned().unwrap_or_default();
            let tier = arg_after(&args, "--tier")
                .or_else(|| std::env::var("VERIF_TIER").ok())
                .and_then(|s| Tier::parse(&s))
                .unwrap_or(Tier::Quick);
            std::process::exit(driver::drive(&id, tier));
        }
        "replay" => {
            let id = args.get(1).cloned().unwrap_or_default();
            let file = args.get(2).cloned().unwrap_or_default();
            std::process::exit(driver::replay_file(&id, &file));
        }
        "worker" => {
            let id = args.get(1).cloned().unwrap_or_default();
            let prop = props::get(&id).expect("unknown property");
            let tier = Tier::parse(&arg_after(&args, "--tier").unwrap()).unwrap();
            let unit: usize = arg_after(&args, "--unit").unwrap().parse().unwrap();
            let pin = arg_after(&args, "--pin").map(|p| {
                std::fs::OpenOptions::new()
                    .create(true)
                    .write(true)
                    .truncate(true)
                    .open(p)
                    .expect("pin file")
            });
            let skip: HashSet<String> = arg_after(&args, "--skip")
                .and_then(|p| std::fs::read_to_string(p).ok())
                .map(|s| s.lines().filter(|l| !l.is_empty()).map(|l| l.to_string()).collect())
                .unwrap_or_default();
            let deadline = arg_after(&args, "--deadline-unix")
                .and_then(|s| s.parse::<u64>().ok())
                .map(|d| {
                    let now = SystemTime::now().duration_since(UNIX_EPOCH).unwrap().as_secs();
                    Instant::now() + Duration::from_secs(d.saturating_sub(now))
                });
            limit_address_space();
            ctx::install_panic_hook();
            start_watchdog();
            let names = prop.units(tier);
            let name = names.get(unit).cloned().unwrap_or_default();
            let mut c = Ctx::new(prop.id(), tier, unit, name, pin, skip, deadline);
            // a panic that escapes Ctx::case is a bug of the check itself (or of its enumeration
            // code), never a verdict about the subject
            if let Err(msg) = ctx::guard(|| prop.run_unit(tier, unit, &mut c)) {
                eprintln!("PANIC-OUTSIDE-CASE: {}", msg);
                std::process::exit(96);
            }
            ctx::emit_result(&c.finish());
        }
        "replay-worker" => {
            let id = args.get(1).cloned().unwrap_or_default();
            let prop = props::get(&id).expect("unknown property");
            let body = std::fs::read_to_string(&args[2]).expect("case file");
            let case: serde_json::Value = serde_json::from_str(&body).expect("case json");
            limit_address_space();
            ctx::install_panic_hook();
            start_watchdog();
            let mut c = Ctx::new(
                prop.id(),
                Tier::Quick,
                0,
                "replay".into(),
                None,
                HashSet::new(),
                None,
            );
            c.replaying = true;
            if let Err(msg) = ctx::guard(|| prop.replay(&case, &mut c)) {
                eprintln!("PANIC-OUTSIDE-CASE: {}", msg);
                std::process::exit(96);
            }
            ctx::emit_result(&c.finish());
        }
        other => {
            eprintln!("unknown command {}", other);
            std::process::exit(2);
        }
    }
}
