//! K3 — the environment of a parser as an explicit choice structure.
//!
//! `Env` is a `Read + Seek` over an in-memory byte string whose every `read()` answer length is
//! decided by a `Schedule`.  The default answer is "as much as the caller asked for"; a
//! *deviation* is a shorter answer.  Schedules are plain data, so every execution is replayable
//! from its description, and the reader's answer log is available for diagnostics.
#![allow(dead_code)]

use serde::{Deserialize, Serialize};
use std::io::{self, Read, Seek, SeekFrom};

#[derive(Clone, Debug, PartialEq, Eq, Hash, Serialize, Deserialize)]
pub enum Schedule {
    /// every answer has at most this many bytes
    Uniform(usize),
    /// answer sizes cycle through the list
    Cycle(Vec<usize>),
    /// the first answers are short (`chunks[i]` bytes at call i), afterwards the default
    /// (unbounded) answer: a schedule with `chunks.len()` deviations
    Prefix(Vec<usize>),
    /// deviations at specific call indices: (call index, answer size); unbounded elsewhere
    At(Vec<(usize, usize)>),
}

impl Schedule {
    fn limit(&self, call: usize) -> usize {
        match self {
            Schedule::Uniform(c) => *c,
            Schedule::Cycle(v) => v[call % v.len()],
            Schedule::Prefix(v) => v.get(call).copied().unwrap_or(usize::MAX),
            Schedule::At(v) => v
                .iter()
                .find(|(i, _)| *i == call)
                .map(|(_, n)| *n)
                .unwrap_or(usize::MAX),
        }
    }
    pub fn deviations(&self) -> usize {
        match self {
            Schedule::Prefix(v) => v.len(),
            Schedule::At(v) => v.len(),
            _ => usize::MAX,
        }
    }
}

pub struct Env<'a> {
    data: &'a [u8],
    pos: u64,
    pub calls: usize,
    sched: Schedule,
    /// answers given so far (bytes per read call)
    pub log: Vec<usize>,
    /// a reader that keeps calling read() after this many calls is declared non-terminating
    max_calls: usize,
    /// number of non-empty data reads; seeks do not reset it
    pub seeks: usize,
    /// read() calls (by index) that fail with ErrorKind::Interrupted instead of answering; by
    /// std's contract the caller is expected to retry
    interrupts: Vec<usize>,
}

impl<'a> Env<'a> {
    pub fn new(data: &'a [u8], sched: Schedule) -> Env<'a> {
        Env {
            data,
            pos: 0,
            calls: 0,
            sched,
            log: Vec::new(),
            max_calls: 64 + 16 * data.len(),
            seeks: 0,
            interrupts: Vec::new(),
        }
    }
    pub fn with_max_calls(mut self, n: usize) -> Self {
        self.max_calls = n;
        self
    }
    pub fn with_interrupts(mut self, calls: &[usize]) -> Self {
        self.interrupts = calls.to_vec();
        self
    }
}

impl<'a> Read for Env<'a> {
    fn read(&mut self, buf: &mut [u8]) -> io::Result<usize> {
        if self.calls >= self.max_calls {
            panic!("environment: reader issued more than {} read calls (no termination)", self.max_calls);
        }
        if self.interrupts.contains(&self.calls) {
            self.calls += 1;
            self.log.push(0);
            return Err(io::Error::new(io::ErrorKind::Interrupted, "interrupted (injected)"));
        }
        let lim = self.sched.limit(self.calls).max(1);
        self.calls += 1;
        let p = (self.pos as usize).min(self.data.len());
        let n = lim.min(buf.len()).min(self.data.len() - p);
        buf[..n].copy_from_slice(&self.data[p..p + n]);
        self.pos = (p + n) as u64;
        self.log.push(n);
        Ok(n)
    }
}

impl<'a> Seek for Env<'a> {
    fn seek(&mut self, s: SeekFrom) -> io::Result<u64> {
        self.seeks += 1;
        let new = match s {
            SeekFrom::Start(o) => o as i128,
            SeekFrom::Current(d) => self.pos as i128 + d as i128,
            SeekFrom::End(d) => self.data.len() as i128 + d as i128,
        };
        if new < 0 {
            return Err(io::Error::new(io::ErrorKind::InvalidInput, "seek before start"));
        }
        self.pos = new as u64;
        Ok(self.pos)
    }
}

/// all schedules with exactly one short first answer (1..len-1 bytes), then unbounded
pub fn one_deviation(len: usize) -> Vec<Schedule> {
    (1..len.max(1)).map(|a| Schedule::Prefix(vec![a])).collect()
}

/// all schedules with two short leading answers a, b (a + b < len), then unbounded
pub fn two_deviations(len: usize) -> Vec<Schedule> {
    let mut v = vec![];
    for a in 1..len.max(1) {
        for b in 1..(len - a).max(1) {
            v.push(Schedule::Prefix(vec![a, b]));
        }
    }
    v
}

/// deviations placed at later calls (for readers that issue many reads, e.g. after seeks):
/// one short answer of size 1..=c at any of the first n calls
pub fn one_deviation_at(n_calls: usize, c: usize) -> Vec<Schedule> {
    let mut v = vec![];
    for i in 0..n_calls {
        for s in 1..=c {
            v.push(Schedule::At(vec![(i, s)]));
        }
    }
    v
}

pub fn two_deviations_at(n_calls: usize, c: usize) -> Vec<Schedule> {
    let mut v = vec![];
    for i in 0..n_calls {
        for j in i + 1..n_calls {
            for s in 1..=c {
                for t in 1..=c {
                    v.push(Schedule::At(vec![(i, s), (j, t)]));
                }
            }
        }
    }
    v
}

pub fn uniform_family() -> Vec<Schedule> {
    vec![
        Schedule::Uniform(1),
        Schedule::Uniform(2),
        Schedule::Uniform(3),
        Schedule::Cycle(vec![2, 5]),
        Schedule::Cycle(vec![1, 3]),
        Schedule::Uniform(usize::MAX),
    ]
}
