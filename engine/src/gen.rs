//! K1 generators: complete enumerations of small input spaces, shortest first.
#![allow(dead_code)]

/// all strings over `alpha` with length in lo..=hi, ordered by length then lexicographically in
/// the order of `alpha`.
pub fn strings(alpha: &[u8], lo: usize, hi: usize) -> Vec<Vec<u8>> {
    let mut out = vec![];
    let mut cur: Vec<Vec<u8>> = vec![vec![]];
    if lo == 0 {
        out.push(vec![]);
    }
    for len in 1..=hi {
        let mut nxt = Vec::with_capacity(cur.len() * alpha.len());
        for s in &cur {
            for &c in alpha {
                let mut t = Vec::with_capacity(len);
                t.extend_from_slice(s);
                t.push(c);
                nxt.push(t);
            }
        }
        if len >= lo {
            out.extend(nxt.iter().cloned());
        }
        cur = nxt;
    }
    out
}

/// number of strings over an alphabet of size a with length lo..=hi
pub fn count_strings(a: usize, lo: usize, hi: usize) -> u64 {
    (lo..=hi).map(|l| (a as u64).pow(l as u32)).sum()
}

/// the idx-th string (0-based) of length exactly `len` over alpha, lexicographic
pub fn nth_string(alpha: &[u8], len: usize, mut idx: u64) -> Vec<u8> {
    let a = alpha.len() as u64;
    let mut v = vec![0u8; len];
    for i in (0..len).rev() {
        v[i] = alpha[(idx % a) as usize];
        idx /= a;
    }
    v
}

/// map the abstract symbols of `s` (which must be drawn from `from`) to `to`
pub fn embed(s: &[u8], from: &[u8], to: &[u8]) -> Vec<u8> {
    s.iter()
        .map(|c| to[from.iter().position(|f| f == c).expect("symbol not in source alphabet")])
        .collect()
}

/// periodic string u^r cut to length len
pub fn periodic(u: &[u8], len: usize) -> Vec<u8> {
    (0..len).map(|i| u[i % u.len()]).collect()
}

/// all subsets of 0..n as bitmasks, by increasing cardinality then value; capped to max_card
pub fn subsets(n: usize, max_card: usize) -> Vec<u32> {
    let mut v: Vec<u32> = (0u32..(1u32 << n))
        .filter(|m| m.count_ones() as usize <= max_card)
        .collect();
    v.sort_by_key(|m| (m.count_ones(), *m));
    v
}

/// all permutations of 0..n (n small)
pub fn permutations(n: usize) -> Vec<Vec<usize>> {
    fn rec(cur: &mut Vec<usize>, used: &mut Vec<bool>, n: usize, out: &mut Vec<Vec<usize>>) {
        if cur.len() == n {
            out.push(cur.clone());
            return;
        }
        for i in 0..n {
            if !used[i] {
                used[i] = true;
                cur.push(i);
                rec(cur, used, n, out);
                cur.pop();
                used[i] = false;
            }
        }
    }
    let mut out = vec![];
    rec(&mut vec![], &mut vec![false; n], n, &mut out);
    out
}

/// cartesian odometer over the given radices; calls f with the digit vector
pub fn odometer(radices: &[usize], mut f: impl FnMut(&[usize])) {
    if radices.iter().any(|&r| r == 0) {
        return;
    }
    let mut d = vec![0usize; radices.len()];
    loop {
        f(&d);
        let mut i = radices.len();
        loop {
            if i == 0 {
                return;
            }
            i -= 1;
            d[i] += 1;
            if d[i] < radices[i] {
                break;
            }
            d[i] = 0;
        }
    }
}

/// every string at edit distance <= 1 from p obtained by one edit at one of `positions`
/// (substitution by / insertion of each symbol of alpha, deletion). Includes p itself.
pub fn edit1_at(p: &[u8], alpha: &[u8], positions: &[usize]) -> Vec<Vec<u8>> {
    let mut out: Vec<Vec<u8>> = vec![p.to_vec()];
    for &pos in positions {
        if pos < p.len() {
            for &c in alpha {
                if c != p[pos] {
                    let mut t = p.to_vec();
                    t[pos] = c;
                    out.push(t);
                }
            }
            let mut t = p.to_vec();
            t.remove(pos);
            out.push(t);
        }
        if pos <= p.len() {
            for &c in alpha {
                let mut t = p.to_vec();
                t.insert(pos, c);
                out.push(t);
            }
        }
    }
    out.sort();
    out.dedup();
    out
}

/// every string within edit distance <= d of p, edits restricted to `positions` (re-applied to
/// the edited string at the same indices)
pub fn edit_neighbourhood(p: &[u8], alpha: &[u8], positions: &[usize], d: usize) -> Vec<Vec<u8>> {
    let mut cur: Vec<Vec<u8>> = vec![p.to_vec()];
    for _ in 0..d {
        let mut nxt: Vec<Vec<u8>> = vec![];
        for s in &cur {
            nxt.extend(edit1_at(s, alpha, positions));
        }
        nxt.sort();
        nxt.dedup();
        cur = nxt;
    }
    cur
}
