//! C18 — BitEnc, SmallInts and Fenwick trees behave like plain vectors / prefix folds.
//! K2: breadth-first search over operation histories on the real object next to a Vec model.

use super::Prop;
use crate::bfs;
use crate::ctx::{CaseCtx, Ctx, Tier};
use bio::data_structures::bit_tree::{MaxBitTree, SumBitTree};
use bio::data_structures::bitenc::BitEnc;
use bio::data_structures::smallints::SmallInts;
use serde::{Deserialize, Serialize};
use serde_json::{json, Value};

pub struct C18Prop;
pub static C18: C18Prop = C18Prop;

// ---------------------------------------------------------------- BitEnc

#[derive(Clone, Debug, Serialize, Deserialize)]
enum BOp {
    Push(u8),
    PushValues(usize, u8),
    Set(usize, u8),
    Clear,
}

#[derive(Clone)]
struct BState {
    real: BitEnc,
    model: Vec<u8>,
    width: usize,
}

fn bitenc_values(w: usize) -> Vec<u8> {
    let mask = ((1u16 << w) - 1) as u8;
    // 1, the all-ones value, a value with a bit above the width (masked: 2 resp. 0), and 0
    let hi = if w < 8 { ((1u16 << w) as u8) | 2 } else { 0xAA };
    let mut v = vec![1u8, mask, hi, 0];
    v.dedup();
    v
}

fn bitenc_ops(s: &BState, tier: Tier) -> Vec<BOp> {
    let mut ops = vec![];
    let vals = bitenc_values(s.width);
    for &v in &vals {
        ops.push(BOp::Push(v));
    }
    let ns: &[usize] = match tier {
        Tier::Quick => &[1, 3, 4, 10, 11, 33],
        Tier::Thorough => &[0, 1, 3, 4, 9, 10, 11, 32, 33],
    };
    for &n in ns {
        for &v in &vals[..3] {
            ops.push(BOp::PushValues(n, v));
        }
    }
    for &i in &[0usize, 5, 9, 10, 11, 31, 32] {
        if i < s.model.len() {
            for &v in &vals[..3] {
                ops.push(BOp::Set(i, v));
            }
        }
    }
    if !s.model.is_empty() {
        ops.push(BOp::Clear);
    }
    ops
}

fn bitenc_check(s: &BState, cc: &mut CaseCtx) -> bool {
    let w = s.width;
    let n = s.model.len();
    let real = &s.real;
    if real.nr_symbols() != n {
        cc.violation(
            "C18/bitenc/length-differs",
            format!("width {} nr_symbols {} model {}", w, real.nr_symbols(), n),
        );
        return false;
    }
    #[allow(deprecated)]
    if real.len() != n || real.is_empty() != (n == 0) {
        cc.violation("C18/bitenc/length-differs", "len()/is_empty() disagree with model");
        return false;
    }
    let per_block = 32 / w;
    let want_blocks = (n + per_block - 1) / per_block;
    if real.nr_blocks() != want_blocks {
        cc.violation(
            "C18/bitenc/block-count",
            format!("width {} len {} nr_blocks {} expected {}", w, n, real.nr_blocks(), want_blocks),
        );
        return false;
    }
    let it: Vec<u8> = real.iter().collect();
    if it != s.model {
        cc.violation(
            "C18/bitenc/contents-differ",
            format!("width {} iter {:?} model {:?}", w, it, s.model),
        );
        return false;
    }
    for i in 0..n {
        if real.get(i) != Some(s.model[i]) {
            cc.violation(
                "C18/bitenc/contents-differ",
                format!("width {} get({}) = {:?} model {}", w, i, real.get(i), s.model[i]),
            );
            return false;
        }
    }
    if real.get(n).is_some() || real.get(n + 40).is_some() {
        cc.violation("C18/bitenc/out-of-range-read", format!("get({}) is Some", n));
        return false;
    }
    true
}

fn bitenc_step(s: &BState, op: &BOp, cc: &mut CaseCtx) -> Option<BState> {
    let mut t = s.clone();
    let mask = ((1u16 << s.width) - 1) as u8;
    let partial_before = s.model.len() % (32 / s.width) != 0;
    match *op {
        BOp::Push(v) => {
            t.real.push(v);
            t.model.push(v & mask);
        }
        BOp::PushValues(n, v) => {
            t.real.push_values(n, v);
            for _ in 0..n {
                t.model.push(v & mask);
            }
            cc.set_nontrivial(partial_before && n > 0);
        }
        BOp::Set(i, v) => {
            t.real.set(i, v);
            t.model[i] = v & mask;
            cc.nontrivial();
        }
        BOp::Clear => {
            t.real.clear();
            t.model.clear();
        }
    }
    let ok = bitenc_check(&t, cc);
    cc.outcome(&(t.model.len(), &t.model, t.real.nr_blocks()));
    if ok {
        Some(t)
    } else {
        None
    }
}

fn bitenc_unit(width: usize, with_capacity: bool, tier: Tier, ctx: &mut Ctx) {
    let depth = tier.pick(4, 5);
    let real = if with_capacity {
        BitEnc::with_capacity(width, 40)
    } else {
        BitEnc::new(width)
    };
    let init = BState {
        real,
        model: vec![],
        width,
    };
    bfs::explore(
        ctx,
        vec![(init, json!({"bitenc_width": width, "with_capacity": with_capacity}))],
        depth,
        |s| bitenc_ops(s, tier),
        bitenc_step,
        |s| (s.real.clone(), s.model.clone()),
        |o| serde_json::to_value(o).unwrap(),
        json!({"depth": depth}),
    );
}

// ---------------------------------------------------------------- SmallInts

#[derive(Clone, Debug, Serialize, Deserialize)]
enum SOp {
    Push(i128),
    Set(usize, i128),
}

macro_rules! smallints_unit {
    ($fname:ident, $S:ty, $B:ty, $label:expr, $vals:expr, $smalls:expr) => {
        fn $fname(tier: Tier, ctx: &mut Ctx, replay: Option<(&Value, &[SOp])>) {
            #[derive(Clone)]
            struct St {
                real: SmallInts<$S, $B>,
                model: Vec<$B>,
            }
            let vals: Vec<i128> = $vals;
            let check = |t: &St, cc: &mut CaseCtx| -> bool {
                let n = t.model.len();
                if t.real.len() != n || t.real.is_empty() != (n == 0) {
                    cc.violation("C18/smallints/length-differs", format!("{} len {} model {}", $label, t.real.len(), n));
                    return false;
                }
                let it: Vec<$B> = t.real.iter().collect();
                let de = t.real.decompress();
                if it != t.model || de != t.model {
                    cc.violation("C18/smallints/contents-differ", format!("{} iter {:?} decompress {:?} model {:?}", $label, it, de, t.model));
                    return false;
                }
                for i in 0..n {
                    if t.real.get(i) != Some(t.model[i]) {
                        cc.violation("C18/smallints/contents-differ", format!("{} get({}) {:?} model {}", $label, i, t.real.get(i), t.model[i]));
                        return false;
                    }
                }
                if t.real.get(n).is_some() {
                    cc.violation("C18/smallints/out-of-range-read", format!("{} get(len) is Some", $label));
                    return false;
                }
                true
            };
            let step = |s: &St, op: &SOp, cc: &mut CaseCtx| -> Option<St> {
                let mut t = s.clone();
                match *op {
                    SOp::Push(v) => {
                        t.real.push(v as $B);
                        t.model.push(v as $B);
                        cc.set_nontrivial(v >= <$S>::MAX as i128 || v < <$S>::MIN as i128);
                    }
                    SOp::Set(i, v) => {
                        let was_big = (t.model[i] as i128) >= <$S>::MAX as i128 || (t.model[i] as i128) < <$S>::MIN as i128;
                        t.real.set(i, v as $B);
                        t.model[i] = v as $B;
                        cc.set_nontrivial(was_big || v >= <$S>::MAX as i128 || v < <$S>::MIN as i128);
                    }
                }
                let ok = check(&t, cc);
                cc.outcome(&format!("{:?}", t.model));
                if ok { Some(t) } else { None }
            };
            let mk_init = |d: &Value| -> St {
                match d.get("from_elem") {
                    Some(fe) => {
                        let v = fe[0].as_i64().unwrap() as $S;
                        let n = fe[1].as_u64().unwrap() as usize;
                        St { real: SmallInts::from_elem(v, n), model: vec![v as $B; n] }
                    }
                    None => {
                        if d.get("with_capacity").is_some() {
                            St { real: SmallInts::with_capacity(3), model: vec![] }
                        } else {
                            St { real: SmallInts::new(), model: vec![] }
                        }
                    }
                }
            };
            if let Some((init_d, ops)) = replay {
                ctx.case(|| json!({"kind":"history","init":init_d,"ops":ops}), |cc| {
                    let mut s = mk_init(init_d);
                    check(&s, cc);
                    for op in ops {
                        match step(&s, op, cc) { Some(n) => s = n, None => break }
                    }
                });
                return;
            }
            let depth = tier.pick(4, 5);
            let mut inits = vec![];
            let smalls: Vec<i64> = $smalls;
            for d in [json!({"smallints": $label}), json!({"smallints": $label, "with_capacity": 3})] {
                inits.push((mk_init(&d), d));
            }
            for v in &smalls {
                for n in [0usize, 2] {
                    let d = json!({"smallints": $label, "from_elem": [v, n]});
                    inits.push((mk_init(&d), d));
                }
            }
            // the initial states themselves are checked as cases
            for (s, d) in &inits {
                ctx.case(|| json!({"kind":"history","init":d,"ops":[]}), |cc| { check(s, cc); });
            }
            bfs::explore(
                ctx,
                inits,
                depth,
                |s: &St| {
                    let mut ops: Vec<SOp> = vals.iter().map(|&v| SOp::Push(v)).collect();
                    let n = s.model.len();
                    let mut idx = vec![0usize, 1, n.saturating_sub(1)];
                    idx.dedup();
                    for i in idx {
                        if i < n {
                            for &v in &vals {
                                ops.push(SOp::Set(i, v));
                            }
                        }
                    }
                    ops
                },
                step,
                |s: &St| (s.real.clone(), s.model.clone()),
                |o| serde_json::to_value(o).unwrap(),
                json!({"depth": depth}),
            );
        }
    };
}

smallints_unit!(smallints_i8_isize, i8, isize, "i8/isize",
    vec![0, 1, -1, 126, 127, 128, -128, -129, 255, 256, isize::MAX as i128, isize::MIN as i128],
    vec![0, 1, -1, 126, -128]);
smallints_unit!(smallints_u8_usize, u8, usize, "u8/usize",
    vec![0, 1, 127, 128, 254, 255, 256, usize::MAX as i128],
    vec![0, 1, 254]);
smallints_unit!(smallints_u8_i64, u8, i64, "u8/i64",
    vec![0, 1, -1, 254, 255, 256, -129, i64::MAX as i128, i64::MIN as i128],
    vec![0, 1, 254]);
smallints_unit!(smallints_i16_i32, i16, i32, "i16/i32",
    vec![0, -1, 32766, 32767, 32768, -32768, -32769, i32::MAX as i128],
    vec![0, -1, 32766]);

// ---------------------------------------------------------------- Fenwick

#[derive(Clone, Debug, Serialize, Deserialize)]
struct FOp(usize, i32);

fn fenwick_run(kind: &str, len: usize, ops: &[FOp], cc: &mut CaseCtx) {
    // after every update, every prefix query
    if kind == "sum" {
        // signed element type: updates may be negative or zero
        let mut model = vec![0i64; len];
        let mut t: SumBitTree<i32> = SumBitTree::new(len);
        for (n, op) in ops.iter().enumerate() {
            t.set(op.0, op.1);
            model[op.0] += op.1 as i64;
            let mut acc = 0i64;
            for i in 0..len {
                acc += model[i];
                let got = t.get(i) as i64;
                if got != acc {
                    cc.violation("C18/fenwick-sum/prefix-differs", format!("len {} after {} updates get({}) = {} expected {}", len, n + 1, i, got, acc));
                    return;
                }
            }
            cc.outcome(&acc);
        }
    } else {
        // prefix maximum over an unsigned type (the tree starts from T::default() = 0)
        let mut model = vec![0u32; len];
        let mut t: MaxBitTree<u32> = MaxBitTree::new(len);
        for (n, op) in ops.iter().enumerate() {
            let v = op.1.max(0) as u32;
            t.set(op.0, v);
            model[op.0] = model[op.0].max(v);
            let mut acc = 0u32;
            for i in 0..len {
                acc = acc.max(model[i]);
                let got = t.get(i);
                if got != acc {
                    cc.violation("C18/fenwick-max/prefix-differs", format!("len {} after {} updates get({}) = {} expected {}", len, n + 1, i, got, acc));
                    return;
                }
            }
            cc.outcome(&acc);
        }
    }
    cc.add_transitions(ops.len() as u64);
    cc.add_traces(1);
    cc.set_nontrivial(len >= 3 && ops.len() >= 2 && ops.windows(2).any(|w| w[0].0 != w[1].0));
}

fn fenwick_unit(kind: &'static str, tier: Tier, ctx: &mut Ctx) {
    let max_len = tier.pick(9, 17);
    let depth = tier.pick(3, 4);
    // the sum tree also gets a negative and a zero update; the max tree zero and positive ones
    let vals: &[i32] = if kind == "sum" { &[1, 3, -2, 0] } else { &[1, 3, 2, 0] };
    for len in 1..=max_len {
        let nops = len * vals.len();
        let mut radices = vec![];
        for d in 1..=depth {
            radices.clear();
            radices.resize(d, nops);
            if (nops as u64).pow(d as u32) > tier.pick(300_000, 3_000_000) {
                continue;
            }
            let r = radices.clone();
            crate::gen::odometer(&r, |digits| {
                let ops: Vec<FOp> = digits.iter().map(|&x| FOp(x / vals.len(), vals[x % vals.len()])).collect();
                ctx.case(
                    || json!({"kind":"fenwick","tree":kind,"len":len,"ops":ops}),
                    |cc| fenwick_run(kind, len, &ops, cc),
                );
            });
        }
    }
}

// ---------------------------------------------------------------- Prop

const UNITS: &[&str] = &[
    "bitenc-w1", "bitenc-w2", "bitenc-w3", "bitenc-w4", "bitenc-w5", "bitenc-w6", "bitenc-w7",
    "bitenc-w8", "bitenc-w3-with_capacity", "bitenc-w5-with_capacity", "smallints-i8-isize", "smallints-u8-usize", "smallints-u8-i64",
    "smallints-i16-i32", "fenwick-sum", "fenwick-max",
];

impl Prop for C18Prop {
    fn id(&self) -> &'static str {
        "C18"
    }
    fn level(&self) -> &'static str {
        "model_checking"
    }
    fn rule(&self) -> &'static str {
        "Breadth-first search over operation histories of the real container next to a Vec model; states de-duplicated on (all fields of the real object, model); every transition is one case (distinct by construction: distinct (state, op) pairs). Non-trivial: BitEnc push_values into a partially filled block or set(); SmallInts push/set involving a value outside the small type's range or overwriting one; Fenwick histories with >=2 updates at different indices on len>=3."
    }
    fn assumptions(&self) -> Vec<&'static str> {
        vec![
            "Vec<u8>/Vec<B>/prefix folds are the reference models",
            "state key contains every field of the real object (derive(Hash, Eq)), so merging states is sound",
            "widths 1..=8 only (constructor contract); set(i, v) only for i < len",
        ]
    }
    fn bounds(&self, tier: Tier) -> Value {
        json!({
            "bitenc": {"widths": "1..=8 (+ with_capacity for 3,5)", "depth": tier.pick(4,5),
                       "push_values_n": tier.pick("1,3,4,10,11,33", "0,1,3,4,9,10,11,32,33"),
                       "values": "1, all-ones, value with a bit above the width, 0", "set_indices": "0,5,9,10,11,31,32 (when in range)"},
            "smallints": {"types": "i8/isize, u8/usize, u8/i64, i16/i32", "depth": tier.pick(4,5), "inits": "new, with_capacity, from_elem(v,n) n in {0,2}"},
            "fenwick": {"len": format!("1..={}", tier.pick(9,17)), "depth": tier.pick(3,4), "values": "sum tree (i32): 1,3,-2,0; max tree (u32): 1,3,2,0", "note": "depth levels whose sequence count exceeds the per-level budget are skipped for that length"}
        })
    }
    fn units(&self, _tier: Tier) -> Vec<String> {
        UNITS.iter().map(|s| s.to_string()).collect()
    }
    fn run_unit(&self, tier: Tier, unit: usize, ctx: &mut Ctx) {
        match unit {
            0..=7 => bitenc_unit(unit + 1, false, tier, ctx),
            8 => bitenc_unit(3, true, tier, ctx),
            9 => bitenc_unit(5, true, tier, ctx),
            10 => smallints_i8_isize(tier, ctx, None),
            11 => smallints_u8_usize(tier, ctx, None),
            12 => smallints_u8_i64(tier, ctx, None),
            13 => smallints_i16_i32(tier, ctx, None),
            14 => fenwick_unit("sum", tier, ctx),
            15 => fenwick_unit("max", tier, ctx),
            _ => {}
        }
    }
    fn replay(&self, case: &Value, ctx: &mut Ctx) {
        let kind = case["kind"].as_str().unwrap_or("");
        if kind == "fenwick" {
            let tree = if case["tree"] == "sum" { "sum" } else { "max" };
            let len = case["len"].as_u64().unwrap() as usize;
            let ops: Vec<FOp> = serde_json::from_value(case["ops"].clone()).unwrap();
            ctx.case(|| case.clone(), |cc| fenwick_run(tree, len, &ops, cc));
            return;
        }
        let init = &case["init"];
        if let Some(w) = init.get("bitenc_width").and_then(|w| w.as_u64()) {
            let ops: Vec<BOp> = serde_json::from_value(case["ops"].clone()).unwrap();
            let w = w as usize;
            let wc = init["with_capacity"].as_bool().unwrap_or(false);
            ctx.case(
                || case.clone(),
                |cc| {
                    let mut s = BState {
                        real: if wc { BitEnc::with_capacity(w, 40) } else { BitEnc::new(w) },
                        model: vec![],
                        width: w,
                    };
                    for op in &ops {
                        match bitenc_step(&s, op, cc) {
                            Some(n) => s = n,
                            None => break,
                        }
                    }
                },
            );
            return;
        }
        if let Some(l) = init.get("smallints").and_then(|l| l.as_str()) {
            let ops: Vec<SOp> = serde_json::from_value(case["ops"].clone()).unwrap();
            match l {
                "i8/isize" => smallints_i8_isize(Tier::Quick, ctx, Some((init, &ops))),
                "u8/usize" => smallints_u8_usize(Tier::Quick, ctx, Some((init, &ops))),
                "u8/i64" => smallints_u8_i64(Tier::Quick, ctx, Some((init, &ops))),
                _ => smallints_i16_i32(Tier::Quick, ctx, Some((init, &ops))),
            }
        }
    }
}
