//! C03 — the suffix array is the sorted permutation of all suffixes (any fixed order among
//! sentinel occurrences), LCP and shortest-unique-substring arrays are exact on single-sentinel
//! texts, the integer-alphabet construction sorts dense integer texts, and a sampled suffix array
//! answers like the full one for every sampling rate and Occ rate.
//!
//! K1 sweeps: every text body·$ over {$,a,b} / {$,a,b,c} up to a length (two byte embeddings),
//! repetitive families that force SA-IS recursion, texts around the u8/u16 boundary of the rank
//! transform, dense integer texts for three element types.

use super::Prop;
use crate::ctx::{guard, show, unshow, CaseCtx, Ctx, Tier};
use crate::oracles::text_index as ti;
use crate::oracles::text_index::Pi;
use bio::alphabets::Alphabet;
use bio::data_structures::bwt::Occ;
use bio::data_structures::bwt::{Less, BWT};
use bio::data_structures::suffix_array::{
    lcp, shortest_unique_substrings, suffix_array, suffix_array_int, RawSuffixArray, SampledSuffixArray,
    SuffixArray,
};
use serde_json::{json, Value};

pub struct C03Prop;
pub static C03: C03Prop = C03Prop;

fn sent_class(text: &[u8]) -> &'static str {
    let alpha = Alphabet::new(text).len();
    let s = ti::sentinel_count(text);
    if alpha + s > 255 {
        "wide-alphabet"
    } else if s >= 2 {
        "multi-sentinel"
    } else {
        "single-sentinel"
    }
}

// ------------------------------------------------------------------------------------------------
// kind "sa": suffix_array + lcp + shortest_unique_substrings on one text
// ------------------------------------------------------------------------------------------------

fn check_text(text: &[u8], cc: &mut CaseCtx) {
    let n = text.len();
    let class = sent_class(text);
    let nsent = ti::sentinel_count(text);
    cc.set_nontrivial(ti::nontrivial_text(text));
    if cc.replaying || n >= 24 {
        let depth = ti::sais_recursion_depth(&ti::keys_for(text, Pi::Desc));
        if depth >= 1 {
            cc.count("texts_forcing_sais_recursion", 1);
        }
        if depth >= 2 {
            cc.count("texts_forcing_sais_recursion_depth>=2", 1);
        }
    }
    let sa = match guard(|| suffix_array(text)) {
        Ok(sa) => sa,
        Err(msg) => {
            cc.outcome(&"panic");
            cc.violation(format!("C03/suffix_array/{}/panic", class), msg);
            return;
        }
    };
    cc.outcome(&sa);
    if let Err(d) = ti::check_sa(text, &sa) {
        cc.violation(
            format!("C03/suffix_array/{}/{}", class, d.symptom()),
            format!("suffix_array({:?}) = {:?}: {:?}", show(text), sa, d),
        );
        return;
    }
    // the full array through the `SuffixArray` trait: the accessors must describe the same vector
    if !check_raw_trait(&sa, cc) {
        return;
    }
    if nsent != 1 || n < 2 {
        return;
    }
    // single sentinel: the array is unique, so LCP / SUS are fully determined
    let want_lcp = ti::true_lcp(text, &sa);
    let got_lcp = match guard(|| lcp(text, &sa)) {
        Ok(l) => l,
        Err(msg) => {
            cc.violation("C03/lcp/panic", msg);
            return;
        }
    };
    let dec = got_lcp.decompress();
    cc.outcome(&dec);
    if dec != want_lcp {
        let symptom = if dec.len() != want_lcp.len() { "wrong-length" } else { "wrong-value" };
        cc.violation(
            format!("C03/lcp/{}", symptom),
            format!("lcp({:?}) = {:?}, true {:?}", show(text), dec, want_lcp),
        );
        return;
    }
    // random access must agree with decompress()
    for (i, &w) in want_lcp.iter().enumerate() {
        if got_lcp.get(i) != Some(w) {
            cc.violation(
                "C03/lcp/get-differs-from-decompress",
                format!("lcp({:?}).get({}) = {:?}, true {}", show(text), i, got_lcp.get(i), w),
            );
            return;
        }
    }
    let want_sus = ti::sus_oracle(text);
    match guard(|| shortest_unique_substrings(&sa, &got_lcp)) {
        Err(msg) => cc.violation("C03/sus/panic", msg),
        Ok(got) => {
            cc.outcome(&got);
            if got != want_sus {
                cc.violation(
                    "C03/sus/wrong-value",
                    format!("sus({:?}) = {:?}, by definition {:?}", show(text), got, want_sus),
                );
            }
        }
    }
}

/// `impl SuffixArray for RawSuffixArray`: get(i) = Some(v[i]) inside, None at and beyond the length,
/// len() = vector length, is_empty() <=> len() == 0.  False after a violation.
fn check_raw_trait(sa: &RawSuffixArray, cc: &mut CaseCtx) -> bool {
    let n = sa.as_slice().len();
    let r = guard(|| {
        let got: Vec<Option<usize>> = (0..n + 2).map(|i| SuffixArray::get(sa, i)).collect();
        (got, SuffixArray::len(sa), SuffixArray::is_empty(sa))
    });
    match r {
        Err(msg) => {
            cc.violation("C03/raw-suffix-array/panic", msg);
            false
        }
        Ok((got, len, empty)) => {
            if let Some(i) = (0..n).find(|&i| got[i] != Some(sa.as_slice()[i])) {
                cc.violation(
                    "C03/raw-suffix-array/get-differs-from-vector",
                    format!("array {:?}: SuffixArray::get({}) = {:?}", sa, i, got[i]),
                );
                return false;
            }
            if got[n].is_some() || got[n + 1].is_some() {
                cc.violation(
                    "C03/raw-suffix-array/out-of-range-some",
                    format!("array of length {}: get({}) = {:?}, get({}) = {:?}", n, n, got[n], n + 1, got[n + 1]),
                );
                return false;
            }
            if len != n || empty != (n == 0) {
                cc.violation(
                    "C03/raw-suffix-array/len-or-is_empty",
                    format!("array of length {}: len() = {}, is_empty() = {}", n, len, empty),
                );
                return false;
            }
            true
        }
    }
}

// ------------------------------------------------------------------------------------------------
// kind "sampled": SampledSuffixArray::get against the full array, one (text, pi, s, k) per case
// ------------------------------------------------------------------------------------------------

/// Everything that does not depend on (s, k).  The full array is the oracle's (valid by
/// construction, under the sentinel order `pi`), BWT and less are computed by definition, so a
/// discrepancy can only come from `sample`, `SampledSuffixArray::get` or `Occ`.
struct Prepared {
    sa: Vec<usize>,
    bwt: Vec<u8>,
    less: Vec<usize>,
    alphabet: Alphabet,
    nontrivial: bool,
    class: &'static str,
}

fn prepare(text: &[u8], pi: Pi) -> Prepared {
    let sa = ti::naive_sa(text, pi);
    let bwt = ti::bwt_def(text, &sa);
    let alphabet = Alphabet::new(text);
    let less = ti::less_table(text, alphabet.max_symbol().unwrap());
    Prepared {
        sa,
        bwt,
        less,
        alphabet,
        nontrivial: text.len() >= 3 && ti::nontrivial_text(text),
        class: if ti::sentinel_count(text) >= 2 { "multi-sentinel" } else { "single-sentinel" },
    }
}

fn check_sampled(text: &[u8], p: &Prepared, s: usize, k: u32, cc: &mut CaseCtx) {
    let n = text.len();
    cc.set_nontrivial(p.nontrivial && s >= 2);
    let r = guard(|| {
        let occ = Occ::new(&p.bwt, k, &p.alphabet);
        let sampled = p.sa.sample(text, &p.bwt, &p.less, &occ, s);
        let got: Vec<Option<usize>> = (0..=n).map(|i| sampled.get(i)).collect();
        // the accessors hand back what was passed to sample() (same object, or at least equal)
        let same = (std::ptr::eq(sampled.bwt(), &p.bwt) || sampled.bwt() == &p.bwt)
            && (std::ptr::eq(sampled.less(), &p.less) || sampled.less() == &p.less)
            && (std::ptr::eq(sampled.occ(), &occ) || sampled.occ() == &occ);
        (got, sampled.len(), sampled.is_empty(), sampled.sampling_rate(), same)
    });
    match r {
        Err(msg) => {
            cc.outcome(&"panic");
            cc.violation(format!("C03/sampled/{}/panic", p.class), format!("s={} k={}: {}", s, k, msg));
        }
        Ok((got, len, empty, rate, same)) => {
            cc.outcome(&got);
            if !same {
                cc.violation(
                    format!("C03/sampled/{}/accessor-differs", p.class),
                    format!("text {:?} s={} k={}: bwt()/less()/occ() do not return the components given to sample()", show(text), s, k),
                );
            }
            for i in 0..n {
                if got[i] != Some(p.sa[i]) {
                    cc.violation(
                        format!("C03/sampled/{}/wrong-position", p.class),
                        format!(
                            "text {:?} s={} k={}: get({}) = {:?}, full array has {} (full {:?})",
                            show(text), s, k, i, got[i], p.sa[i], p.sa
                        ),
                    );
                    return;
                }
            }
            if got[n].is_some() {
                cc.violation(
                    format!("C03/sampled/{}/out-of-range-some", p.class),
                    format!("get({}) = {:?}", n, got[n]),
                );
            }
            if len != n || empty || rate != s {
                cc.violation(
                    format!("C03/sampled/{}/len-or-rate", p.class),
                    format!("len {} (n {}), is_empty {}, sampling_rate {} (s {})", len, n, empty, rate, s),
                );
            }
        }
    }
}

fn sampled_desc(text: &[u8], pi: Pi, s: usize, k: u32) -> Value {
    json!({"kind": "sampled", "text": show(text), "pi": pi.name(), "s": s, "k": k})
}

/// every s in 1..=n+1 x k in {1,2,3,7,n,2n}
fn sampled_full_grid(ctx: &mut Ctx, text: &[u8], pi: Pi) {
    let n = text.len();
    let p = prepare(text, pi);
    let mut ks: Vec<u32> = vec![1, 2, 3, 7, n as u32, 2 * n as u32];
    ks.sort();
    ks.dedup();
    // ..., and the two largest rates (size computations from the rate must not overflow)
    for s in (1..=n + 1).chain([usize::MAX - 1, usize::MAX]) {
        for &k in &ks {
            ctx.case(|| sampled_desc(text, pi, s, k), |cc| check_sampled(text, &p, s, k, cc));
        }
    }
}

/// long texts: a grid of rates around powers of two and around n
fn sampled_sparse_grid(ctx: &mut Ctx, text: &[u8], pi: Pi, rich: bool) {
    let n = text.len();
    let p = prepare(text, pi);
    let mut ss: Vec<usize> = match rich {
        false => vec![1, 2, 3, 5, 8, 32, 33, n, n + 1],
        true => vec![1, 2, 3, 4, 5, 7, 8, 16, 31, 32, 33, 64, n / 2, n - 1, n, n + 1],
    };
    ss.retain(|&s| s >= 1);
    ss.sort();
    ss.dedup();
    let mut ks: Vec<u32> = match rich {
        false => vec![1, 3, 64, 65, 2 * n as u32],
        true => vec![1, 2, 3, 7, 64, 65, 128, n as u32, 2 * n as u32],
    };
    ks.sort();
    ks.dedup();
    for &s in &ss {
        for &k in &ks {
            ctx.case(|| sampled_desc(text, pi, s, k), |cc| check_sampled(text, &p, s, k, cc));
        }
    }
}

// ------------------------------------------------------------------------------------------------
// kind "int": suffix_array_int
// ------------------------------------------------------------------------------------------------

const INT_TYPES: [&str; 3] = ["u8", "u16", "usize"];

fn check_int(ty: &str, text: &[u64], cc: &mut CaseCtx) {
    let want = ti::naive_sa_int(text);
    let n = text.len();
    // repeated factor of length 2
    let mut pairs: Vec<(u64, u64)> = text.windows(2).map(|w| (w[0], w[1])).collect();
    pairs.sort();
    cc.set_nontrivial(n >= 3 && pairs.windows(2).any(|w| w[0] == w[1]));
    let got = guard(|| match ty {
        "u8" => suffix_array_int(&text.iter().map(|&v| v as u8).collect::<Vec<u8>>()),
        "u16" => suffix_array_int(&text.iter().map(|&v| v as u16).collect::<Vec<u16>>()),
        _ => suffix_array_int(&text.iter().map(|&v| v as usize).collect::<Vec<usize>>()),
    });
    match got {
        Err(msg) => {
            cc.outcome(&"panic");
            cc.violation(format!("C03/suffix_array_int/{}/panic", ty), msg);
        }
        Ok(sa) => {
            cc.outcome(&sa);
            if sa != want {
                cc.violation(
                    format!("C03/suffix_array_int/{}/wrong-order", ty),
                    format!("suffix_array_int({:?}) = {:?}, naive sort {:?}", text, sa, want),
                );
            }
        }
    }
}

fn int_case(ctx: &mut Ctx, ty: &'static str, text: &[u64]) {
    debug_assert!(ti::is_dense_unique_min(text));
    ctx.case(|| json!({"kind": "int", "ty": ty, "text": text}), |cc| check_int(ty, text, cc));
}

/// literal integer texts: long periodic ones (u16 reduced text), the complete u8 value range,
/// a dense alphabet larger than 256 for the wider element types
fn int_family(tier: Tier) -> Vec<(Vec<u64>, bool)> {
    // (text, fits_u8)
    let mut out: Vec<(Vec<u64>, bool)> = vec![];
    let mut words = ti::family_words(tier);
    if tier == Tier::Quick {
        words.retain(|w| w.len() <= 64 || w.len() >= 255);
    }
    for w in words {
        let mut t: Vec<u64> = w.iter().map(|&d| d as u64).collect();
        t.push(0);
        if ti::is_dense_unique_min(&t) {
            out.push((t, true));
        }
    }
    for (max, fits) in [(255u64, true), (254, true), (256, false), (300, false)] {
        let d = max as usize; // values 1..=max
        for g in [1usize, 7, d - 1] {
            let mut g = g;
            while gcd(g, d) != 1 {
                g += 1;
            }
            let mut t: Vec<u64> = (0..d).map(|i| 1 + ((i * g) % d) as u64).collect();
            let again: Vec<u64> = t.clone();
            t.extend(again);
            t.push(0);
            out.push((t, fits));
        }
    }
    out
}

fn gcd(a: usize, b: usize) -> usize {
    if b == 0 {
        a
    } else {
        gcd(b, a % b)
    }
}

// ------------------------------------------------------------------------------------------------
// units
// ------------------------------------------------------------------------------------------------

struct Bounds {
    /// {$,a,b}: SA/LCP/SUS up to this body length
    sa3: usize,
    /// {$,a,b}: sampled arrays (all s, six k) up to this body length
    samp3: usize,
    /// {$,a,b,c}
    sa4: usize,
    samp4: usize,
    /// byte-extreme embedding of the {$,a,b,c} bodies
    sa_x: usize,
    samp_x: usize,
    /// integer texts over {1,2,3} and {1,2,3,4} bodies
    int3: usize,
    int4: usize,
}

fn bounds_of(tier: Tier) -> Bounds {
    match tier {
        Tier::Quick => Bounds { sa3: 14, samp3: 11, sa4: 11, samp4: 8, sa_x: 9, samp_x: 7, int3: 12, int4: 9 },
        Tier::Thorough => Bounds { sa3: 16, samp3: 13, sa4: 13, samp4: 10, sa_x: 10, samp_x: 8, int3: 14, int4: 11 },
    }
}

const SWEEP_SHARDS: usize = 32;
const FAMILY_SHARDS: usize = 12;
const WIDE_SHARDS: usize = 2;
const INT_SHARDS: usize = 6;

fn sa_case(ctx: &mut Ctx, text: &[u8]) {
    ctx.case(|| json!({"kind": "sa", "text": show(text)}), |cc| check_text(text, cc));
}

fn sweep_unit(tier: Tier, shard: usize, ctx: &mut Ctx) {
    let b = bounds_of(tier);
    let plan: [(u8, &[u8; 4], usize, usize); 3] = [
        (3, &ti::ASCII, b.sa3, b.samp3),
        (4, &ti::ASCII, b.sa4, b.samp4),
        (4, &ti::EXTREME, b.sa_x, b.samp_x),
    ];
    for (pi_idx, (radix, emb, sa_max, samp_max)) in plan.iter().enumerate() {
        ti::for_each_body(*radix, 0, *sa_max, shard, SWEEP_SHARDS, |_, body| {
            // the quaternary ASCII sweep skips bodies without 'c' (already in the ternary sweep)
            if pi_idx == 1 && !body.contains(&3) {
                return;
            }
            if ctx.res.capped {
                return;
            }
            let text = ti::text_of_body(body, emb);
            sa_case(ctx, &text);
            if body.len() <= *samp_max {
                sampled_full_grid(ctx, &text, Pi::Desc);
                // the other sentinel order (it only matters for multi-sentinel texts)
                if body.contains(&0) && (body.len() < *samp_max || *radix == 3) {
                    sampled_full_grid(ctx, &text, Pi::Asc);
                }
            }
        });
    }
}

fn family_unit(tier: Tier, shard: usize, ctx: &mut Ctx) {
    for (i, body) in ti::family_bodies(tier, bounds_of(tier).sa3).iter().enumerate() {
        if i % FAMILY_SHARDS != shard {
            continue;
        }
        let text = ti::text_of_body(body, &ti::ASCII);
        sa_case(ctx, &text);
        let multi = body.contains(&0);
        if text.len() <= tier.pick(140, 300) {
            let rich = tier == Tier::Thorough && text.len() <= 100;
            sampled_sparse_grid(ctx, &text, Pi::Desc, rich);
            if multi && tier == Tier::Thorough {
                sampled_sparse_grid(ctx, &text, Pi::Asc, rich);
            }
        }
        if i % 7 == 0 {
            let xt = ti::text_of_body(body, &ti::EXTREME);
            sa_case(ctx, &xt);
        }
    }
}


// kind "sa-large": suffix_array on one long high-entropy text (only permutation / order are
// checked; the quadratic LCP/SUS oracles are not applicable at this size).  These texts have
// more distinct LMS substrings than fit 16 bits, i.e. they sit on the far side of the
// reduced-text integer-width switch inside SA-IS.
fn large_text(seed: u64, n: usize, alpha: u32) -> Vec<u8> {
    // fixed linear congruential generator: the text is a function of (seed, n, alpha)
    let mut x = seed.wrapping_mul(6364136223846793005).wrapping_add(1442695040888963407);
    let mut t = Vec::with_capacity(n + 1);
    for _ in 0..n {
        x = x.wrapping_mul(6364136223846793005).wrapping_add(1442695040888963407);
        if alpha >= 1000 {
            // "read collection" mode: about every second symbol is the sentinel, so that the
            // number of sentinel occurrences (each gets a rank of its own in the rank transform)
            // exceeds 2^16 although the text has only alpha-1000 letters
            if (x >> 40) & 1 == 0 {
                t.push(0);
            } else {
                t.push(1 + ((x >> 33) % (alpha - 1000) as u64) as u8);
            }
        } else {
            t.push(1 + ((x >> 33) % alpha as u64) as u8);
        }
    }
    t.push(0);
    t
}

fn check_large(seed: u64, n: usize, alpha: u32, cc: &mut CaseCtx) {
    let text = large_text(seed, n, alpha);
    cc.nontrivial();
    match guard(|| suffix_array(&text)) {
        Err(msg) => cc.violation("C03/suffix_array/large-text/panic", format!("seed {} n {} alphabet {}: {}", seed, n, alpha, msg)),
        Ok(sa) => {
            cc.outcome(&(sa.len(), sa[sa.len() / 2], sa[sa.len() - 1]));
            if let Err(d) = ti::check_sa(&text, &sa) {
                cc.violation(format!("C03/suffix_array/large-text/{}", d.symptom()), format!("seed {} n {} alphabet {}: {:?}", seed, n, alpha, d));
            }
        }
    }
}

fn large_cases(tier: Tier) -> Vec<(u64, usize, u32)> {
    let mut v = vec![(1u64, 150_000usize, 255u32), (2, 230_000, 255), (3, 400_000, 255), (4, 300_000, 64), (9, 140_000, 1002)];
    if tier == Tier::Thorough {
        v.extend([(5, 1_000_000, 255), (6, 500_000, 16), (7, 197_000, 255), (8, 210_000, 255), (10, 300_000, 1004), (11, 131_500, 1001)]);
    }
    v
}

fn wide_unit(tier: Tier, shard: usize, ctx: &mut Ctx) {
    for (i, (seed, n, alpha)) in large_cases(tier).into_iter().enumerate() {
        if i % WIDE_SHARDS == shard {
            ctx.case(|| json!({"kind": "sa-large", "seed": seed, "n": n, "alphabet": alpha}), |cc| check_large(seed, n, alpha, cc));
        }
    }
    for (i, text) in ti::wide_alphabet_texts(tier).iter().enumerate() {
        if i % WIDE_SHARDS != shard {
            continue;
        }
        sa_case(ctx, text);
        let n = text.len();
        let p = prepare(text, Pi::Desc);
        for s in [1usize, 2, 3, 16, n] {
            for k in [1u32, 3, 65, n as u32] {
                ctx.case(|| sampled_desc(text, Pi::Desc, s, k), |cc| check_sampled(text, &p, s, k, cc));
            }
        }
    }
}

fn int_unit(tier: Tier, shard: usize, ctx: &mut Ctx) {
    let b = bounds_of(tier);
    let mut text: Vec<u64> = vec![];
    for (radix, maxlen) in [(3u8, b.int3), (4u8, b.int4)] {
        ti::for_each_body(radix, 1, maxlen, shard, INT_SHARDS, |_, body| {
            // digits 0..radix stand for the values 1..=radix; dense = every value up to the max occurs
            let mx = *body.iter().max().unwrap();
            if radix == 4 && mx < 3 {
                return; // already in the radix-3 sweep
            }
            if !(0..=mx).all(|v| body.contains(&v)) {
                return;
            }
            text.clear();
            text.extend(body.iter().map(|&d| d as u64 + 1));
            text.push(0);
            for ty in INT_TYPES {
                int_case(ctx, ty, &text);
            }
        });
    }
    for (i, (t, fits_u8)) in int_family(tier).iter().enumerate() {
        if i % INT_SHARDS != shard {
            continue;
        }
        for ty in INT_TYPES {
            if ty == "u8" && !fits_u8 {
                continue;
            }
            int_case(ctx, ty, t);
        }
    }
}

// ------------------------------------------------------------------------------------------------
// unit "accessors": the sampled array with OWNED components (its own monomorphisation), all of its
// accessors, and the two empty arrays
// ------------------------------------------------------------------------------------------------

type OwnedSampled = SampledSuffixArray<BWT, Less, Occ>;

/// kind "sampled-owned": `sample()` is given clones of BWT / less / Occ by value; `get` is compared
/// with the full array at every index 0..=n+1, and every accessor with what went in.
fn check_sampled_owned(text: &[u8], p: &Prepared, s: usize, k: u32, cc: &mut CaseCtx) {
    let n = text.len();
    cc.set_nontrivial(p.nontrivial && s >= 2);
    let r = guard(|| {
        let occ = Occ::new(&p.bwt, k, &p.alphabet);
        let sampled: OwnedSampled = p.sa.sample(text, p.bwt.clone(), p.less.clone(), occ.clone(), s);
        let got: Vec<Option<usize>> = (0..n + 2).map(|i| sampled.get(i)).collect();
        let diff: Vec<&'static str> = [
            ("bwt", sampled.bwt() != &p.bwt),
            ("less", sampled.less() != &p.less),
            ("occ", sampled.occ() != &occ),
            ("sampling_rate", sampled.sampling_rate() != s),
        ]
        .iter()
        .filter(|x| x.1)
        .map(|x| x.0)
        .collect();
        (got, sampled.len(), sampled.is_empty(), diff)
    });
    match r {
        Err(msg) => {
            cc.outcome(&"panic");
            cc.violation(format!("C03/sampled-owned/{}/panic", p.class), format!("s={} k={}: {}", s, k, msg));
        }
        Ok((got, len, empty, diff)) => {
            cc.outcome(&got);
            if let Some(i) = (0..n).find(|&i| got[i] != Some(p.sa[i])) {
                cc.violation(
                    format!("C03/sampled-owned/{}/wrong-position", p.class),
                    format!("text {:?} s={} k={}: get({}) = {:?}, full array {:?}", show(text), s, k, i, got[i], p.sa),
                );
                return;
            }
            if got[n].is_some() || got[n + 1].is_some() {
                cc.violation(
                    format!("C03/sampled-owned/{}/out-of-range-some", p.class),
                    format!("text {:?} s={} k={}: get({}) = {:?}, get({}) = {:?}", show(text), s, k, n, got[n], n + 1, got[n + 1]),
                );
            }
            if len != n || empty {
                cc.violation(
                    format!("C03/sampled-owned/{}/len-or-is_empty", p.class),
                    format!("text {:?} s={} k={}: len() = {} (n = {}), is_empty() = {}", show(text), s, k, len, n, empty),
                );
            }
            if !diff.is_empty() {
                cc.violation(
                    format!("C03/sampled-owned/{}/accessor-differs", p.class),
                    format!("text {:?} s={} k={}: {:?} differ(s) from what was passed to sample()", show(text), s, k, diff),
                );
            }
        }
    }
}

/// kind "empty-arrays": a suffix array without rows (empty vector; `Default` sampled array) is
/// empty, has length 0 and answers None at every index.
fn check_empty_arrays(cc: &mut CaseCtx) {
    let raw: RawSuffixArray = Vec::new();
    check_raw_trait(&raw, cc);
    let r = guard(|| {
        let d: OwnedSampled = Default::default();
        (d.len(), d.is_empty(), d.get(0), d.get(1), d.bwt().len())
    });
    match r {
        Err(msg) => cc.violation("C03/sampled-default/panic", msg),
        Ok((len, empty, g0, g1, bwt_len)) => {
            cc.outcome(&(len, empty, g0, g1));
            if bwt_len == 0 && (len != 0 || !empty) {
                cc.violation(
                    "C03/sampled-default/len-or-is_empty",
                    format!("array over an empty BWT: len() = {}, is_empty() = {}", len, empty),
                );
            }
            if empty != (len == 0) {
                cc.violation("C03/sampled-default/len-or-is_empty", format!("len() = {}, is_empty() = {}", len, empty));
            }
            if len == 0 && (g0.is_some() || g1.is_some()) {
                cc.violation("C03/sampled-default/out-of-range-some", format!("get(0) = {:?}, get(1) = {:?}", g0, g1));
            }
        }
    }
}

fn accessors_unit(tier: Tier, ctx: &mut Ctx) {
    ctx.case(|| json!({"kind": "empty-arrays"}), check_empty_arrays);
    let maxlen = tier.pick(6, 8);
    ti::for_each_body(3, 0, maxlen, 0, 1, |_, body| {
        if ctx.res.capped {
            return;
        }
        let text = ti::text_of_body(body, &ti::ASCII);
        let n = text.len();
        for pi in [Pi::Desc, Pi::Asc] {
            if pi == Pi::Asc && !body.contains(&0) {
                continue;
            }
            let p = prepare(&text, pi);
            for s in 1..=n + 1 {
                for k in [1u32, 3] {
                    ctx.case(
                        || json!({"kind": "sampled-owned", "text": show(&text), "pi": pi.name(), "s": s, "k": k}),
                        |cc| check_sampled_owned(&text, &p, s, k, cc),
                    );
                }
            }
        }
    });
}

impl Prop for C03Prop {
    fn id(&self) -> &'static str {
        "C03"
    }
    fn level(&self) -> &'static str {
        "exploration"
    }
    fn rule(&self) -> &'static str {
        "Complete sweep of texts body.$ (body over {$,a,b} and {$,a,b,c}, every length up to the bound, ASCII and byte-extreme embedding), plus repetitive families (cuts of u^r, Fibonacci, Thue-Morse, >255 LMS substrings) in six sentinel layouts (w$, w$w$, w$rev(w)$, w$w$w$, w cut in the middle, w$$w$), plus texts whose alphabet size + sentinel count straddles 255, plus every dense integer text over {1..3}/{1..4} for u8/u16/usize. Case kinds: sa = one text (suffix_array checked as 'permutation, final sentinel first, strictly sorted under the comparison whose sentinel order is read off the array itself'; lcp/decompress/get and shortest_unique_substrings when the text has one sentinel and n>=2); sampled = one (text, oracle SA under sentinel order pi, sampling rate s, Occ rate k) with get(i) compared for every i in 0..=n; int = one (element type, integer text). Non-trivial: sa/sampled: the text has a factor of length 2 occurring twice or at least two sentinels (sampled additionally s>=2 and n>=3); int: a length-2 factor occurs twice. Extra counters report how many long texts force SA-IS recursion (depth>=1, >=2) by an independent LMS-substring computation. Entry points: every sa case also reads the returned vector back through the SuffixArray trait (get at 0..=n+1, len, is_empty); every sampled case also compares bwt()/less()/occ()/sampling_rate()/len()/is_empty() with what was passed to sample(); the unit 'accessors' repeats the sampled case with components passed BY VALUE (sampled-owned: every text over {$,a,b} up to a small length, every s in 1..=n+1, k in {1,3}, get at 0..=n+1) and checks the two empty arrays (empty vector, Default sampled array: is_empty, len 0, get = None)."
    }
    fn assumptions(&self) -> Vec<&'static str> {
        vec![
            "oracle: naive suffix sort on comparison keys, naive LCE, substring counting (all-pairs LCE table for texts longer than 12)",
            "any fixed total order among sentinel occurrences is accepted: the order is derived from the returned array and only consistency is demanded",
            "texts satisfy the precondition (last symbol is the smallest symbol); integer texts are dense and end in a unique 0",
            "sampled arrays are built from the oracle's full array (both sentinel orders), BWT and less computed by definition and the subject's Occ, so only sample()/get()/Occ can cause a discrepancy",
            "LCP/SUS are only demanded for single-sentinel texts of length >= 2",
            "accessors: get(i) is None for i >= len(), is_empty() <=> len() == 0, bwt()/less()/occ()/sampling_rate() return values equal to the arguments of sample()",
        ]
    }
    fn bounds(&self, tier: Tier) -> Value {
        let b = bounds_of(tier);
        json!({
            "ternary {$,a,b}": {"sa_lcp_sus_body_len": format!("0..={}", b.sa3), "sampled_body_len": format!("0..={}", b.samp3)},
            "quaternary {$,a,b,c}": {"sa_lcp_sus_body_len": format!("0..={}", b.sa4), "sampled_body_len": format!("0..={}", b.samp4)},
            "byte-extreme {00,01,ff,80}": {"sa_lcp_sus_body_len": format!("0..={}", b.sa_x), "sampled_body_len": format!("0..={}", b.samp_x)},
            "sampled_grid_small": "s in 1..=n+1 and usize::MAX-1, usize::MAX; k in {1,2,3,7,n,2n}; oracle array under sentinel order desc for every body length, asc for multi-sentinel bodies (quaternary sweeps: only bodies one symbol shorter than the bound)",
            "families": {"texts": ti::family_bodies(tier, b.sa3).len(), "max_len": ti::family_bodies(tier, b.sa3).iter().map(|b| b.len() + 1).max(),
                         "sampled": tier.pick("n<=140: s in {1,2,3,5,8,32,33,n,n+1} x k in {1,3,64,65,2n}, sentinel order desc", "n<=100: s in {1,2,3,4,5,7,8,16,31,32,33,64,n/2,n-1,n,n+1} x k in {1,2,3,7,64,65,128,n,2n}; 100<n<=300: s in {1,2,3,5,8,32,33,n,n+1} x k in {1,3,64,65,2n}; both sentinel orders")},
            "large_texts": "fixed pseudo-random texts (LCG) of 150k-400k (thorough: up to 1M) symbols over 16/64/255-symbol alphabets: more than 2^16 distinct LMS substrings; plus 'read collection' texts in which about every second symbol is the sentinel (more than 2^16 sentinel occurrences, i.e. rank alphabet beyond u16); suffix array checked for permutation and order only", "wide_alphabet": {"texts": ti::wide_alphabet_texts(tier).len(), "alphabet_plus_sentinels": "253..=258 and 256+{1,2,3,5}", "sampled": "s in {1,2,3,16,n} x k in {1,3,65,n}"},
            "accessors": {"sampled_owned_body_len {$,a,b}": format!("0..={}", tier.pick(6, 8)), "s": "1..=n+1", "k": "1,3", "sentinel_orders": "desc, and asc for multi-sentinel texts", "empty_arrays": "Vec::new(), SampledSuffixArray::default()"},
            "integer": {"types": "u8,u16,usize", "dense {1,2,3}^len.0": format!("1..={}", b.int3), "dense {1,2,3,4}^len.0": format!("1..={}", b.int4),
                        "families": "family words over {1,2}, value ranges 0..=254/255/256/300 as two stride permutations"}
        })
    }
    fn units(&self, _tier: Tier) -> Vec<String> {
        let mut v: Vec<String> = (0..SWEEP_SHARDS).map(|i| format!("sweep-{}", i)).collect();
        v.extend((0..FAMILY_SHARDS).map(|i| format!("families-{}", i)));
        v.extend((0..WIDE_SHARDS).map(|i| format!("wide-{}", i)));
        v.extend((0..INT_SHARDS).map(|i| format!("int-{}", i)));
        v.push("accessors".into());
        v
    }
    fn run_unit(&self, tier: Tier, unit: usize, ctx: &mut Ctx) {
        let mut u = unit;
        if u < SWEEP_SHARDS {
            return sweep_unit(tier, u, ctx);
        }
        u -= SWEEP_SHARDS;
        if u < FAMILY_SHARDS {
            return family_unit(tier, u, ctx);
        }
        u -= FAMILY_SHARDS;
        if u < WIDE_SHARDS {
            return wide_unit(tier, u, ctx);
        }
        u -= WIDE_SHARDS;
        if u < INT_SHARDS {
            return int_unit(tier, u, ctx);
        }
        accessors_unit(tier, ctx);
    }
    fn death_key(&self, case: &Value, how: &str) -> String {
        // a hang / abort of the subject on one case: name the entry point
        let entry = match case["kind"].as_str().unwrap_or("") {
            "sa" | "sa-large" => "suffix_array",
            "sampled" => "sampled",
            "sampled-owned" => "sampled-owned",
            "empty-arrays" => "empty-arrays",
            "int" => "suffix_array_int",
            _ => "unknown",
        };
        format!("{}/no-return/{}", entry, how)
    }
    fn replay(&self, case: &Value, ctx: &mut Ctx) {
        match case["kind"].as_str().unwrap_or("") {
            "sa-large" => {
                let seed = case["seed"].as_u64().unwrap_or(1);
                let n = case["n"].as_u64().unwrap_or(1000) as usize;
                let alpha = case["alphabet"].as_u64().unwrap_or(255) as u32;
                ctx.case(|| case.clone(), |cc| check_large(seed, n, alpha, cc));
            }
            "sa" => {
                let text = unshow(case["text"].as_str().unwrap_or(""));
                if !ti::is_valid_text(&text) {
                    return; // outside the precondition (hand-edited replay file)
                }
                ctx.case(|| case.clone(), |cc| check_text(&text, cc));
            }
            "sampled" => {
                let text = unshow(case["text"].as_str().unwrap_or(""));
                let pi = Pi::parse(case["pi"].as_str().unwrap_or("desc"));
                let s = case["s"].as_u64().unwrap_or(1) as usize;
                let k = case["k"].as_u64().unwrap_or(1) as u32;
                if !ti::is_valid_text(&text) || s == 0 || k == 0 {
                    return;
                }
                let p = prepare(&text, pi);
                ctx.case(|| case.clone(), |cc| check_sampled(&text, &p, s, k, cc));
            }
            "empty-arrays" => ctx.case(|| case.clone(), check_empty_arrays),
            "sampled-owned" => {
                let text = unshow(case["text"].as_str().unwrap_or(""));
                let pi = Pi::parse(case["pi"].as_str().unwrap_or("desc"));
                let s = case["s"].as_u64().unwrap_or(1) as usize;
                let k = case["k"].as_u64().unwrap_or(1) as u32;
                if !ti::is_valid_text(&text) || s == 0 || k == 0 {
                    return;
                }
                let p = prepare(&text, pi);
                ctx.case(|| case.clone(), |cc| check_sampled_owned(&text, &p, s, k, cc));
            }
            "int" => {
                let text: Vec<u64> = serde_json::from_value(case["text"].clone()).unwrap_or_default();
                let ty = INT_TYPES
                    .iter()
                    .copied()
                    .find(|t| Some(*t) == case["ty"].as_str())
                    .unwrap_or("usize");
                ctx.case(|| case.clone(), |cc| check_int(ty, &text, cc));
            }
            _ => {}
        }
    }
}
