//! C02 — banded::Aligner: terminates, valid path, recomputed = reported <= unbanded optimum,
//! = optimum on a full band, cell budget respected.
//! K1 sweep over (x, y) × scoring grid × (k, w) × every entry point on aligner objects that are
//! reused across the sweep (clip penalties changed through get_mut_scoring); inputs with an empty
//! sequence run in forked children because the subject may never return on them.

use super::c01::{check_alignment, clip_quadruple, Mode};
use super::Prop;
use crate::ctx::{guard, show, unshow, CaseCtx, Ctx, Tier};
use crate::fork::{run_forked, ForkOutcome};
use crate::gen;
use crate::oracles::align::{ops_string, RangeTable, Scheme, Subst};
use bio::alignment::pairwise::{banded, Scoring, MIN_SCORE};
use bio::alignment::sparse;
use bio::alignment::Alignment;
use serde::{Deserialize, Serialize};
use serde_json::{json, Value};
use std::time::Duration;

pub struct C02Prop;
pub static C02: C02Prop = C02Prop;

#[derive(Clone, Debug, PartialEq, Eq, Serialize, Deserialize)]
pub enum Entry {
    Custom,
    Prehash,
    /// custom_with_matches(subset of the true k-mer match list)
    Matches(Vec<(u32, u32)>),
    /// custom_with_expanded_matches(true list, allowed_mismatches, use_lcskpp_union)
    Expanded(Option<usize>, bool),
    /// custom_with_match_path(true list, chain of indices)
    MatchPath(Vec<usize>),
    Global,
    Semiglobal,
    SemiglobalPrehash,
    Local,
}

impl Entry {
    fn name(&self) -> &'static str {
        match self {
            Entry::Custom => "custom",
            Entry::Prehash => "custom_with_prehash",
            Entry::Matches(_) => "custom_with_matches",
            Entry::Expanded(..) => "custom_with_expanded_matches",
            Entry::MatchPath(_) => "custom_with_match_path",
            Entry::Global => "global",
            Entry::Semiglobal => "semiglobal",
            Entry::SemiglobalPrehash => "semiglobal_with_prehash",
            Entry::Local => "local",
        }
    }
    fn mode(&self) -> Mode {
        match self {
            Entry::Global => Mode::Global,
            Entry::Semiglobal | Entry::SemiglobalPrehash => Mode::Semiglobal,
            Entry::Local => Mode::Local,
            _ => Mode::Custom,
        }
    }
}

type BandedAligner<F> = banded::Aligner<F>;

fn scoring_of(s: &Scheme) -> Scoring<impl Fn(u8, u8) -> i32 + Clone> {
    let sub = s.subst;
    Scoring {
        gap_open: s.gap_open,
        gap_extend: s.gap_extend,
        match_fn: move |a: u8, b: u8| sub.score(a, b),
        match_scores: sub.match_scores(),
        xclip_prefix: s.xclip_prefix,
        xclip_suffix: s.xclip_suffix,
        yclip_prefix: s.yclip_prefix,
        yclip_suffix: s.yclip_suffix,
    }
}

fn new_aligner(s: &Scheme, k: usize, w: usize, ctor: usize) -> BandedAligner<impl Fn(u8, u8) -> i32 + Clone> {
    match ctor % 3 {
        0 => banded::Aligner::with_scoring(scoring_of(s), k, w),
        1 => banded::Aligner::with_capacity_and_scoring(0, 0, scoring_of(s), k, w),
        _ => banded::Aligner::with_capacity_and_scoring(5, 2, scoring_of(s), k, w),
    }
}

fn set_clips<F: bio::alignment::pairwise::MatchFunc>(a: &mut BandedAligner<F>, c: [i32; 4]) {
    let sc = a.get_mut_scoring();
    sc.xclip_prefix = c[0];
    sc.xclip_suffix = c[1];
    sc.yclip_prefix = c[2];
    sc.yclip_suffix = c[3];
}

pub fn true_matches(x: &[u8], y: &[u8], k: usize) -> Vec<(u32, u32)> {
    let mut v = vec![];
    if k == 0 || x.len() < k || y.len() < k {
        return v;
    }
    for i in 0..=x.len() - k {
        for j in 0..=y.len() - k {
            if x[i..i + k] == y[j..j + k] {
                v.push((i as u32, j as u32));
            }
        }
    }
    v
}

fn call_entry<F: bio::alignment::pairwise::MatchFunc>(
    a: &mut BandedAligner<F>,
    e: &Entry,
    x: &[u8],
    y: &[u8],
    k: usize,
    matches: &[(u32, u32)],
) -> Alignment {
    match e {
        Entry::Custom => a.custom(x, y),
        Entry::Prehash => {
            let h = sparse::hash_kmers(y, k);
            a.custom_with_prehash(x, y, &h)
        }
        Entry::Matches(sub) => a.custom_with_matches(x, y, sub),
        Entry::Expanded(allowed, union) => {
            a.custom_with_expanded_matches(x, y, matches.to_vec(), *allowed, *union)
        }
        Entry::MatchPath(path) => a.custom_with_match_path(x, y, matches, path),
        Entry::Global => a.global(x, y),
        Entry::Semiglobal => a.semiglobal(x, y),
        Entry::SemiglobalPrehash => {
            let h = sparse::hash_kmers(y, k);
            a.semiglobal_with_prehash(x, y, &h)
        }
        Entry::Local => a.local(x, y),
    }
}

/// is the band guaranteed to cover the whole matrix for this entry?
fn full_band(e: &Entry, matches: &[(u32, u32)]) -> bool {
    match e {
        Entry::Matches(sub) => sub.is_empty(),
        _ => matches.is_empty(),
    }
}

fn valid_chain(ms: &[(u32, u32)], path: &[usize], k: usize) -> bool {
    path.windows(2).all(|w| {
        let (p, c) = (ms[w[0]], ms[w[1]]);
        w[0] < w[1]
            && ((c.0 == p.0 + 1 && c.1 == p.1 + 1) || (c.0 >= p.0 + k as u32 && c.1 >= p.1 + k as u32))
    })
}

fn match_subsets(ms: &[(u32, u32)], tier: Tier) -> Vec<Vec<(u32, u32)>> {
    let n = ms.len();
    let limit = tier.pick(4, 6);
    let mut out: Vec<Vec<(u32, u32)>> = vec![];
    if n <= limit {
        for mask in 0u32..(1 << n) {
            out.push((0..n).filter(|i| mask >> i & 1 == 1).map(|i| ms[i]).collect());
        }
    } else {
        out.push(vec![]);
        out.push(ms.to_vec());
        for i in 0..n {
            out.push(vec![ms[i]]);
        }
        out.push(ms[1..].to_vec());
        out.push(ms[..n - 1].to_vec());
        out.push(ms.iter().step_by(2).cloned().collect());
        out.push(ms.iter().skip(1).step_by(2).cloned().collect());
    }
    out
}

fn match_paths(ms: &[(u32, u32)], k: usize, tier: Tier) -> Vec<Vec<usize>> {
    let n = ms.len();
    let mut out: Vec<Vec<usize>> = vec![];
    if n == 0 {
        return out;
    }
    let limit = tier.pick(5, 7);
    if n <= limit {
        for mask in 1u32..(1 << n) {
            if mask.count_ones() > 3 {
                continue;
            }
            let p: Vec<usize> = (0..n).filter(|i| mask >> i & 1 == 1).collect();
            if valid_chain(ms, &p, k) {
                out.push(p);
            }
        }
    } else {
        for i in 0..n {
            out.push(vec![i]);
        }
    }
    if let Ok(r) = guard(|| sparse::lcskpp(ms, k)) {
        if !r.path.is_empty() && !out.contains(&r.path) {
            out.push(r.path);
        }
    }
    out
}

fn entries_for(matches: &[(u32, u32)], k: usize, clip_idx: usize, tier: Tier) -> Vec<Entry> {
    // custom: all 256 clip quadruples; the other clip-sensitive entry points on a sub-grid
    let mut v = vec![Entry::Custom];
    if clip_idx % tier.pick(3, 2) == 0 {
        v.push(Entry::Prehash);
        for allowed in [None, Some(0), Some(1)] {
            for union in [false, true] {
                v.push(Entry::Expanded(allowed, union));
            }
        }
    }
    if clip_idx % 9 == 0 {
        for s in match_subsets(matches, tier) {
            v.push(Entry::Matches(s));
        }
        for p in match_paths(matches, k, tier) {
            v.push(Entry::MatchPath(p));
        }
    }
    if clip_idx % 37 == 0 {
        v.extend([Entry::Global, Entry::Semiglobal, Entry::SemiglobalPrehash, Entry::Local]);
    }
    v
}

#[derive(Clone, Debug, Serialize, Deserialize)]
struct Cfg {
    alpha: String,
    maxlen: usize,
    subst_kind: u8,
    gap_open: i32,
    gap_extend: i32,
    k: usize,
    w: usize,
    clip_stride: usize, // 1 = all 256 clip quadruples
    /// 0: every pair of strings of length 1..=maxlen over `alpha`;
    /// 1: "long-binary" — every pair of binary strings of length maxlen-1..=maxlen;
    /// 2: "blocks" — two 3-/4-mer anchors with varying junk before, between and after them
    #[serde(default)]
    family: u8,
}

fn cfgs(tier: Tier) -> Vec<Cfg> {
    let mut v = vec![];
    let (maxlen, kmax, wmax) = tier.pick((3, 3, 2), (4, 4, 3));
    let gaps: Vec<(i32, i32)> = tier.pick(
        vec![(0, -1), (-2, -1), (-2, 0)],
        vec![(0, 0), (0, -1), (-2, 0), (-2, -1), (-3, 0), (-3, -1)],
    );
    for kind in [0u8, 1, 3] {
        for &(go, ge) in &gaps {
            for k in 1..=kmax {
                for w in 0..=wmax {
                    v.push(Cfg { alpha: "ab".into(), maxlen, subst_kind: kind, gap_open: go, gap_extend: ge, k, w, clip_stride: 1, family: 0 });
                }
            }
        }
    }
    // ternary alphabet, fewer schemes
    for go in [0, -2] {
        for k in 1..=2 {
            for w in 0..=1 {
                v.push(Cfg { alpha: "abc".into(), maxlen: tier.pick(2, 3), subst_kind: 1, gap_open: go, gap_extend: -1, k, w, clip_stride: tier.pick(3, 1), family: 0 });
            }
        }
    }
    v
}

/// Configurations of the two families of longer inputs (appended after the short sweeps and the
/// empty/budget units so that existing unit indices keep their meaning).
fn long_cfgs(tier: Tier) -> Vec<Cfg> {
    let mut v = vec![];
    let schemes: Vec<(u8, i32, i32)> = tier.pick(vec![(0, -2, -1), (1, 0, -1)], vec![(0, -2, -1), (1, 0, -1), (3, -3, 0), (0, 0, 0)]);
    for &(kind, go, ge) in &schemes {
        // long-binary: dense k-mer matches, bands with many overlapping diagonals
        for (k, w) in tier.pick(vec![(2, 0), (3, 0), (3, 1), (4, 1)], vec![(2, 0), (2, 1), (3, 0), (3, 1), (3, 2), (4, 0), (4, 1), (5, 1)]) {
            v.push(Cfg { alpha: "ab".into(), maxlen: tier.pick(5, 6), subst_kind: kind, gap_open: go, gap_extend: ge, k, w, clip_stride: 0, family: 1 });
        }
        // blocks: sparse matches, bands that start/end inside the matrix, gaps between anchors
        for (k, w) in tier.pick(vec![(2, 0), (3, 0), (3, 1), (3, 2)], vec![(2, 0), (2, 1), (3, 0), (3, 1), (3, 2), (3, 3), (4, 0), (4, 2)]) {
            v.push(Cfg { alpha: "acgt".into(), maxlen: tier.pick(3, 4), subst_kind: kind, gap_open: go, gap_extend: ge, k, w, clip_stride: 0, family: 2 });
        }
    }
    v
}

/// clip quadruple indices used by the long families: {MIN_SCORE,0}^4 and eight mixed settings
fn long_clip_idxs() -> Vec<usize> {
    let mut v = vec![];
    for a in 0..2 {
        for b in 0..2 {
            for c in 0..2 {
                for d in 0..2 {
                    v.push(64 * a + 16 * b + 4 * c + d);
                }
            }
        }
    }
    v.extend([147, 201, 108, 54, 165, 90, 215, 125]);
    v
}

fn cat(parts: &[&[u8]]) -> Vec<u8> {
    parts.iter().flat_map(|p| p.iter().cloned()).collect()
}

/// input pairs of a configuration
fn pairs_of(cfg: &Cfg) -> Vec<(Vec<u8>, Vec<u8>)> {
    match cfg.family {
        1 => {
            let strs = gen::strings(b"ab", cfg.maxlen - 1, cfg.maxlen);
            let mut v = vec![];
            for x in &strs {
                for y in &strs {
                    v.push((x.clone(), y.clone()));
                }
            }
            v
        }
        2 => {
            // x = px P mx Q sx ; y built from the same anchors in four arrangements with its own junk
            let (p, q): (&[u8], &[u8]) = (b"acgt", b"tgca");
            // cfg.maxlen = number of junk variants (3 quick, 4 thorough); kept in the configuration
            // so that a replay rebuilds the same family
            let xj: Vec<&[u8]> = [b"" as &[u8], b"g", b"cc", b"tat"][..cfg.maxlen.min(4)].to_vec();
            let yj: Vec<&[u8]> = [b"" as &[u8], b"a", b"tt", b"cgc"][..cfg.maxlen.min(4)].to_vec();
            let mut xs: Vec<Vec<u8>> = vec![];
            for px in &xj {
                for mx in &xj {
                    for sx in &xj {
                        xs.push(cat(&[px, p, mx, q, sx]));
                    }
                }
            }
            let mut ys: Vec<Vec<u8>> = vec![];
            for py in &yj {
                for my in &yj {
                    for sy in &yj {
                        ys.push(cat(&[py, p, my, q, sy])); // both anchors, same order
                        ys.push(cat(&[py, q, my, p, sy])); // both anchors, swapped (not chainable)
                    }
                    ys.push(cat(&[py, p, my])); // first anchor only: band ends inside the matrix
                    ys.push(cat(&[py, q, my])); // second anchor only: band starts inside the matrix
                    ys.push(cat(&[py, &p[..3], my, &q[1..]])); // truncated anchors
                }
            }
            ys.sort();
            ys.dedup();
            let mut v = vec![];
            for x in &xs {
                for y in &ys {
                    v.push((x.clone(), y.clone()));
                }
            }
            v
        }
        _ => {
            let strs = gen::strings(cfg.alpha.as_bytes(), 1, cfg.maxlen); // non-empty; empties: forked units
            let mut v = vec![];
            for x in &strs {
                for y in &strs {
                    v.push((x.clone(), y.clone()));
                }
            }
            v
        }
    }
}

fn clip_idxs_of(cfg: &Cfg) -> Vec<usize> {
    if cfg.family == 0 {
        (0..256).step_by(cfg.clip_stride).collect()
    } else {
        long_clip_idxs()
    }
}

/// entry points of the long families: the four backbone routes on every clip setting, the
/// explicit-list routes and the standard modes on the all-forbidden and all-free settings
fn long_entries_for(matches: &[(u32, u32)], k: usize, clip_idx: usize, tier: Tier) -> Vec<Entry> {
    let mut v = vec![Entry::Custom, Entry::Prehash, Entry::Expanded(None, false), Entry::Expanded(Some(1), true)];
    if clip_idx == 0 || clip_idx == 85 || clip_idx == 147 {
        v.push(Entry::Expanded(Some(0), true));
        v.push(Entry::Expanded(None, true));
        for s in match_subsets(matches, tier) {
            v.push(Entry::Matches(s));
        }
        for p in match_paths(matches, k, tier) {
            v.push(Entry::MatchPath(p));
        }
        v.extend([Entry::Global, Entry::Semiglobal, Entry::SemiglobalPrehash, Entry::Local]);
    }
    v
}

fn base_scheme(c: &Cfg) -> Scheme {
    Scheme {
        subst: Subst { kind: c.subst_kind, emb: [b'a', b'b', b'c'] },
        gap_open: c.gap_open,
        gap_extend: c.gap_extend,
        xclip_prefix: MIN_SCORE,
        xclip_suffix: MIN_SCORE,
        yclip_prefix: MIN_SCORE,
        yclip_suffix: MIN_SCORE,
    }
}

fn desc(scheme: &Scheme, k: usize, w: usize, e: &Entry, x: &[u8], y: &[u8]) -> Value {
    json!({"kind": "call", "scheme": scheme, "k": k, "w": w, "entry": e, "x": show(x), "y": show(y)})
}

/// oracle checks for one returned alignment; reports under C02 keys. Returns true when fine.
fn check_banded(
    al: &Alignment,
    x: &[u8],
    y: &[u8],
    scheme: &Scheme,
    e: &Entry,
    table: &RangeTable,
    matches: &[(u32, u32)],
    cc: &mut CaseCtx,
) -> bool {
    let mode = e.mode();
    let opt = table.optimum(mode.clips().unwrap_or(scheme.clips()));
    let full = full_band(e, matches);
    match check_alignment(al, x, y, scheme, mode, opt, full, true, cc) {
        Ok(()) => true,
        Err((symptom, detail)) => {
            // the split-run shape is one root cause whatever the entry point; everything else is
            // keyed by entry point
            let key = if symptom.starts_with("ins-run-split-at-yclip") || symptom.starts_with("del-run-split-at-xclip") || symptom.starts_with("zero-length-clip-in-path") {
                format!("C02/{}", symptom)
            } else if symptom == "suboptimal" {
                format!("C02/{}/full-band-suboptimal", e.name())
            } else {
                format!("C02/{}/{}", e.name(), symptom)
            };
            cc.violation(key, detail);
            false
        }
    }
}

fn sweep(cfg: &Cfg, cfg_idx: usize, tier: Tier, ctx: &mut Ctx, only_until: Option<usize>) {
    let base = base_scheme(cfg);
    let (k, w) = (cfg.k, cfg.w);
    let pairs = pairs_of(cfg);
    let clip_idxs = clip_idxs_of(cfg);
    let mut aligner = new_aligner(&base, k, w, cfg_idx);
    let mut call_no = 0usize;
    {
        for (x, y) in &pairs {
            let table = RangeTable::new(x, y, &base.subst, base.gap_open, base.gap_extend);
            let matches = true_matches(x, y, k);
            for &ci in &clip_idxs {
                let clips = clip_quadruple(ci);
                let scheme = base.with_clips(clips);
                set_clips(&mut aligner, clips);
                let mut first_custom: Option<Alignment> = None;
                let entries = if cfg.family == 0 { entries_for(&matches, k, ci, tier) } else { long_entries_for(&matches, k, ci, tier) };
                for e in entries {
                    call_no += 1;
                    if let Some(lim) = only_until {
                        if call_no > lim {
                            return;
                        }
                    }
                    let mut rebuild = false;
                    let hist = json!({"kind": "sweep-history", "cfg": cfg, "cfg_idx": cfg_idx, "calls": call_no});
                    ctx.case(
                        || desc(&scheme, k, w, &e, x, y),
                        |cc| match guard(|| call_entry(&mut aligner, &e, x, y, k, &matches)) {
                            Err(msg) => {
                                cc.violation(format!("C02/{}/panic", e.name()), msg);
                                rebuild = true;
                            }
                            Ok(al) => {
                                let ok = check_banded(&al, x, y, &scheme, &e, &table, &matches, cc);
                                if !ok {
                                    // is it the history of this object, or the call itself?
                                    let fresh = guard(|| call_entry(&mut new_aligner(&scheme, k, w, 0), &e, x, y, k, &matches));
                                    if fresh.as_ref().ok() != Some(&al) {
                                        cc.violation_with_case(
                                            format!("C02/{}/wrong-only-after-history", e.name()),
                                            format!("reused object: {} ; fresh object: {:?}", ops_string(&al), fresh.as_ref().map(ops_string)),
                                            hist.clone(),
                                        );
                                    }
                                }
                                if e == Entry::Custom {
                                    first_custom = Some(al);
                                }
                            }
                        },
                    );
                    if rebuild {
                        aligner = new_aligner(&scheme, k, w, cfg_idx);
                    }
                    // a standard mode must leave the clip penalties as they were
                    if matches!(e, Entry::Global | Entry::Semiglobal | Entry::SemiglobalPrehash | Entry::Local) {
                        call_no += 1;
                        ctx.case(
                            || json!({"kind": "custom-after-mode", "scheme": scheme, "k": k, "w": w, "entry": e, "x": show(x), "y": show(y)}),
                            |cc| {
                                cc.nontrivial();
                                let again = guard(|| aligner.custom(x, y));
                                cc.outcome(&again.as_ref().map(|a| a.score).ok());
                                if again.as_ref().ok() != first_custom.as_ref() {
                                    cc.violation(
                                        format!("C02/{}/clips-not-restored", e.name()),
                                        format!("custom before: {:?} after: {:?}", first_custom.as_ref().map(ops_string), again.as_ref().map(ops_string)),
                                    );
                                }
                            },
                        );
                    }
                }
            }
            if ctx.res.capped {
                return;
            }
        }
    }
}

// ------------------------------------------------------------------ empty sequences (forked)

#[derive(Serialize, Deserialize)]
struct ChildReport {
    violations: Vec<(String, String)>,
    outcome: u64,
}

fn run_single(scheme: &Scheme, k: usize, w: usize, e: &Entry, x: &[u8], y: &[u8], cc: &mut CaseCtx) {
    let table = RangeTable::new(x, y, &scheme.subst, scheme.gap_open, scheme.gap_extend);
    let matches = true_matches(x, y, k);
    match guard(|| call_entry(&mut new_aligner(scheme, k, w, 0), e, x, y, k, &matches)) {
        Err(msg) => cc.violation(format!("C02/{}/panic", e.name()), msg),
        Ok(al) => {
            check_banded(&al, x, y, scheme, e, &table, &matches, cc);
        }
    }
}

fn vsz_bytes() -> u64 {
    std::fs::read_to_string("/proc/self/statm")
        .ok()
        .and_then(|s| s.split_whitespace().next().and_then(|v| v.parse::<u64>().ok()))
        .map(|p| p * 4096)
        .unwrap_or(1 << 30)
}

/// one case in a forked child; death of the child = "did not return"
fn forked_case(ctx: &mut Ctx, scheme: &Scheme, k: usize, w: usize, e: &Entry, x: &[u8], y: &[u8]) {
    let class = if x.is_empty() && y.is_empty() {
        "both-empty"
    } else if x.is_empty() {
        "x-empty"
    } else if y.is_empty() {
        "y-empty"
    } else {
        "non-empty"
    };
    ctx.case(
        || desc(scheme, k, w, e, x, y),
        |cc| {
            cc.nontrivial();
            let mem = vsz_bytes() + (24 << 20);
            let out: ForkOutcome<ChildReport> = run_forked(
                || {
                    // re-use the in-process checker inside the child and ship its verdicts
                    let mut viol: Vec<(String, String)> = vec![];
                    let table = RangeTable::new(x, y, &scheme.subst, scheme.gap_open, scheme.gap_extend);
                    let matches = true_matches(x, y, k);
                    let mut outcome = 0u64;
                    match guard(|| call_entry(&mut new_aligner(scheme, k, w, 0), e, x, y, k, &matches)) {
                        Err(msg) => viol.push((format!("C02/{}/panic", e.name()), msg)),
                        Ok(al) => {
                            outcome = crate::ctx::hash_of(&(al.score, &al.operations));
                            let mode = e.mode();
                            let opt = table.optimum(mode.clips().unwrap_or(scheme.clips()));
                            // a scratch CaseCtx is not constructible here; use the pure checker
                            if let Err((symptom, detail)) = crate::props::c02::pure_check(&al, x, y, scheme, mode, opt, full_band(e, &matches)) {
                                viol.push((symptom, detail));
                            }
                        }
                    }
                    ChildReport { violations: viol, outcome }
                },
                mem,
                Duration::from_secs(10),
            );
            match out {
                ForkOutcome::Done(r) => {
                    cc.outcome(&r.outcome);
                    for (symptom, detail) in r.violations {
                        let key = if symptom.starts_with("C02/") {
                            symptom
                        } else if symptom.starts_with("ins-run-split-at-yclip") || symptom.starts_with("del-run-split-at-xclip") || symptom.starts_with("zero-length-clip-in-path") {
                            format!("C02/{}", symptom)
                        } else {
                            format!("C02/empty-sequence/{}/{}", class, symptom)
                        };
                        cc.violation(key, detail);
                    }
                }
                ForkOutcome::Timeout => {
                    cc.outcome(&"timeout");
                    cc.violation(format!("C02/empty-sequence/{}/no-return", class), "child did not return within 10 s".to_string())
                }
                ForkOutcome::Signal(sig) => {
                    cc.outcome(&("signal", sig));
                    cc.violation(
                        format!("C02/empty-sequence/{}/no-return", class),
                        format!("child killed by signal {} (SIGABRT=6: allocation failed under the address-space cap while the subject kept allocating)", sig),
                    )
                }
                ForkOutcome::Exit(c) => cc.violation(format!("C02/empty-sequence/{}/child-exit", class), format!("child exit code {}", c)),
                ForkOutcome::Machinery(m) => panic!("fork machinery failed: {}", m),
            }
        },
    );
}

/// the checker without a CaseCtx (used inside forked children)
pub fn pure_check(
    al: &Alignment,
    x: &[u8],
    y: &[u8],
    scheme: &Scheme,
    mode: Mode,
    opt: i64,
    must_be_optimal: bool,
) -> Result<(), (String, String)> {
    // CaseCtx only collects non-triviality/outcome in check_alignment; replicate via a throwaway
    crate::props::c01::check_alignment_pure(al, x, y, scheme, mode, opt, must_be_optimal, true)
}

const EMPTY_SHARDS: usize = 16;

fn empty_unit(tier: Tier, shard: usize, ctx: &mut Ctx) {
    let others = gen::strings(b"ab", 1, tier.pick(2, 3));
    let mut pairs: Vec<(Vec<u8>, Vec<u8>)> = vec![(vec![], vec![])];
    for s in &others {
        pairs.push((vec![], s.clone()));
        pairs.push((s.clone(), vec![]));
    }
    let bases: Vec<(u8, i32, i32)> = tier.pick(vec![(0, -1, -1)], vec![(0, -1, -1), (1, 0, 0), (1, -3, -1)]);
    let kws: Vec<(usize, usize)> = tier.pick(vec![(1, 0)], vec![(1, 0), (2, 1)]);
    let entries = vec![
        Entry::Custom,
        Entry::Semiglobal,
        Entry::Local,
        Entry::Global,
        Entry::Matches(vec![]),
        Entry::Prehash,
    ];
    let clip_vals = [MIN_SCORE, 0, -1];
    let mut idx = 0usize;
    for (kind, go, ge) in &bases {
        for (k, w) in &kws {
            for (x, y) in &pairs {
                for c in 0..81usize {
                    let clips = [clip_vals[c / 27 % 3], clip_vals[c / 9 % 3], clip_vals[c / 3 % 3], clip_vals[c % 3]];
                    // quick tier: {MIN_SCORE,0}^4 plus the settings with exactly one -1 among zeros / MINs
                    if tier == Tier::Quick {
                        let minus = clips.iter().filter(|&&v| v == -1).count();
                        let zeros = clips.iter().filter(|&&v| v == 0).count();
                        if !(minus == 0 || (minus == 1 && (zeros == 3 || zeros == 0))) {
                            continue;
                        }
                    }
                    let scheme = Scheme {
                        subst: Subst { kind: *kind, emb: [b'a', b'b', b'c'] },
                        gap_open: *go,
                        gap_extend: *ge,
                        xclip_prefix: clips[0],
                        xclip_suffix: clips[1],
                        yclip_prefix: clips[2],
                        yclip_suffix: clips[3],
                    };
                    for e in &entries {
                        // standard modes ignore the clip penalties: run them for one quadruple only
                        if e.mode() != Mode::Custom && c != 13 {
                            continue;
                        }
                        idx += 1;
                        if idx % EMPTY_SHARDS != shard {
                            continue;
                        }
                        forked_case(ctx, &scheme, *k, *w, e, x, y);
                        if ctx.res.capped {
                            return;
                        }
                    }
                }
            }
        }
    }
}

// ------------------------------------------------------------------ cell budget

fn budget_case(m: usize, n: usize, e: &Entry, cc: &mut CaseCtx) {
    // no common 3-mer: the band is the full matrix of (m+1)(n+1) cells; budget = 5_000_000
    let x = vec![b'a'; m];
    let y = vec![b'b'; n];
    let scheme = Scheme {
        subst: Subst { kind: 0, emb: [b'a', b'b', b'c'] },
        gap_open: -2,
        gap_extend: -1,
        xclip_prefix: 0,
        xclip_suffix: 0,
        yclip_prefix: 0,
        yclip_suffix: 0,
    };
    let cells = (m + 1) * (n + 1);
    cc.nontrivial();
    let mut clips_after: Option<[i32; 4]> = None;
    let got = match guard(|| {
        let mut a = new_aligner(&scheme, 3, 2, 0);
        let al = call_entry(&mut a, e, &x, &y, 3, &[]);
        let sc = a.get_mut_scoring();
        clips_after = Some([sc.xclip_prefix, sc.xclip_suffix, sc.yclip_prefix, sc.yclip_suffix]);
        al
    }) {
        Ok(a) => a,
        Err(msg) => {
            cc.violation(format!("C02/{}/budget/panic", e.name()), msg);
            return;
        }
    };
    // a standard mode must leave the aligner's own clip penalties as they were, also when the
    // call was refused for exceeding the budget
    if clips_after != Some(scheme.clips()) {
        cc.violation(
            format!("C02/{}/clips-not-restored", e.name()),
            format!("{} x {} call: clip penalties afterwards {:?}, configured {:?}", m, n, clips_after, scheme.clips()),
        );
    }
    cc.outcome(&(got.score, got.operations.len()));
    if cells > 5_000_000 {
        let empty = got.score == MIN_SCORE && got.operations.is_empty() && got.xlen == 0 && got.ylen == 0 && got.xstart == 0 && got.xend == 0 && got.ystart == 0 && got.yend == 0;
        if !empty {
            cc.violation(
                format!("C02/{}/budget/over-budget-not-refused", e.name()),
                format!("{} cells > 5000000 but result is score={} ops={} xlen={}", cells, got.score, got.operations.len(), got.xlen),
            );
        }
    } else {
        // within the budget: must be computed, and equal the unbanded aligner (which C01 validates)
        let mode = e.mode();
        let mut full = bio::alignment::pairwise::Aligner::with_scoring(scoring_of(&scheme));
        let want = super::c01::call_mode(&mut full, mode, &x, &y);
        if got.score != want.score || got.xlen != m || got.ylen != n {
            cc.violation(
                format!("C02/{}/budget/within-budget-refused-or-wrong", e.name()),
                format!("{} cells <= 5000000: banded score {} (xlen {}, ylen {}) unbanded score {}", cells, got.score, got.xlen, got.ylen, want.score),
            );
        }
    }
}

/// (|x|, |y|) around the 5,000,000-cell budget: just below, exactly at, just above
const BUDGET_SIZES: [(usize, usize); 7] = [
    (2235, 2235),    // 4,999,696
    (1999, 2499),    // 5,000,000 exactly: still within the documented budget
    (2499, 1999),    // 5,000,000 exactly, transposed
    (1, 2_499_999),  // 5,000,000 exactly, extreme shape
    (2, 1_666_666),  // 5,000,001
    (2236, 2236),    // 5,004,169
    (4999, 1000),    // 5,005,000
];

fn budget_unit(ctx: &mut Ctx, which: usize) {
    let entries = [Entry::Custom, Entry::Global, Entry::Semiglobal, Entry::Local];
    let e = &entries[which % 4];
    for &(m, n) in &BUDGET_SIZES {
        ctx.case(|| json!({"kind": "budget", "m": m, "n": n, "entry": e}), |cc| budget_case(m, n, e, cc));
    }
}

// ------------------------------------------------------------------ Aligner::new / with_capacity

const N_CTOR_UNITS: usize = 4;

/// banded::Aligner::new(open, extend, fn, k, w) and ::with_capacity(m, n, ..) (every clip forbidden)
/// are checked with the same oracle as every other route, on every entry point
fn ctor_case(which: u8, scheme: &Scheme, k: usize, w: usize, e: &Entry, x: &[u8], y: &[u8], cc: &mut CaseCtx) {
    let table = RangeTable::new(x, y, &scheme.subst, scheme.gap_open, scheme.gap_extend);
    let matches = true_matches(x, y, k);
    let sub = scheme.subst;
    let f = move |a: u8, b: u8| sub.score(a, b);
    let (go, ge) = (scheme.gap_open, scheme.gap_extend);
    let name = match which {
        0 => "Aligner::new",
        1 => "Aligner::with_capacity",
        _ => "with_scoring+foreign-match_scores",
    };
    let got = guard(|| {
        let mut a = match which {
            0 => banded::Aligner::new(go, ge, f, k, w),
            1 => banded::Aligner::with_capacity(x.len() + 1, y.len() / 2, go, ge, f, k, w),
            // a struct literal whose match_scores hint does not describe match_fn: the hint may
            // steer the band heuristic, the scores must still be those of match_fn
            _ => banded::Aligner::with_scoring(
                Scoring {
                    gap_open: go,
                    gap_extend: ge,
                    match_fn: f,
                    match_scores: if sub.match_scores() == Some((1, -1)) { Some((2, -3)) } else { Some((1, -1)) },
                    xclip_prefix: MIN_SCORE,
                    xclip_suffix: MIN_SCORE,
                    yclip_prefix: MIN_SCORE,
                    yclip_suffix: MIN_SCORE,
                },
                k,
                w,
            ),
        };
        call_entry(&mut a, e, x, y, k, &matches)
    });
    match got {
        Err(msg) => cc.violation(format!("C02/constructor/{}/panic", name), msg),
        Ok(al) => {
            let mode = e.mode();
            let opt = table.optimum(mode.clips().unwrap_or(scheme.clips()));
            match check_alignment(&al, x, y, scheme, mode, opt, full_band(e, &matches), true, cc) {
                // (no comparison with the with_scoring route: a Scoring built by Scoring::new has
                // match_scores = None, which legitimately changes the band heuristics, so two sound
                // answers may differ — seen on x=aaa y=abba k=1 w=0)
                Ok(()) => {}
                Err((symptom, detail)) => {
                    let key = if symptom.starts_with("ins-run-split-at-yclip") || symptom.starts_with("del-run-split-at-xclip") || symptom.starts_with("zero-length-clip-in-path") {
                        format!("C02/{}", symptom)
                    } else {
                        format!("C02/constructor/{}/{}", name, symptom)
                    };
                    cc.violation(key, detail);
                }
            }
        }
    }
}

fn ctor_unit(tier: Tier, shard: usize, ctx: &mut Ctx) {
    let strs = gen::strings(b"ab", 1, tier.pick(3, 4));
    let entries = [Entry::Custom, Entry::Prehash, Entry::Expanded(Some(1), true), Entry::Global, Entry::Semiglobal, Entry::SemiglobalPrehash, Entry::Local];
    let mut idx = 0usize;
    for kind in [0u8, 1, 3] {
        for (go, ge) in [(0, -1), (-2, -1), (-3, 0)] {
            for (k, w) in [(1usize, 0usize), (2, 1), (3, 2)] {
                idx += 1;
                if idx % N_CTOR_UNITS != shard {
                    continue;
                }
                let scheme = Scheme {
                    subst: Subst { kind, emb: [b'a', b'b', b'c'] },
                    gap_open: go,
                    gap_extend: ge,
                    xclip_prefix: MIN_SCORE,
                    xclip_suffix: MIN_SCORE,
                    yclip_prefix: MIN_SCORE,
                    yclip_suffix: MIN_SCORE,
                };
                for x in &strs {
                    for y in &strs {
                        for which in 0..3u8 {
                            for e in &entries {
                                ctx.case(
                                    || json!({"kind": "constructor", "which": which, "scheme": scheme, "k": k, "w": w, "entry": e, "x": show(x), "y": show(y)}),
                                    |cc| ctor_case(which, &scheme, k, w, e, x, y, cc),
                                );
                            }
                        }
                    }
                    if ctx.res.capped {
                        return;
                    }
                }
            }
        }
    }
}

// ------------------------------------------------------------------ sequences of 200-300 symbols

const N_LONGSEQ_UNITS: usize = 4;

/// the C01 long pairs (pseudo-random x, mutated copy y, lengths around 200 and 256) through the
/// banded aligner with realistic k and w: soundness against the O(mn) oracle of C01
fn longseq_case(si: usize, kind: u8, go: i32, ge: i32, ci: usize, k: usize, w: usize, e: &Entry, cc: &mut CaseCtx) {
    use super::c01::{linear_optimum, lcg_seq, mutated_copy, LONG_CLIPS, LONG_SIZES};
    let (m, n) = LONG_SIZES[si];
    let x = lcg_seq(si as u64 + 1, m);
    let y = mutated_copy(&x, n, si as u64 + 77);
    let c = LONG_CLIPS[ci];
    let scheme = Scheme { subst: Subst { kind, emb: [b'a', b'b', b'c'] }, gap_open: go, gap_extend: ge, xclip_prefix: c[0], xclip_suffix: c[1], yclip_prefix: c[2], yclip_suffix: c[3] };
    let mode = e.mode();
    let eff = match mode.clips() {
        Some(cl) => scheme.with_clips(cl),
        None => scheme,
    };
    let opt = linear_optimum(&x, &y, &eff);
    let matches = true_matches(&x, &y, k);
    let got = guard(|| {
        let mut a = new_aligner(&scheme, k, w, si);
        let _ = call_entry(&mut a, e, b"abca", b"abba", k, &[]);
        call_entry(&mut a, e, &x, &y, k, &matches)
    });
    cc.set_nontrivial(true);
    match got {
        Err(msg) => cc.violation(format!("C02/{}/long-sequences/panic", e.name()), msg),
        Ok(al) => {
            if let Err((symptom, detail)) = check_alignment(&al, &x, &y, &scheme, mode, opt, full_band(e, &matches), true, cc) {
                let key = if symptom.starts_with("ins-run-split-at-yclip") || symptom.starts_with("del-run-split-at-xclip") || symptom.starts_with("zero-length-clip-in-path") {
                    format!("C02/{}", symptom)
                } else {
                    format!("C02/{}/long-sequences/{}", e.name(), symptom)
                };
                cc.violation(key, detail.chars().take(400).collect::<String>());
            }
            cc.set_nontrivial(true);
        }
    }
}

fn longseq_unit(tier: Tier, shard: usize, ctx: &mut Ctx) {
    let entries = [Entry::Custom, Entry::Prehash, Entry::Expanded(Some(1), true), Entry::Expanded(None, false), Entry::Global, Entry::Semiglobal, Entry::SemiglobalPrehash, Entry::Local];
    let mut idx = 0usize;
    for si in 0..super::c01::LONG_SIZES.len() {
        for kind in tier.pick(vec![0u8], vec![0u8, 1, 3]) {
            for (go, ge) in tier.pick(vec![(-2, -1)], vec![(-2, -1), (0, -1), (-3, 0)]) {
                for (k, w) in tier.pick(vec![(8usize, 2usize), (11, 10)], vec![(6usize, 0usize), (8, 2), (11, 10), (16, 50)]) {
                    for ci in 0..super::c01::LONG_CLIPS.len() {
                        for e in &entries {
                            if e.mode() != Mode::Custom && ci != 3 {
                                continue;
                            }
                            idx += 1;
                            if idx % N_LONGSEQ_UNITS != shard {
                                continue;
                            }
                            ctx.case(
                                || json!({"kind": "long", "size": si, "subst": kind, "gap_open": go, "gap_extend": ge, "clips": ci, "k": k, "w": w, "entry": e}),
                                |cc| longseq_case(si, kind, go, ge, ci, k, w, e, cc),
                            );
                        }
                    }
                }
            }
        }
    }
}

// ------------------------------------------------------------------ Prop

impl Prop for C02Prop {
    fn id(&self) -> &'static str {
        "C02"
    }
    fn level(&self) -> &'static str {
        "exploration"
    }
    fn rule(&self) -> &'static str {
        "Complete sweep: every pair of non-empty sequences up to the length bound x scoring grid (substitution x gap_open x gap_extend x 4^4 clip penalties set through get_mut_scoring on one reused aligner per (scheme,k,w)) x (k,w) grid x entry points (custom on all 256 clip schemes; prehash and expanded matches with allowed_mismatches in {None,0,1} x union flag on every 3rd (quick) / 2nd (thorough); on every 9th clip scheme every subset of the true k-mer match list and every valid chain of <=3 matches + the LCSk++ path; on every 37th the four standard-mode entry points followed by custom again). Inputs with an empty sequence: separate units, each call in a forked child under an address-space cap and a 10 s limit. Seven inputs just below, exactly at and just above the 5,000,000-cell budget per mode. Longer inputs (appended units): 'long-binary' = every pair of binary strings of length 4..5 (quick) / 5..6 (thorough); 'blocks' = x = junk+acgt+junk+tgca+junk against y built from the same two anchors in five arrangements (same order, swapped, first only, second only, truncated) with its own junk, 3 (quick) / 4 (thorough) junk strings per slot; both on 24 clip settings ({MIN_SCORE,0}^4 + 8 mixed) x 4/8 (k,w) x 2/4 scoring schemes, entry points custom, prehash, expanded(None,false), expanded(Some(1),true) everywhere and every other entry point on three clip settings, one reused aligner per unit. Constructor units: banded::Aligner::new and ::with_capacity on 27 (scheme,k,w) x every pair over {a,b}^<=3/4 x 7 entry points, same oracle. Each call is enumerated once. Non-trivial: both sequences non-empty and the returned alignment has a gap or a clipped end (forked and budget cases: all)."
    }
    fn assumptions(&self) -> Vec<&'static str> {
        vec![
            "oracle as C01 (brute-force sub-range optimum); banded score must be <= optimum, and = optimum when the match list handed to the band constructor is empty",
            "explicit match lists are subsets of the true sorted k-mer matches; match paths are valid chains (the API documents that validity is not checked)",
            "zero-length clip operations are tolerated (harmless)",
            "a child killed by SIGABRT under the address-space cap, or by the 10 s limit, is 'did not return'",
        ]
    }
    fn bounds(&self, tier: Tier) -> Value {
        json!({
            "binary_len": tier.pick("1..=3", "1..=4"), "ternary_len": tier.pick("1..=2", "1..=3"),
            "k": tier.pick("1..=3", "1..=4"), "w": tier.pick("0..=2", "0..=3"),
            "substitution": "(+1,-1) (+2,-3) asymmetric table", "gaps(open,extend)": tier.pick("(0,-1) (-2,-1) (-2,0)", "(0,0) (0,-1) (-2,0) (-2,-1) (-3,0) (-3,-1)"),
            "clip_penalties": "{MIN_SCORE,0,-1,-4}^4", "match_subsets": tier.pick("all subsets when <=4 matches, else 7-shape family", "all subsets when <=6 matches, else 7-shape family"),
            "empty_inputs": tier.pick("('',''), ('',s), (s,'') for s in {a,b}^{1..2}; 24 clip settings ({MIN,0}^4 + one -1); k=1,w=0; 6 entry points", "s in {a,b}^{1..3}; 81 clip settings; 3 schemes; (k,w) in {(1,0),(2,1)}; 6 entry points"),
            "long_binary_len": tier.pick("4..=5", "5..=6"), "blocks": tier.pick("27 x-strings x 39 y-strings (len 8..14)", "64 x 84 (len 8..17)"), "long_clip_settings": 24,
            "long_kw": tier.pick("binary (2,0) (3,0) (3,1) (4,1); blocks (2,0) (3,0) (3,1) (3,2)", "binary (2,0) (2,1) (3,0) (3,1) (3,2) (4,0) (4,1) (5,1); blocks (2,0) (2,1) (3,0) (3,1) (3,2) (3,3) (4,0) (4,2)"),
            "constructors": "banded::Aligner::new, ::with_capacity on 3 substitution x 3 gap x 3 (k,w) schemes",
            "long_sequences": tier.pick("the eight C01 long pairs (lengths 199..300) x (k,w) in (8,2) (11,10) x 5 clip settings x 8 entry points, soundness against the O(mn) oracle", "as quick with 3 substitution kinds, 3 gap pairs, (k,w) in (6,0) (8,2) (11,10) (16,50)"),
            "budget": "(|x|,|y|) in {(2235,2235) 4,999,696; (1999,2499),(2499,1999),(1,2499999) exactly 5,000,000; (2,1666666) 5,000,001; (2236,2236); (4999,1000)} x {custom, global, semiglobal, local}",
        })
    }
    fn units(&self, tier: Tier) -> Vec<String> {
        let mut v: Vec<String> = cfgs(tier)
            .iter()
            .enumerate()
            .map(|(i, c)| format!("sweep-{}-{}^{}-s{}-o{}-e{}-k{}-w{}", i, c.alpha, c.maxlen, c.subst_kind, c.gap_open, c.gap_extend, c.k, c.w))
            .collect();
        for i in 0..EMPTY_SHARDS {
            v.push(format!("empty-{}", i));
        }
        for i in 0..4 {
            v.push(format!("budget-{}", i));
        }
        for (i, c) in long_cfgs(tier).iter().enumerate() {
            v.push(format!("long-{}-{}-s{}-o{}-e{}-k{}-w{}", i, if c.family == 1 { "binary" } else { "blocks" }, c.subst_kind, c.gap_open, c.gap_extend, c.k, c.w));
        }
        for i in 0..N_CTOR_UNITS {
            v.push(format!("constructors-{}", i));
        }
        for i in 0..N_LONGSEQ_UNITS {
            v.push(format!("long-sequences-{}", i));
        }
        v
    }
    fn run_unit(&self, tier: Tier, unit: usize, ctx: &mut Ctx) {
        let c = cfgs(tier);
        if unit < c.len() {
            sweep(&c[unit], unit, tier, ctx, None);
        } else if unit < c.len() + EMPTY_SHARDS {
            empty_unit(tier, unit - c.len(), ctx);
        } else if unit < c.len() + EMPTY_SHARDS + 4 {
            budget_unit(ctx, unit - c.len() - EMPTY_SHARDS);
        } else if unit < c.len() + EMPTY_SHARDS + 4 + long_cfgs(tier).len() {
            let l = long_cfgs(tier);
            let i = unit - c.len() - EMPTY_SHARDS - 4;
            // cfg_idx (constructor choice, replay) continues after the short sweeps
            sweep(&l[i], c.len() + i, tier, ctx, None);
        } else if unit < c.len() + EMPTY_SHARDS + 4 + long_cfgs(tier).len() + N_CTOR_UNITS {
            ctor_unit(tier, unit - c.len() - EMPTY_SHARDS - 4 - long_cfgs(tier).len(), ctx);
        } else {
            longseq_unit(tier, unit - c.len() - EMPTY_SHARDS - 4 - long_cfgs(tier).len() - N_CTOR_UNITS, ctx);
        }
    }
    fn replay(&self, case: &Value, ctx: &mut Ctx) {
        match case["kind"].as_str().unwrap_or("") {
            "call" => {
                let scheme: Scheme = serde_json::from_value(case["scheme"].clone()).unwrap();
                let e: Entry = serde_json::from_value(case["entry"].clone()).unwrap();
                let k = case["k"].as_u64().unwrap() as usize;
                let w = case["w"].as_u64().unwrap() as usize;
                let (x, y) = (unshow(case["x"].as_str().unwrap()), unshow(case["y"].as_str().unwrap()));
                if x.is_empty() || y.is_empty() {
                    forked_case(ctx, &scheme, k, w, &e, &x, &y);
                } else {
                    ctx.case(|| case.clone(), |cc| run_single(&scheme, k, w, &e, &x, &y, cc));
                }
            }
            "custom-after-mode" => {
                let scheme: Scheme = serde_json::from_value(case["scheme"].clone()).unwrap();
                let e: Entry = serde_json::from_value(case["entry"].clone()).unwrap();
                let k = case["k"].as_u64().unwrap() as usize;
                let w = case["w"].as_u64().unwrap() as usize;
                let (x, y) = (unshow(case["x"].as_str().unwrap()), unshow(case["y"].as_str().unwrap()));
                ctx.case(
                    || case.clone(),
                    |cc| {
                        let mut a = new_aligner(&scheme, k, w, 0);
                        let first = guard(|| a.custom(&x, &y));
                        let _ = guard(|| call_entry(&mut a, &e, &x, &y, k, &[]));
                        let again = guard(|| a.custom(&x, &y));
                        if first.as_ref().ok() != again.as_ref().ok() {
                            cc.violation(format!("C02/{}/clips-not-restored", e.name()), format!("{:?} vs {:?}", first.map(|a| ops_string(&a)), again.map(|a| ops_string(&a))));
                        }
                    },
                );
            }
            "sweep-history" => {
                let cfg: Cfg = serde_json::from_value(case["cfg"].clone()).unwrap();
                let cfg_idx = case["cfg_idx"].as_u64().unwrap() as usize;
                let calls = case["calls"].as_u64().unwrap() as usize;
                // the tier only influences the subset/chain families; replay with the tier that
                // produced the case (encoded in the maxlen bound of the binary sweeps)
                let tier = match cfg.family {
                    1 => if cfg.maxlen >= 6 { Tier::Thorough } else { Tier::Quick },
                    2 => if cfg.maxlen >= 4 { Tier::Thorough } else { Tier::Quick },
                    _ => if cfg.maxlen >= 4 || (cfg.alpha == "abc" && cfg.maxlen >= 3) { Tier::Thorough } else { Tier::Quick },
                };
                sweep(&cfg, cfg_idx, tier, ctx, Some(calls));
            }
            "long" => {
                let u = |k: &str| case[k].as_u64().unwrap_or(0) as usize;
                let i = |k: &str| case[k].as_i64().unwrap_or(0) as i32;
                let e: Entry = serde_json::from_value(case["entry"].clone()).unwrap();
                let (si, ci) = (u("size").min(super::c01::LONG_SIZES.len() - 1), u("clips").min(super::c01::LONG_CLIPS.len() - 1));
                ctx.case(|| case.clone(), |cc| longseq_case(si, u("subst") as u8, i("gap_open"), i("gap_extend"), ci, u("k").max(1), u("w"), &e, cc));
            }
            "constructor" => {
                let scheme: Scheme = serde_json::from_value(case["scheme"].clone()).unwrap();
                let e: Entry = serde_json::from_value(case["entry"].clone()).unwrap();
                let k = case["k"].as_u64().unwrap() as usize;
                let w = case["w"].as_u64().unwrap() as usize;
                let which = case["which"].as_u64().unwrap() as u8;
                let (x, y) = (unshow(case["x"].as_str().unwrap()), unshow(case["y"].as_str().unwrap()));
                ctx.case(|| case.clone(), |cc| ctor_case(which, &scheme, k, w, &e, &x, &y, cc));
            }
            "budget" => {
                let n = case["n"].as_u64().unwrap() as usize;
                let m = case["m"].as_u64().unwrap_or(n as u64) as usize;
                let e: Entry = serde_json::from_value(case["entry"].clone()).unwrap();
                ctx.case(|| case.clone(), |cc| budget_case(m, n, &e, cc));
            }
            _ => {}
        }
    }
    fn death_key(&self, case: &Value, how: &str) -> String {
        let x = case["x"].as_str().unwrap_or("?");
        let y = case["y"].as_str().unwrap_or("?");
        if x.is_empty() || y.is_empty() {
            format!("empty-sequence/unforked/no-return-{}", how)
        } else {
            format!("{}/no-return-{}", case["entry"].as_str().unwrap_or("call"), how)
        }
    }
}
