//! C09 — Myers (single word u8/u16/u32/u64, block based u8/u16/u64, plain and through
//! `MyersBuilder`), Ukkonen and the distance functions equal the edit-distance definition.
//!
//! K1 sweeps over (pattern, text, k); word/block boundary family; ambiguity/wildcard sweep;
//! Ukkonen with three cost functions; distance functions incl. SIMD lengths; reuse histories.
//!
//! The Myers driving layer (`Imp`, `AnyMyers`, `on_myers!`) is shared with C10.

use super::Prop;
use crate::ctx::{guard, show, unshow, CaseCtx, Ctx, Tier};
use crate::gen;
use crate::oracles::edit::{self, EqModel};
use bio::alignment::distance as bdist;
use bio::pattern_matching::myers::{long, Myers, MyersBuilder};
use bio::pattern_matching::ukkonen::{unit_cost, Ukkonen};
use serde_json::{json, Value};

pub struct C09Prop;
pub static C09: C09Prop = C09Prop;

// ------------------------------------------------------------------ shared Myers driving layer

/// the seven instantiations under test
#[derive(Clone, Copy, Debug, PartialEq, Eq, Hash)]
pub enum Imp {
    S8,
    S16,
    S32,
    S64,
    L8,
    L16,
    L64,
}

pub const IMPS: [Imp; 7] = [Imp::S8, Imp::S16, Imp::S32, Imp::S64, Imp::L8, Imp::L16, Imp::L64];

impl Imp {
    pub fn name(self) -> &'static str {
        match self {
            Imp::S8 => "simple-u8",
            Imp::S16 => "simple-u16",
            Imp::S32 => "simple-u32",
            Imp::S64 => "simple-u64",
            Imp::L8 => "long-u8",
            Imp::L16 => "long-u16",
            Imp::L64 => "long-u64",
        }
    }
    pub fn parse(s: &str) -> Option<Imp> {
        IMPS.iter().cloned().find(|i| i.name() == s)
    }
    pub fn word(self) -> usize {
        match self {
            Imp::S8 | Imp::L8 => 8,
            Imp::S16 | Imp::L16 => 16,
            Imp::S32 => 32,
            Imp::S64 | Imp::L64 => 64,
        }
    }
    pub fn is_long(self) -> bool {
        matches!(self, Imp::L8 | Imp::L16 | Imp::L64)
    }
    /// can this instantiation take a pattern of m symbols (documented limit of the one-word version)
    pub fn accepts(self, m: usize) -> bool {
        self.is_long() || m <= self.word()
    }
    /// largest threshold the distance type can express
    pub fn kmax(self) -> u64 {
        if self.is_long() {
            usize::MAX as u64
        } else {
            255
        }
    }
    /// family name used in finding keys
    pub fn family(self, m: usize) -> &'static str {
        if !self.is_long() {
            "simple"
        } else if m > self.word() {
            "long-multiblock"
        } else {
            "long-1block"
        }
    }
}

#[derive(Clone, Hash, PartialEq, Eq)]
pub enum AnyMyers {
    S8(Myers<u8>),
    S16(Myers<u16>),
    S32(Myers<u32>),
    S64(Myers<u64>),
    L8(long::Myers<u8>),
    L16(long::Myers<u16>),
    L64(long::Myers<u64>),
}

/// expand `$body` once per instantiation with `$m` bound to the concrete matcher
#[macro_export]
macro_rules! on_myers {
    ($any:expr, $m:ident => $body:expr) => {
        match $any {
            $crate::props::c09::AnyMyers::S8($m) => $body,
            $crate::props::c09::AnyMyers::S16($m) => $body,
            $crate::props::c09::AnyMyers::S32($m) => $body,
            $crate::props::c09::AnyMyers::S64($m) => $body,
            $crate::props::c09::AnyMyers::L8($m) => $body,
            $crate::props::c09::AnyMyers::L16($m) => $body,
            $crate::props::c09::AnyMyers::L64($m) => $body,
        }
    };
}

/// the builder configuration used throughout: pattern symbol N matches a and b (and itself),
/// text symbol * matches everything
pub fn ambig_model() -> EqModel {
    EqModel {
        ambig: vec![(b'N', vec![b'a', b'b'])],
        wildcards: vec![b'*'],
    }
}

fn builder_for(eq: &EqModel) -> MyersBuilder {
    let mut b = MyersBuilder::new();
    for (sym, eqs) in &eq.ambig {
        b.ambig(*sym, eqs.iter());
    }
    for w in &eq.wildcards {
        b.text_wildcard(*w);
    }
    b
}

/// Build one matcher: `via = None` -> `Myers::new`, `Some(model)` -> through `MyersBuilder`
/// (`build`, `build_64`, `build_long`, `build_long_64`).
pub fn build(imp: Imp, p: &[u8], via: Option<&EqModel>) -> Result<AnyMyers, String> {
    guard(|| match via {
        None => match imp {
            Imp::S8 => AnyMyers::S8(Myers::<u8>::new(p)),
            Imp::S16 => AnyMyers::S16(Myers::<u16>::new(p)),
            Imp::S32 => AnyMyers::S32(Myers::<u32>::new(p)),
            Imp::S64 => AnyMyers::S64(Myers::<u64>::new(p)),
            Imp::L8 => AnyMyers::L8(long::Myers::<u8>::new(p)),
            Imp::L16 => AnyMyers::L16(long::Myers::<u16>::new(p)),
            Imp::L64 => AnyMyers::L64(long::Myers::<u64>::new(p)),
        },
        Some(eq) => {
            let b = builder_for(eq);
            match imp {
                Imp::S8 => AnyMyers::S8(b.build::<u8, _, _>(p)),
                Imp::S16 => AnyMyers::S16(b.build::<u16, _, _>(p)),
                Imp::S32 => AnyMyers::S32(b.build::<u32, _, _>(p)),
                Imp::S64 => AnyMyers::S64(b.build_64(p)),
                Imp::L8 => AnyMyers::L8(b.build_long::<u8, _, _>(p)),
                Imp::L16 => AnyMyers::L16(b.build_long::<u16, _, _>(p)),
                Imp::L64 => AnyMyers::L64(b.build_long_64(p)),
            }
        }
    })
}

impl AnyMyers {
    pub fn find_all_end(&self, t: &[u8], k: u64) -> Result<Vec<(usize, u64)>, String> {
        guard(|| on_myers!(self, m => m.find_all_end(t, k as _).map(|(e, d)| (e, d as u64)).collect()))
    }
    pub fn distance(&self, t: &[u8]) -> Result<u64, String> {
        guard(|| on_myers!(self, m => m.distance(t) as u64))
    }
    pub fn find_best_end(&self, t: &[u8]) -> Result<(usize, u64), String> {
        guard(|| on_myers!(self, m => { let (e, d) = m.find_best_end(t); (e, d as u64) }))
    }
}

pub fn panic_symptom(msg: &str) -> &'static str {
    if msg.contains("overflow") {
        "overflow-panic"
    } else {
        "panic"
    }
}

/// threshold of a case: a number, or "the largest value the distance type can express"
#[derive(Clone, Copy, Debug, PartialEq, Eq)]
pub enum K {
    N(u64),
    Max,
}

impl K {
    pub fn for_imp(self, imp: Imp) -> u64 {
        match self {
            K::N(n) => n.min(imp.kmax()),
            K::Max => imp.kmax(),
        }
    }
    pub fn to_json(self) -> Value {
        match self {
            K::N(n) => json!(n),
            K::Max => json!("max"),
        }
    }
    pub fn from_json(v: &Value) -> K {
        match v.as_u64() {
            Some(n) => K::N(n),
            None => K::Max,
        }
    }
}

/// which constructors a search case exercises
#[derive(Clone, Copy, Debug, PartialEq, Eq)]
pub enum Ctors {
    /// `new` and the builder (strings contain no ambiguity symbols, so both must agree with plain equality)
    Both,
    /// builder only; equality is the ambiguity model
    BuilderOnly,
    /// `new` only (boundary family: keeps the cost down)
    PlainOnly,
}

impl Ctors {
    fn name(self) -> &'static str {
        match self {
            Ctors::Both => "both",
            Ctors::BuilderOnly => "builder",
            Ctors::PlainOnly => "new",
        }
    }
    fn parse(s: &str) -> Ctors {
        match s {
            "builder" => Ctors::BuilderOnly,
            "new" => Ctors::PlainOnly,
            _ => Ctors::Both,
        }
    }
    fn plain(self) -> bool {
        self != Ctors::BuilderOnly
    }
    fn builder(self) -> bool {
        self != Ctors::PlainOnly
    }
}

/// all matchers for one pattern (find_all_end/distance/find_best_end take &self and the types have
/// no interior mutability, so sharing them between cases of the same pattern is history-free)
pub struct MatcherSet {
    pub entries: Vec<(Imp, bool, Result<AnyMyers, String>)>,
}

impl MatcherSet {
    pub fn new(p: &[u8], ctors: Ctors, imps: &[Imp]) -> MatcherSet {
        let am = ambig_model();
        let mut entries = vec![];
        for &imp in imps {
            if !imp.accepts(p.len()) {
                continue;
            }
            if ctors.plain() {
                entries.push((imp, false, build(imp, p, None)));
            }
            if ctors.builder() {
                entries.push((imp, true, build(imp, p, Some(&am))));
            }
        }
        MatcherSet { entries }
    }
}

pub fn classify_list(got: &[(usize, u64)], want: &[(usize, u64)]) -> &'static str {
    if !got.windows(2).all(|w| w[0].0 < w[1].0) {
        return "misordered-or-duplicate";
    }
    if got.iter().any(|g| !want.iter().any(|w| w.0 == g.0)) {
        return "spurious-hit";
    }
    if want.iter().any(|w| !got.iter().any(|g| w.0 == g.0)) {
        return "missing-hit";
    }
    "wrong-distance"
}

fn key(imp: Imp, m: usize, via_builder: bool, entry: &str, symptom: &str) -> String {
    format!(
        "C09/{}{}/{}/{}",
        imp.family(m),
        if via_builder { "-builder" } else { "" },
        entry,
        symptom
    )
}

/// does some instantiation under test need more than one block for m symbols
fn spans_blocks(m: usize, imps: &[Imp]) -> bool {
    imps.iter().any(|i| i.is_long() && m > i.word())
}

/// find_all_end of every matcher in the set against the DP column minima `d` (= D[m][i])
fn check_search(set: &MatcherSet, p: &[u8], t: &[u8], k: K, d: &[u64], cc: &mut CaseCtx) {
    let m = p.len();
    let imps: Vec<Imp> = set.entries.iter().map(|e| e.0).collect();
    let kn = match k {
        K::N(n) => n,
        K::Max => u64::MAX,
    };
    cc.set_nontrivial(d.iter().any(|&x| x > 0 && x <= kn) || spans_blocks(m, &imps));
    cc.outcome(&(kn, edit::expected_hits(d, kn)));
    // remember failures of the plain constructor so that the builder twin does not double-report
    let mut plain_failed: Vec<(Imp, String)> = vec![];
    for (imp, via_b, mres) in &set.entries {
        let my = match mres {
            Ok(my) => my,
            Err(msg) => {
                cc.violation(
                    key(*imp, m, *via_b, "constructor", panic_symptom(msg)),
                    format!("{} constructor panicked: {}", imp.name(), msg),
                );
                continue;
            }
        };
        let ke = k.for_imp(*imp);
        let want = edit::expected_hits(d, ke);
        let (symptom, detail) = match my.find_all_end(t, ke) {
            Err(msg) => (panic_symptom(&msg), format!("panicked: {}", msg)),
            Ok(got) => {
                if got == want {
                    continue;
                }
                (classify_list(&got, &want), format!("returned {:?}, DP gives {:?}", got, want))
            }
        };
        if *via_b && plain_failed.iter().any(|(i, s)| i == imp && s == symptom) {
            continue;
        }
        if !*via_b {
            plain_failed.push((*imp, symptom.to_string()));
        }
        cc.violation(
            key(*imp, m, *via_b, "find_all_end", symptom),
            format!("{}{} find_all_end(k={}) {}", imp.name(), if *via_b { " (builder)" } else { "" }, ke, detail),
        );
    }
}

/// distance() and find_best_end() on a non-empty text
fn check_best(set: &MatcherSet, p: &[u8], t: &[u8], d: &[u64], cc: &mut CaseCtx) {
    let m = p.len();
    let imps: Vec<Imp> = set.entries.iter().map(|e| e.0).collect();
    let dmin = *d.iter().min().expect("non-empty text");
    let first = d.iter().position(|&x| x == dmin).unwrap();
    cc.set_nontrivial(dmin > 0 || spans_blocks(m, &imps));
    cc.outcome(&(first, dmin));
    let mut plain_failed: Vec<(Imp, String)> = vec![];
    for (imp, via_b, mres) in &set.entries {
        let my = match mres {
            Ok(my) => my,
            Err(msg) => {
                cc.violation(
                    key(*imp, m, *via_b, "constructor", panic_symptom(msg)),
                    format!("{} constructor panicked: {}", imp.name(), msg),
                );
                continue;
            }
        };
        let mut fails: Vec<(&'static str, &'static str, String)> = vec![];
        match my.distance(t) {
            Err(msg) => fails.push(("distance", panic_symptom(&msg), format!("panicked: {}", msg))),
            Ok(g) => {
                if g != dmin {
                    fails.push(("distance", "wrong-minimum", format!("returned {}, minimum over all ends is {}", g, dmin)));
                }
            }
        }
        match my.find_best_end(t) {
            Err(msg) => fails.push(("find_best_end", panic_symptom(&msg), format!("panicked: {}", msg))),
            Ok((e, g)) => {
                if g != dmin {
                    fails.push(("find_best_end", "wrong-minimum", format!("returned ({}, {}), minimum is {} first at {}", e, g, dmin, first)));
                } else if e != first {
                    fails.push(("find_best_end", "not-first-minimum", format!("returned end {}, first end with distance {} is {}", e, dmin, first)));
                }
            }
        }
        for (entry, symptom, detail) in fails {
            let tag = format!("{}/{}", entry, symptom);
            if *via_b && plain_failed.iter().any(|(i, s)| i == imp && *s == tag) {
                continue;
            }
            if !*via_b {
                plain_failed.push((*imp, tag));
            }
            cc.violation(
                key(*imp, m, *via_b, entry, symptom),
                format!("{}{} {} {}", imp.name(), if *via_b { " (builder)" } else { "" }, entry, detail),
            );
        }
    }
}

fn eq_for(ctors: Ctors) -> EqModel {
    if ctors == Ctors::BuilderOnly {
        ambig_model()
    } else {
        EqModel::plain()
    }
}

/// all cases of one (pattern, text): every k of `ks`, then distance/find_best_end
fn pair_cases(ctx: &mut Ctx, set: &MatcherSet, ctors: Ctors, p: &[u8], t: &[u8], ks: &[K]) {
    let eq = eq_for(ctors);
    let d = edit::semiglobal_eq(p, t, &eq);
    for &k in ks {
        ctx.case(
            || json!({"kind": "search", "ctors": ctors.name(), "p": show(p), "t": show(t), "k": k.to_json()}),
            |cc| check_search(set, p, t, k, &d, cc),
        );
    }
    if !t.is_empty() {
        ctx.case(
            || json!({"kind": "best", "ctors": ctors.name(), "p": show(p), "t": show(t)}),
            |cc| check_best(set, p, t, &d, cc),
        );
    }
}

const EMBEDDINGS: [&[u8]; 3] = [b"ab", &[0x00, 0xFF], &[0x80, 0x7F]];

fn small_ks(m: usize) -> Vec<K> {
    let mut ks: Vec<K> = (0..=m as u64 + 1).map(K::N).collect();
    ks.push(K::Max);
    ks
}

fn sweep_bounds(tier: Tier) -> (usize, usize) {
    tier.pick((9, 8), (12, 10))
}

fn sweep_unit(tier: Tier, shard: usize, nshards: usize, ctx: &mut Ctx) {
    let (pmax, tmax) = sweep_bounds(tier);
    let pats = gen::strings(b"ab", 1, pmax);
    let texts = gen::strings(b"ab", 0, tmax);
    for (idx, p) in pats.iter().enumerate() {
        // interleave so that every shard gets patterns of every length
        if idx % nshards != shard {
            continue;
        }
        for (e, emb) in EMBEDDINGS.iter().enumerate() {
            // the other byte embeddings: short patterns only (quick), up to 6 (thorough)
            if e > 0 && p.len() > tier.pick(4, 6) {
                continue;
            }
            let pe = gen::embed(p, b"ab", emb);
            let set = MatcherSet::new(&pe, Ctors::Both, &IMPS);
            let ks = small_ks(p.len());
            for t in &texts {
                if e > 0 && t.len() > tier.pick(6, 8) {
                    break;
                }
                let te = gen::embed(t, b"ab", emb);
                pair_cases(ctx, &set, Ctors::Both, &pe, &te, &ks);
            }
        }
    }
    // three symbols (pairs in which neither string contains c were covered above)
    let (p3, t3) = ternary_bounds(tier);
    let pats = gen::strings(b"abc", 1, p3);
    let texts = gen::strings(b"abc", 0, t3);
    for (idx, p) in pats.iter().enumerate() {
        if idx % nshards != shard {
            continue;
        }
        let set = MatcherSet::new(p, Ctors::Both, &IMPS);
        let ks = small_ks(p.len());
        let pc = p.contains(&b'c');
        for t in &texts {
            if !pc && !t.contains(&b'c') {
                continue;
            }
            pair_cases(ctx, &set, Ctors::Both, p, t, &ks);
        }
    }
}

fn ternary_bounds(tier: Tier) -> (usize, usize) {
    tier.pick((4, 6), (5, 7))
}

fn ambig_unit(tier: Tier, shard: usize, nshards: usize, ctx: &mut Ctx) {
    let (pmax, tmax) = tier.pick((4, 6), (5, 7));
    let pats = gen::strings(b"abN", 1, pmax);
    let texts = gen::strings(b"ab*N", 0, tmax);
    for (idx, p) in pats.iter().enumerate() {
        if idx % nshards != shard {
            continue;
        }
        let set = MatcherSet::new(p, Ctors::BuilderOnly, &IMPS);
        let ks: Vec<K> = (0..=p.len() as u64).map(K::N).collect();
        for t in &texts {
            pair_cases(ctx, &set, Ctors::BuilderOnly, p, t, &ks);
        }
    }
}

// ------------------------------------------------------------------ boundary family

pub fn flip(c: u8) -> u8 {
    if c == b'a' {
        b'b'
    } else {
        b'a'
    }
}

pub fn boundary_lengths(tier: Tier) -> Vec<usize> {
    match tier {
        Tier::Quick => vec![7, 8, 9, 15, 16, 17, 31, 32, 33, 63, 64, 65],
        Tier::Thorough => vec![7, 8, 9, 15, 16, 17, 24, 31, 32, 33, 48, 63, 64, 65, 127, 128, 129],
    }
}

/// periodic patterns u^r cut to the boundary lengths, plain and with the last symbol flipped
pub fn boundary_patterns(lens: &[usize], max_unit: usize) -> Vec<Vec<u8>> {
    let mut out = vec![];
    for u in gen::strings(b"ab", 1, max_unit) {
        for &l in lens {
            let base = gen::periodic(&u, l);
            let mut x = base.clone();
            x[l - 1] = flip(x[l - 1]);
            out.push(base);
            out.push(x);
        }
    }
    out.sort();
    out.dedup();
    // shortest first
    out.sort_by_key(|p| p.len());
    out
}

/// flanks around every string within edit distance <= d of p (edits at positions 0, 1, mid, last)
pub fn boundary_texts(p: &[u8], d: usize) -> Vec<Vec<u8>> {
    let l = p.len();
    let mut pos = vec![0usize, 1.min(l - 1), l / 2, l - 1];
    pos.sort();
    pos.dedup();
    let variants = gen::edit_neighbourhood(p, b"ab", &pos, d);
    let mut out = vec![];
    for v in &variants {
        for (pre, post) in [(0usize, 0usize), (2, 0), (0, 3), (1, 1)] {
            let mut t = vec![b'b'; pre];
            t.extend_from_slice(v);
            t.extend(std::iter::repeat(b'a').take(post));
            out.push(t);
        }
    }
    out.sort();
    out.dedup();
    out
}

fn boundary_ks(l: usize) -> Vec<K> {
    let mut v: Vec<u64> = vec![0, 1, 2, 3, l as u64 - 1, l as u64, l as u64 + 1];
    v.sort();
    v.dedup();
    let mut ks: Vec<K> = v.into_iter().map(K::N).collect();
    ks.push(K::Max);
    ks
}

fn boundary_unit(tier: Tier, shard: usize, nshards: usize, ctx: &mut Ctx) {
    let pats = boundary_patterns(&boundary_lengths(tier), tier.pick(2, 4));
    for (idx, p) in pats.iter().enumerate() {
        if idx % nshards != shard {
            continue;
        }
        let set = MatcherSet::new(p, Ctors::PlainOnly, &IMPS);
        let ks = boundary_ks(p.len());
        // edit distance 2 neighbourhoods everywhere in the thorough tier, up to 33 symbols in the quick one
        let d = 2;
        for t in boundary_texts(p, d) {
            pair_cases(ctx, &set, Ctors::PlainOnly, p, &t, &ks);
        }
    }
}

// ------------------------------------------------------------------ Ukkonen

fn ukk_bounds(tier: Tier) -> (usize, usize) {
    tier.pick((4, 6), (6, 7))
}

const COSTS: [&str; 3] = ["unit", "caseless", "weighted"];

fn cost_unit(a: u8, b: u8) -> u32 {
    (a != b) as u32
}
/// zero cost for some unequal pairs
fn cost_caseless(a: u8, b: u8) -> u32 {
    (a.to_ascii_lowercase() != b.to_ascii_lowercase()) as u32
}
/// one ordered pair of cost 2
fn cost_weighted(a: u8, b: u8) -> u32 {
    if a == b {
        0
    } else if (a, b) == (b'a', b'b') {
        2
    } else {
        1
    }
}

/// the library's public default cost function, run through the same cases as the module's own
/// unit cost closure (it must behave exactly like it); units of its own at the end of the unit list
const LIB_COST: &str = "unit_cost";
/// every cost name a case description can carry
const ALL_COSTS: [&str; 4] = ["unit", "caseless", "weighted", LIB_COST];

fn cost_name(v: &Value) -> &'static str {
    ALL_COSTS.iter().cloned().find(|c| *v == **c).unwrap_or("unit")
}

/// the cost function handed to the subject
fn cost_fn(name: &str) -> fn(u8, u8) -> u32 {
    match name {
        "caseless" => cost_caseless,
        "weighted" => cost_weighted,
        "unit_cost" => unit_cost,
        _ => cost_unit,
    }
}

/// the cost function of the reference DP (never the library's own function)
fn model_cost(name: &str) -> fn(u8, u8) -> u32 {
    match name {
        "caseless" => cost_caseless,
        "weighted" => cost_weighted,
        _ => cost_unit,
    }
}

fn check_ukkonen(cost: &str, p: &[u8], t: &[u8], k: u64, d: &[u64], cc: &mut CaseCtx) {
    let f = cost_fn(cost);
    let want = edit::expected_hits(d, k);
    cc.set_nontrivial(d.iter().any(|&x| x > 0 && x <= k));
    cc.outcome(&(k, &want));
    let r = guard(|| {
        // capacity below the pattern length: the matcher has to grow its columns
        let mut u = Ukkonen::with_capacity(1, f);
        let got: Vec<(usize, usize)> = u.find_all_end(p, t, k as usize).collect();
        got
    });
    // the largest threshold gets an entry name of its own (a defect there is a different defect)
    let entry = if k == u64::MAX { "find_all_end-k-usize-max" } else { "find_all_end" };
    let fam = if k == u64::MAX { "ukkonen".to_string() } else { format!("ukkonen-{}", cost) };
    match r {
        Err(msg) => cc.violation(
            format!("C09/{}/{}/{}", fam, entry, panic_symptom(&msg)),
            format!("panicked: {}", msg),
        ),
        Ok(got) => {
            let got: Vec<(usize, u64)> = got.into_iter().map(|(e, d)| (e, d as u64)).collect();
            if got != want {
                cc.violation(
                    format!("C09/{}/{}/{}", fam, entry, classify_list(&got, &want)),
                    format!("returned {:?}, DP gives {:?}", got, want),
                );
            }
        }
    }
}

fn ukkonen_unit(tier: Tier, costs: &[&'static str], shard: usize, nshards: usize, ctx: &mut Ctx) {
    let (pmax, tmax) = ukk_bounds(tier);
    let pats = gen::strings(b"abA", 1, pmax);
    let texts = gen::strings(b"abA", 0, tmax);
    for (idx, p) in pats.iter().enumerate() {
        if idx % nshards != shard {
            continue;
        }
        for &cost in costs {
            let f = model_cost(cost);
            for t in &texts {
                let d = edit::semiglobal(p, t, |a, b| f(a, b) as u64);
                // k up to m+2: with the weighted cost a distance can exceed m
                for k in 0..=p.len() as u64 + 2 {
                    ctx.case(
                        || json!({"kind": "ukkonen", "cost": cost, "p": show(p), "t": show(t), "k": k}),
                        |cc| check_ukkonen(cost, p, t, k, &d, cc),
                    );
                }
            }
        }
    }
}

/// threshold usize::MAX ("any distance"): the statement quantifies over every threshold
fn ukkonen_kmax_unit(tier: Tier, costs: &[&'static str], ctx: &mut Ctx) {
    let (pmax, tmax) = tier.pick((3, 4), (4, 5));
    let pats = gen::strings(b"abA", 1, pmax);
    let texts = gen::strings(b"abA", 0, tmax);
    for p in &pats {
        for &cost in costs {
            let f = model_cost(cost);
            for t in &texts {
                let d = edit::semiglobal(p, t, |a, b| f(a, b) as u64);
                ctx.case(
                    || json!({"kind": "ukkonen", "cost": cost, "p": show(p), "t": show(t), "k": u64::MAX}),
                    |cc| check_ukkonen(cost, p, t, u64::MAX, &d, cc),
                );
            }
        }
    }
}

// ------------------------------------------------------------------ reuse

/// one Ukkonen object through a sequence of searches; `full[i] = false` abandons the iterator
/// after its first item. Every answer must equal the DP's.
fn check_ukkonen_reuse(cost: &str, hist: &[(Vec<u8>, Vec<u8>, u64, bool)], cc: &mut CaseCtx) {
    let f = cost_fn(cost);
    let fm = model_cost(cost);
    let wants: Vec<Vec<(usize, u64)>> = hist
        .iter()
        .map(|(p, t, k, full)| {
            let d = edit::semiglobal(p, t, |a, b| fm(a, b) as u64);
            let mut w = edit::expected_hits(&d, *k);
            if !*full {
                w.truncate(1);
            }
            w
        })
        .collect();
    cc.set_nontrivial(
        wants.iter().filter(|w| w.iter().any(|h| h.1 > 0)).count() >= 2
            && hist.windows(2).any(|w| w[0].0.len() != w[1].0.len()),
    );
    cc.outcome(&wants);
    cc.add_transitions(hist.len() as u64);
    cc.add_traces(1);
    let r = guard(|| {
        let mut u = Ukkonen::with_capacity(1, f);
        let mut gots: Vec<Vec<(usize, u64)>> = vec![];
        for (p, t, k, full) in hist {
            let mut it = u.find_all_end(p, t, *k as usize);
            let g: Vec<(usize, u64)> = if *full {
                it.map(|(e, d)| (e, d as u64)).collect()
            } else {
                it.next().into_iter().map(|(e, d)| (e, d as u64)).collect()
            };
            gots.push(g);
        }
        gots
    });
    match r {
        Err(msg) => cc.violation(format!("C09/ukkonen-{}/reuse/{}", cost, panic_symptom(&msg)), msg),
        Ok(gots) => {
            for (i, (g, w)) in gots.iter().zip(&wants).enumerate() {
                if g != w {
                    cc.violation(
                        format!("C09/ukkonen-{}/reuse/answer-depends-on-history", cost),
                        format!("search #{} returned {:?}, DP gives {:?}", i, g, w),
                    );
                    break;
                }
            }
        }
    }
}

fn ukkonen_reuse_unit(tier: Tier, cost: &'static str, ctx: &mut Ctx) {
    let pats: [&[u8]; 5] = [b"a", b"ab", b"bA", b"abAab", b"aabbaab"];
    let texts: [&[u8]; 5] = [b"", b"b", b"abab", b"bbaAbab", b"aabbaabAbaabbab"];
    let ks = [0u64, 1, 3];
    let mut searches: Vec<(Vec<u8>, Vec<u8>, u64, bool)> = vec![];
    for p in pats {
        for t in texts {
            for k in ks {
                for full in [true, false] {
                    searches.push((p.to_vec(), t.to_vec(), k, full));
                }
            }
        }
    }
    let depth = tier.pick(2, 3);
    let n = searches.len();
    // the last search is always consumed completely
    let radices: Vec<usize> = vec![n; depth];
    gen::odometer(&radices, |dg| {
        if !searches[dg[depth - 1]].3 {
            return;
        }
        // thorough depth 3: the middle search only over a reduced set to keep the unit in budget
        if depth == 3 && dg[1] % 3 != 0 {
            return;
        }
        let hist: Vec<(Vec<u8>, Vec<u8>, u64, bool)> = dg.iter().map(|&i| searches[i].clone()).collect();
        ctx.case(
            || {
                json!({"kind": "ukkonen-reuse", "cost": cost, "searches": hist.iter().map(|(p, t, k, full)|
                    json!({"p": show(p), "t": show(t), "k": k, "full": full})).collect::<Vec<_>>()})
            },
            |cc| check_ukkonen_reuse(cost, &hist, cc),
        );
    });
}

/// One Myers object, searches interleaved: iterator over t0 started, complete search of t1 and a
/// distance()/find_best_end() of t2 in between, then the rest of the first iterator.
fn check_myers_reuse(imp: Imp, p: &[u8], ts: &[Vec<u8>; 3], ks: [u64; 2], cc: &mut CaseCtx) {
    let eq = EqModel::plain();
    let d0 = edit::semiglobal_eq(p, &ts[0], &eq);
    let d1 = edit::semiglobal_eq(p, &ts[1], &eq);
    let d2 = edit::semiglobal_eq(p, &ts[2], &eq);
    let w0 = edit::expected_hits(&d0, ks[0]);
    let w1 = edit::expected_hits(&d1, ks[1]);
    let dmin = *d2.iter().min().unwrap();
    let first = d2.iter().position(|&x| x == dmin).unwrap();
    cc.set_nontrivial(w0.iter().any(|h| h.1 > 0) && w1.iter().any(|h| h.1 > 0));
    cc.outcome(&(&w0, &w1, dmin, first));
    cc.add_transitions(4);
    cc.add_traces(1);
    let my = match build(imp, p, None) {
        Ok(m) => m,
        Err(msg) => {
            cc.violation(key(imp, p.len(), false, "constructor", panic_symptom(&msg)), msg);
            return;
        }
    };
    let r = guard(|| {
        on_myers!(&my, m => {
            let mut a = m.find_all_end(&ts[0][..], ks[0] as _);
            let head = a.next();
            let b: Vec<(usize, u64)> = m.find_all_end(&ts[1][..], ks[1] as _).map(|(e, d)| (e, d as u64)).collect();
            let dist = m.distance(&ts[2][..]) as u64;
            let best = m.find_best_end(&ts[2][..]);
            let mut av: Vec<(usize, u64)> = head.into_iter().map(|(e, d)| (e, d as u64)).collect();
            av.extend(a.map(|(e, d)| (e, d as u64)));
            (av, b, dist, (best.0, best.1 as u64))
        })
    });
    let (symptom, detail) = match r {
        Err(msg) => (panic_symptom(&msg), msg),
        Ok((a, b, dist, best)) => {
            if a == w0 && b == w1 && dist == dmin && best == (first, dmin) {
                return;
            }
            (
                "answer-depends-on-history",
                format!(
                    "{}: got {:?} / {:?} / {} / {:?}, DP gives {:?} / {:?} / {} / {:?}",
                    imp.name(), a, b, dist, best, w0, w1, dmin, (first, dmin)
                ),
            )
        }
    };
    // is it the interleaving, or do the single calls already fail on a fresh object?
    let mut single: Vec<(&str, &'static str, String)> = vec![];
    for (t, k, w) in [(&ts[0], ks[0], &w0), (&ts[1], ks[1], &w1)] {
        match my.find_all_end(t, k) {
            Err(msg) => single.push(("find_all_end", panic_symptom(&msg), msg)),
            Ok(g) => {
                if g != **w {
                    single.push(("find_all_end", classify_list(&g, w), format!("returned {:?}, DP gives {:?}", g, w)));
                }
            }
        }
    }
    match my.distance(&ts[2]) {
        Err(msg) => single.push(("distance", panic_symptom(&msg), msg)),
        Ok(g) => {
            if g != dmin {
                single.push(("distance", "wrong-minimum", format!("returned {}, minimum {}", g, dmin)));
            }
        }
    }
    match my.find_best_end(&ts[2]) {
        Err(msg) => single.push(("find_best_end", panic_symptom(&msg), msg)),
        Ok(g) => {
            if g.1 != dmin {
                single.push(("find_best_end", "wrong-minimum", format!("returned {:?}, minimum {} first at {}", g, dmin, first)));
            } else if g.0 != first {
                single.push(("find_best_end", "not-first-minimum", format!("returned {:?}, first minimum at {}", g, first)));
            }
        }
    }
    if single.is_empty() {
        cc.violation(key(imp, p.len(), false, "reuse", symptom), detail);
    } else {
        for (entry, sym, det) in single {
            cc.violation(key(imp, p.len(), false, entry, sym), format!("{} {} {}", imp.name(), entry, det));
        }
    }
}

fn myers_reuse_unit(tier: Tier, ctx: &mut Ctx) {
    let pats: Vec<&[u8]> = match tier {
        Tier::Quick => vec![b"ab", b"abaab", b"aaaaaaaab"],
        Tier::Thorough => vec![b"a", b"ab", b"abaab", b"aaaaaaaab", b"abababababababababa"],
    };
    let texts: [&[u8]; 5] = [b"b", b"abab", b"bbaabab", b"aaaaaaaaabaa", b"ababbabababababababbab"];
    let kpairs = [[0u64, 1], [2, 0], [1, 3], [9, 2]];
    for p in pats {
        for imp in IMPS {
            if !imp.accepts(p.len()) {
                continue;
            }
            for a in texts {
                for b in texts {
                    for c in texts {
                        for ks in kpairs {
                            let ts = [a.to_vec(), b.to_vec(), c.to_vec()];
                            ctx.case(
                                || {
                                    json!({"kind": "myers-reuse", "imp": imp.name(), "p": show(p),
                                    "texts": [show(a), show(b), show(c)], "ks": ks})
                                },
                                |cc| check_myers_reuse(imp, p, &ts, ks, cc),
                            );
                        }
                    }
                }
            }
        }
    }
}

// ------------------------------------------------------------------ distance functions

fn check_distance(a: &[u8], b: &[u8], bounds: &[u32], cc: &mut CaseCtx) {
    let e = edit::levenshtein(a, b);
    cc.set_nontrivial(e > 0 && !a.is_empty() && !b.is_empty());
    cc.outcome(&(e, a.len(), b.len()));
    let mut report = |f: &str, symptom: &str, detail: String| {
        cc.violation(format!("C09/distance/{}/{}", f, symptom), detail);
    };
    match guard(|| bdist::levenshtein(a, b)) {
        Err(msg) => report("levenshtein", panic_symptom(&msg), msg),
        Ok(g) => {
            if g as u64 != e {
                report("levenshtein", "wrong-value", format!("returned {}, textbook DP {}", g, e));
            }
        }
    }
    match guard(|| bdist::simd::levenshtein(a, b)) {
        Err(msg) => report("simd-levenshtein", panic_symptom(&msg), msg),
        Ok(g) => {
            if g as u64 != e {
                report("simd-levenshtein", "wrong-value", format!("returned {}, textbook DP {}", g, e));
            }
        }
    }
    for &k in bounds {
        match guard(|| bdist::simd::bounded_levenshtein(a, b, k)) {
            Err(msg) => report("bounded-levenshtein", panic_symptom(&msg), format!("k={}: {}", k, msg)),
            Ok(g) => {
                let want = if e <= k as u64 { Some(e as u32) } else { None };
                if g != want {
                    let symptom = match (g, want) {
                        (None, Some(_)) => "none-although-within-bound",
                        (Some(_), None) => "some-although-above-bound",
                        _ => "wrong-value",
                    };
                    report("bounded-levenshtein", symptom, format!("k={} returned {:?}, expected {:?}", k, g, want));
                }
            }
        }
    }
    if a.len() == b.len() {
        let h = edit::hamming(a, b);
        match guard(|| bdist::hamming(a, b)) {
            Err(msg) => report("hamming", panic_symptom(&msg), msg),
            Ok(g) => {
                if g != h {
                    report("hamming", "wrong-value", format!("returned {}, expected {}", g, h));
                }
            }
        }
        match guard(|| bdist::simd::hamming(a, b)) {
            Err(msg) => report("simd-hamming", panic_symptom(&msg), msg),
            Ok(g) => {
                if g != h {
                    report("simd-hamming", "wrong-value", format!("returned {}, expected {}", g, h));
                }
            }
        }
    }
}

fn small_bounds(a: &[u8], b: &[u8]) -> Vec<u32> {
    let mut v: Vec<u32> = (0..=a.len().max(b.len()) as u32 + 1).collect();
    v.push(u32::MAX);
    v
}

fn distance_case(ctx: &mut Ctx, a: &[u8], b: &[u8], bounds: Option<&[u32]>) {
    let bs: Vec<u32> = match bounds {
        Some(b) => b.to_vec(),
        None => small_bounds(a, b),
    };
    ctx.case(
        || json!({"kind": "distance", "a": show(a), "b": show(b), "bounds": bs}),
        |cc| check_distance(a, b, &bs, cc),
    );
}

fn distance_small_unit(tier: Tier, shard: usize, nshards: usize, ctx: &mut Ctx) {
    let (l2, l3) = tier.pick((8, 5), (9, 6));
    for (alpha, l) in [(&b"ab"[..], l2), (&b"abc"[..], l3)] {
        let strs = gen::strings(alpha, 0, l);
        for (idx, a) in strs.iter().enumerate() {
            if idx % nshards != shard {
                continue;
            }
            for b in &strs {
                // the ternary sweep repeats the binary pairs; skip those
                if alpha.len() == 3 && !a.contains(&b'c') && !b.contains(&b'c') {
                    continue;
                }
                distance_case(ctx, a, b, None);
            }
        }
    }
}

/// SIMD-length family: a pseudo-periodic DNA string of each length, up to two edits at boundary
/// positions (substitution, deletion, insertion; second edit a substitution)
fn distance_simd_unit(tier: Tier, shard: usize, nshards: usize, ctx: &mut Ctx) {
    let lens: Vec<usize> = match tier {
        Tier::Quick => vec![15, 16, 17, 31, 32, 33, 63, 64, 65, 127, 128, 129, 255, 256, 257, 300],
        Tier::Thorough => vec![
            15, 16, 17, 31, 32, 33, 47, 48, 49, 63, 64, 65, 95, 96, 97, 127, 128, 129, 191, 192, 193, 255, 256, 257, 300, 511, 512, 513,
        ],
    };
    let mut idx = 0usize;
    for len in lens {
        let a: Vec<u8> = (0..len).map(|i| b"ACGT"[(i * 7 + i / 3) % 4]).collect();
        let mut pos1 = vec![0usize, 1, len / 2 - 1, len / 2, len - 2, len - 1];
        pos1.dedup();
        let mut seen: Vec<Vec<u8>> = vec![];
        // zero edits
        let mut variants: Vec<Vec<u8>> = vec![a.clone()];
        for &e1 in &pos1 {
            for kind in 0..3 {
                let mut b = a.clone();
                match kind {
                    0 => b[e1] = b'N',
                    1 => {
                        b.remove(e1);
                    }
                    _ => b.insert(e1, b'N'),
                }
                variants.push(b.clone());
                for e2 in [0usize, b.len() / 3, b.len() / 2, b.len() - 1] {
                    for kind2 in 0..2 {
                        let mut c = b.clone();
                        if kind2 == 0 {
                            c[e2] = b'X';
                        } else {
                            c.remove(e2);
                        }
                        variants.push(c);
                    }
                }
            }
        }
        for v in variants {
            if seen.contains(&v) {
                continue;
            }
            seen.push(v.clone());
            idx += 1;
            if idx % nshards != shard {
                continue;
            }
            let bounds = [0u32, 1, 2, 3, 5, len as u32, u32::MAX];
            distance_case(ctx, &a, &v, Some(&bounds));
            distance_case(ctx, &v, &a, Some(&bounds));
        }
    }
    // dense mismatches: whole aligned blocks of 255/256/257 (and 65,536 + 1 for hamming only, below)
    // positions differ — per-block mismatch counters must not be narrower than the block
    let other = |c: u8| match c {
        b'A' => b'T',
        b'C' => b'G',
        b'G' => b'C',
        _ => b'A',
    };
    for len in [255usize, 256, 257, 511, 512, 513, 768, 1000] {
        let a: Vec<u8> = (0..len).map(|i| b"ACGT"[(i * 7 + i / 3) % 4]).collect();
        let mut variants: Vec<Vec<u8>> = vec![];
        variants.push(a.iter().map(|&c| other(c)).collect()); // every position differs
        for (lo, hi) in [(0usize, 256usize), (256, 512), (1, 257), (0, 255), (512, 768)] {
            if hi <= len {
                variants.push(a.iter().enumerate().map(|(i, &c)| if i >= lo && i < hi { other(c) } else { c }).collect());
            }
        }
        variants.push(a.iter().enumerate().map(|(i, &c)| if i == 0 { c } else { other(c) }).collect()); // all but the first
        for v in variants {
            idx += 1;
            if idx % nshards != shard {
                continue;
            }
            let bounds = [0u32, 255, 256, len as u32, u32::MAX];
            distance_case(ctx, &a, &v, Some(&bounds));
        }
    }
}

// ------------------------------------------------------------------ block de-activation family

/// One family: multi-block patterns for the block-based matcher with word size `w`.
pub struct DeactFam {
    pub w: usize,
    pub lens: Vec<usize>,
    /// longest period unit of the patterns
    pub max_unit: usize,
    /// every run length 0..=2w+2 of the diverging stretch, or only those around 0, w and 2w
    pub dense: bool,
}

/// a -> b -> c -> a
pub fn rot(c: u8) -> u8 {
    match c {
        b'a' => b'b',
        b'b' => b'c',
        _ => b'a',
    }
}

/// Periodic patterns u^r cut to `lens`, plain and with the last symbol changed, for every unit u
/// over {a,b,c} that contains c. (Every other family of C09/C10 uses patterns over {a,b} or
/// {a,b,N} at these lengths, so no (pattern, text, k) of this family is enumerated elsewhere.)
pub fn deact_patterns(lens: &[usize], max_unit: usize) -> Vec<Vec<u8>> {
    let mut out = vec![];
    for u in gen::strings(b"abc", 1, max_unit) {
        if !u.contains(&b'c') {
            continue;
        }
        for &l in lens {
            let base = gen::periodic(&u, l);
            let mut x = base.clone();
            x[l - 1] = rot(x[l - 1]);
            out.push(base);
            out.push(x);
        }
    }
    out.sort();
    out.dedup();
    out.sort_by_key(|p| p.len());
    out
}

/// symbol that occurs in no pattern of the family
pub const FOREIGN: u8 = b'd';

/// Texts p[..a] f^j p[..c]: a prefix of the pattern (the lower blocks become active), a run of j
/// copies of f (the distances of the lower blocks climb by up to one per column until they reach
/// k + w and the blocks are dropped again), then a prefix of the pattern once more (the blocks are
/// re-activated). a in `a_set`, f in `fillers`, j in `j_set`, c in `c_set`; sorted, duplicates removed.
pub fn deact_texts(p: &[u8], a_set: &[usize], fillers: &[u8], j_set: &[usize], c_set: &[usize]) -> Vec<Vec<u8>> {
    let m = p.len();
    let mut out = vec![];
    for &a in a_set {
        for (fi, &f) in fillers.iter().enumerate() {
            for &j in j_set {
                if j == 0 && fi > 0 {
                    continue;
                }
                for &c in c_set {
                    let mut t = p[..a.min(m)].to_vec();
                    t.extend(std::iter::repeat(f).take(j));
                    t.extend_from_slice(&p[..c.min(m)]);
                    out.push(t);
                }
            }
        }
    }
    out.sort();
    out.dedup();
    out
}

/// The patterns of several families (word size, lengths, longest period unit), each with the word
/// sizes of the families it belongs to: a length can be a boundary length of more than one word
/// size, and every (pattern, text, k) is to be enumerated once.
pub fn deact_plan(fams: &[(usize, Vec<usize>, usize)]) -> Vec<(Vec<u8>, Vec<usize>)> {
    let mut out: Vec<(Vec<u8>, Vec<usize>)> = vec![];
    for (w, lens, max_unit) in fams {
        for p in deact_patterns(lens, *max_unit) {
            match out.iter_mut().find(|e| e.0 == p) {
                Some(e) => {
                    if !e.1.contains(w) {
                        e.1.push(*w)
                    }
                }
                None => out.push((p, vec![*w])),
            }
        }
    }
    out
}

pub fn clamp_set(mut v: Vec<usize>, m: usize) -> Vec<usize> {
    v.retain(|&x| x <= m);
    v.sort();
    v.dedup();
    v
}

fn deact_families(tier: Tier) -> Vec<DeactFam> {
    match tier {
        Tier::Quick => vec![
            DeactFam { w: 8, lens: vec![9, 10, 15, 16, 17, 24, 25], max_unit: 2, dense: true },
            DeactFam { w: 16, lens: vec![17, 32, 33], max_unit: 2, dense: true },
        ],
        Tier::Thorough => vec![
            DeactFam { w: 8, lens: vec![9, 10, 15, 16, 17, 23, 24, 25, 32, 33], max_unit: 3, dense: true },
            DeactFam { w: 16, lens: vec![17, 18, 31, 32, 33, 48, 49], max_unit: 2, dense: true },
            DeactFam { w: 64, lens: vec![65, 128, 129], max_unit: 2, dense: false },
        ],
    }
}

fn deact_j_set(w: usize, dense: bool) -> Vec<usize> {
    if dense {
        (0..=2 * w + 2).collect()
    } else {
        let mut v: Vec<usize> = vec![0, 1, 2];
        v.extend(w - 2..=w + 4);
        v.extend(2 * w - 2..=2 * w + 3);
        v
    }
}

fn deact_ks(w: usize) -> Vec<K> {
    let mut v = vec![0usize, 1, 2, 3, w / 2 + 1, w, w + w / 2 + 1];
    v.sort();
    v.dedup();
    v.into_iter().map(|k| K::N(k as u64)).collect()
}

/// Does the DP predict the sequence "block 1 can be activated, later its distance reaches k + w
/// (it has to be dropped), later block 1 can be activated again" for threshold k? Evidence
/// counter only (vacuity guard of the family), never part of a verdict. `d0` = D[w][i] (distance
/// at the bottom of block 0), `d1` = D[min(2w, m)][i] (bottom of block 1).
fn predicts_drop_and_return(d0: &[u64], d1: &[u64], k: u64, w: u64) -> bool {
    let n = d0.len();
    let mut stage = 0;
    for i in 0..n {
        match stage {
            0 if d0[i] <= k => stage = 1,
            1 if d1[i] >= k.saturating_add(w) => stage = 2,
            2 if d0[i] <= k => return true,
            _ => {}
        }
    }
    false
}

fn deact_unit(tier: Tier, shard: usize, nshards: usize, ctx: &mut Ctx) {
    let eq = EqModel::plain();
    let fams = deact_families(tier);
    let plan = deact_plan(&fams.iter().map(|f| (f.w, f.lens.clone(), f.max_unit)).collect::<Vec<_>>());
    for (idx, (p, ws)) in plan.iter().enumerate() {
        if idx % nshards != shard {
            continue;
        }
        let m = p.len();
        let set = MatcherSet::new(p, Ctors::PlainOnly, &IMPS);
        // texts and thresholds of every word size this length belongs to, each once
        let mut texts: Vec<Vec<u8>> = vec![];
        let mut ks: Vec<K> = vec![];
        for &w in ws {
            let dense = fams.iter().find(|f| f.w == w).map_or(true, |f| f.dense);
            let a_set = clamp_set(vec![0, w - 1, w, w + 1, 2 * w, m - 1, m], m);
            let c_set = clamp_set(vec![0, w + 1, m - 1, m], m);
            texts.extend(deact_texts(p, &a_set, &[FOREIGN, b'a', b'b', b'c'], &deact_j_set(w, dense), &c_set));
            for k in deact_ks(w) {
                if !ks.contains(&k) {
                    ks.push(k);
                }
            }
        }
        texts.sort();
        texts.dedup();
        for t in &texts {
            let d = edit::semiglobal_eq(p, t, &eq);
            let rows: Vec<(u64, Vec<u64>, Vec<u64>)> = ws
                .iter()
                .map(|&w| (w as u64, edit::semiglobal_eq(&p[..w], t, &eq), edit::semiglobal_eq(&p[..m.min(2 * w)], t, &eq)))
                .collect();
            for &k in &ks {
                let kn = match k {
                    K::N(n) => n,
                    K::Max => u64::MAX,
                };
                let pred = rows.iter().any(|(w, d0, d1)| predicts_drop_and_return(d0, d1, kn, *w));
                ctx.case(
                    || json!({"kind": "search", "ctors": Ctors::PlainOnly.name(), "p": show(p), "t": show(t), "k": k.to_json()}),
                    |cc| {
                        if pred {
                            cc.count("deact_family_dp_predicts_drop_and_reactivation", 1);
                        }
                        check_search(&set, p, t, k, &d, cc)
                    },
                );
            }
            if !t.is_empty() {
                ctx.case(
                    || json!({"kind": "best", "ctors": Ctors::PlainOnly.name(), "p": show(p), "t": show(t)}),
                    |cc| check_best(&set, p, t, &d, cc),
                );
            }
        }
    }
}

// ------------------------------------------------------------------ Prop

const SWEEP: usize = 32;
const AMBIG: usize = 6;
const BOUNDARY: usize = 12;
const UKK: usize = 6;
const DIST: usize = 4;
const DIST_SIMD: usize = 2;
const DEACT: usize = 8;
const UKK_LIB: usize = 2;

fn unit_names() -> Vec<String> {
    let mut v: Vec<String> = vec![];
    v.extend((0..SWEEP).map(|i| format!("sweep-{}", i)));
    v.extend((0..BOUNDARY).map(|i| format!("boundary-{}", i)));
    v.extend((0..AMBIG).map(|i| format!("ambig-{}", i)));
    v.extend((0..UKK).map(|i| format!("ukkonen-{}", i)));
    v.extend((0..DIST).map(|i| format!("distance-{}", i)));
    v.extend((0..DIST_SIMD).map(|i| format!("distance-simd-{}", i)));
    v.push("ukkonen-kmax".into());
    v.push("reuse-myers".into());
    for c in COSTS {
        v.push(format!("reuse-ukkonen-{}", c));
    }
    // appended later (unit names are referred to by replay files and evidence; keep the order)
    v.extend((0..DEACT).map(|i| format!("deact-{}", i)));
    v.extend((0..UKK_LIB).map(|i| format!("ukkonen-{}-{}", LIB_COST, i)));
    v.push(format!("reuse-ukkonen-{}", LIB_COST));
    v
}

impl Prop for C09Prop {
    fn id(&self) -> &'static str {
        "C09"
    }
    fn level(&self) -> &'static str {
        "exploration"
    }
    fn rule(&self) -> &'static str {
        "Complete sweep of (pattern, text, k) over {a,b} (three byte embeddings) through seven Myers instantiations (one-word u8/u16/u32/u64, block-based u8/u16/u64), each built with new() and with MyersBuilder, k = 0..|p|+1 and the largest expressible k; distance()/find_best_end() on every non-empty text; ambiguity/wildcard sweep over {a,b,N} x {a,b,*,N}; periodic patterns of lengths around 8/16/32/64/128 against flanked edit-neighbourhoods (<=2 edits at positions 0,1,mid,last); Ukkonen with unit/caseless/weighted costs over {a,b,A}; free distance functions over all pairs of short strings and a SIMD-length family; reuse histories; block de-activation family: periodic multi-block patterns over {a,b,c} (every unit containing c) against texts p[..a] f^j p[..c] (pattern prefix, run of j <= 2w+2 copies of a foreign or a pattern symbol, pattern prefix again) so that lower blocks are activated, dropped at distance k+w and re-activated; the Ukkonen sweep, the k = usize::MAX family and the reuse histories once more with the library's public unit_cost as cost function. One case = one (pattern, text, k) resp. (pattern, text) resp. history; each is enumerated once. Non-trivial: some end position has a distance d with 0 < d <= k, or the pattern spans more than one block of a block-based instantiation (distance functions: distance > 0 on non-empty strings; reuse: hits with d > 0 in at least two searches)."
    }
    fn assumptions(&self) -> Vec<&'static str> {
        vec![
            "oracle: column-wise semiglobal DP in u64 with the generalised equality eq(p,t) = p==t or t in ambig(p) or t in wildcards (resp. the cost function, indels cost 1); textbook full-matrix Levenshtein; positional Hamming",
            "empty texts are excluded for distance()/find_best_end() only (minimum over an empty set); hamming only on equal lengths (documented panic otherwise)",
            "one-word matchers are only given patterns up to the word size and thresholds up to 255 (the distance type); Ukkonen thresholds 0..=|p|+2 and usize::MAX",
            "find_all_end/distance/find_best_end take &self and the types have no interior mutability, so one matcher object per pattern is shared by the cases of that pattern; replay builds a fresh one",
            "subject built with overflow checks and debug assertions on, as in the pinned test profile",
            "block de-activation family: whether a block is active is not observable through the public API; the counter deact_family_dp_predicts_drop_and_reactivation counts the cases in which the DP rows at the block boundaries say that block 1 must be activated, dropped (distance >= k + w) and activated again (vacuity guard only, not part of any verdict)",
            "ukkonen::unit_cost is only ever handed to the subject; the reference DP of those cases uses the module's own unit cost",
        ]
    }
    fn bounds(&self, tier: Tier) -> Value {
        let (pmax, tmax) = sweep_bounds(tier);
        let (p3, t3) = ternary_bounds(tier);
        let (ap, at) = tier.pick((4, 6), (5, 7));
        let (up, ut) = ukk_bounds(tier);
        let (l2, l3) = tier.pick((8, 5), (9, 6));
        json!({
            "sweep": {"alphabet": "a,b", "pattern_len": format!("1..={}", pmax), "text_len": format!("0..={}", tmax),
                      "k": "0..=|p|+1, max (255 one-word / usize::MAX block-based)",
                      "embeddings": format!("a,b | 0x00,0xFF | 0x80,0x7F (the latter two for |p| <= {}, |t| <= {})", tier.pick(4, 6), tier.pick(6, 8)),
                      "ternary": format!("{{a,b,c}}: pattern_len 1..={}, text_len 0..={}", p3, t3),
                      "implementations": "Myers<u8|u16|u32|u64>, long::Myers<u8|u16|u64>, each via new() and MyersBuilder"},
            "ambiguity": {"pattern": format!("{{a,b,N}}^1..={}", ap), "text": format!("{{a,b,*,N}}^0..={}", at), "k": "0..=|p|", "model": "N matches a,b,N; text * matches everything"},
            "boundary": {"pattern_len": boundary_lengths(tier), "units": format!("{{a,b}}^1..={} periodic, plain and last symbol flipped", tier.pick(2, 4)),
                         "texts": format!("flanks (0,0),(2,0),(0,3),(1,1) around every string within {} edits of p at positions 0,1,mid,last", 2),
                         "k": "0,1,2,3,|p|-1,|p|,|p|+1,max"},
            "ukkonen": {"alphabet": "a,b,A", "pattern_len": format!("1..={}", up), "text_len": format!("0..={}", ut), "k": "0..=|p|+2", "costs": COSTS, "k_usize_max": format!("separate unit: pattern_len 1..={}, text_len 0..={}", tier.pick(3, 4), tier.pick(4, 5))},
            "distance": {"binary_len": format!("0..={}", l2), "ternary_len": format!("0..={}", l3), "bounded_k": "0..=max(|a|,|b|)+1, u32::MAX",
                         "simd_lengths": tier.pick("15..17,31..33,63..65,127..129,255..257,300", "15..17,31..33,47..49,63..65,95..97,127..129,191..193,255..257,300,511..513")},
            "reuse": {"myers": "3 interleaved searches on one object, 5 texts^3 x 4 threshold pairs x implementations", "ukkonen": format!("histories of {} searches (pattern, text, k, consumed fully or abandoned after the first hit)", tier.pick(2, 3))},
            "block_deactivation": deact_families(tier).iter().map(|f| json!({
                "word": f.w, "pattern_len": f.lens,
                "patterns": format!("u^r cut to the length, plain and last symbol rotated, u in {{a,b,c}}^1..={} containing c", f.max_unit),
                "texts": format!("p[..a] f^j p[..c], a in {{0,w-1,w,w+1,2w,|p|-1,|p|}}, f in {{d,a,b,c}}, j in {}, c in {{0,w+1,|p|-1,|p|}}",
                                 if f.dense { format!("0..={}", 2 * f.w + 2) } else { format!("{:?}", deact_j_set(f.w, false)) }),
                "k": deact_ks(f.w).iter().map(|k| k.to_json()).collect::<Vec<_>>(),
                "implementations": "every instantiation that accepts the pattern length, new() only"})).collect::<Vec<_>>(),
            "ukkonen_unit_cost": "the ukkonen sweep, the k_usize_max family and the reuse histories with bio::pattern_matching::ukkonen::unit_cost"
        })
    }
    fn units(&self, _tier: Tier) -> Vec<String> {
        unit_names()
    }
    fn run_unit(&self, tier: Tier, unit: usize, ctx: &mut Ctx) {
        let mut u = unit;
        if u < SWEEP {
            return sweep_unit(tier, u, SWEEP, ctx);
        }
        u -= SWEEP;
        if u < BOUNDARY {
            return boundary_unit(tier, u, BOUNDARY, ctx);
        }
        u -= BOUNDARY;
        if u < AMBIG {
            return ambig_unit(tier, u, AMBIG, ctx);
        }
        u -= AMBIG;
        if u < UKK {
            return ukkonen_unit(tier, &COSTS, u, UKK, ctx);
        }
        u -= UKK;
        if u < DIST {
            return distance_small_unit(tier, u, DIST, ctx);
        }
        u -= DIST;
        if u < DIST_SIMD {
            return distance_simd_unit(tier, u, DIST_SIMD, ctx);
        }
        u -= DIST_SIMD;
        if u == 0 {
            return ukkonen_kmax_unit(tier, &COSTS, ctx);
        }
        u -= 1;
        if u == 0 {
            return myers_reuse_unit(tier, ctx);
        }
        u -= 1;
        if u < COSTS.len() {
            return ukkonen_reuse_unit(tier, COSTS[u], ctx);
        }
        u -= COSTS.len();
        if u < DEACT {
            return deact_unit(tier, u, DEACT, ctx);
        }
        u -= DEACT;
        if u < UKK_LIB {
            // the sweep of the ukkonen-* units with the library's own cost function; the first
            // shard also takes the k = usize::MAX family
            if u == 0 {
                ukkonen_kmax_unit(tier, &[LIB_COST], ctx);
            }
            return ukkonen_unit(tier, &[LIB_COST], u, UKK_LIB, ctx);
        }
        u -= UKK_LIB;
        if u == 0 {
            ukkonen_reuse_unit(tier, LIB_COST, ctx);
        }
    }
    fn replay(&self, case: &Value, ctx: &mut Ctx) {
        let s = |k: &str| unshow(case[k].as_str().unwrap_or(""));
        match case["kind"].as_str().unwrap_or("") {
            "search" | "best" => {
                let (p, t) = (s("p"), s("t"));
                let ctors = Ctors::parse(case["ctors"].as_str().unwrap_or("both"));
                let set = MatcherSet::new(&p, ctors, &IMPS);
                let d = edit::semiglobal_eq(&p, &t, &eq_for(ctors));
                if case["kind"] == "search" {
                    let k = K::from_json(&case["k"]);
                    ctx.case(|| case.clone(), |cc| check_search(&set, &p, &t, k, &d, cc));
                } else {
                    ctx.case(|| case.clone(), |cc| check_best(&set, &p, &t, &d, cc));
                }
            }
            "ukkonen" => {
                let (p, t) = (s("p"), s("t"));
                let cost = cost_name(&case["cost"]);
                let k = case["k"].as_u64().unwrap_or(0);
                let f = model_cost(cost);
                let d = edit::semiglobal(&p, &t, |a, b| f(a, b) as u64);
                ctx.case(|| case.clone(), |cc| check_ukkonen(cost, &p, &t, k, &d, cc));
            }
            "ukkonen-reuse" => {
                let cost = cost_name(&case["cost"]);
                let hist: Vec<(Vec<u8>, Vec<u8>, u64, bool)> = case["searches"]
                    .as_array()
                    .map(|a| {
                        a.iter()
                            .map(|x| {
                                (
                                    unshow(x["p"].as_str().unwrap_or("")),
                                    unshow(x["t"].as_str().unwrap_or("")),
                                    x["k"].as_u64().unwrap_or(0),
                                    x["full"].as_bool().unwrap_or(true),
                                )
                            })
                            .collect()
                    })
                    .unwrap_or_default();
                ctx.case(|| case.clone(), |cc| check_ukkonen_reuse(cost, &hist, cc));
            }
            "myers-reuse" => {
                let p = s("p");
                let imp = Imp::parse(case["imp"].as_str().unwrap_or("")).unwrap_or(Imp::S64);
                let ts: Vec<Vec<u8>> = case["texts"].as_array().unwrap().iter().map(|t| unshow(t.as_str().unwrap())).collect();
                let ts = [ts[0].clone(), ts[1].clone(), ts[2].clone()];
                let ks = [case["ks"][0].as_u64().unwrap_or(0), case["ks"][1].as_u64().unwrap_or(0)];
                ctx.case(|| case.clone(), |cc| check_myers_reuse(imp, &p, &ts, ks, cc));
            }
            "distance" => {
                let (a, b) = (s("a"), s("b"));
                let bounds: Vec<u32> = case["bounds"]
                    .as_array()
                    .map(|v| v.iter().map(|x| x.as_u64().unwrap_or(0) as u32).collect())
                    .unwrap_or_default();
                ctx.case(|| case.clone(), |cc| check_distance(&a, &b, &bounds, cc));
            }
            _ => {}
        }
    }
}
