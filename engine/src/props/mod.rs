use crate::ctx::{Ctx, Tier};
use serde_json::Value;

pub trait Prop: Sync {
    fn id(&self) -> &'static str;
    /// evidence level: "exploration" | "model_checking" | "fault_enumeration"
    fn level(&self) -> &'static str;
    /// how cases are enumerated and what makes one non-trivial
    fn rule(&self) -> &'static str;
    fn assumptions(&self) -> Vec<&'static str>;
    /// the alphabet and bounds of this tier, for the evidence file
    fn bounds(&self, tier: Tier) -> Value;
    /// names of the work units (each runs in its own worker process)
    fn units(&self, tier: Tier) -> Vec<String>;
    fn run_unit(&self, tier: Tier, unit: usize, ctx: &mut Ctx);
    /// re-execute exactly one case (the `case` value of a violation / replay file)
    fn replay(&self, case: &Value, ctx: &mut Ctx);
    /// finding key (without the property prefix) for a case on which the subject did not return
    /// (`how` = stall | memory | died)
    fn death_key(&self, _case: &Value, how: &str) -> String {
        format!("no-return/{}", how)
    }
}

pub mod c01;
pub mod c02;
pub mod c03;
pub mod c04;
pub mod c05;
pub mod c06;
pub mod c07;
pub mod c08;
pub mod c09;
pub mod c10;
pub mod c11;
pub mod c12;
pub mod c13;
pub mod c14;
pub mod c15;
pub mod c16;
pub mod c17;
pub mod c18;
pub mod c19;
pub mod c20;

pub fn all() -> Vec<&'static dyn Prop> {
    vec![
        &c01::C01,
        &c02::C02,
        &c03::C03,
        &c04::C04,
        &c05::C05,
        &c06::C06,
        &c07::C07,
        &c08::C08,
        &c09::C09,
        &c10::C10,
        &c11::C11,
        &c12::C12,
        &c13::C13,
        &c14::C14,
        &c15::C15,
        &c16::C16,
        &c17::C17,
        &c18::C18,
        &c19::C19,
        &c20::C20,
    ]
}

pub fn get(id: &str) -> Option<&'static dyn Prop> {
    all().into_iter().find(|p| p.id() == id)
}
