//! C06 — FMD-index: supermaximal exact matches on both strands, forward/backward extension.
//! K1 sweep over (sequence set, Occ sampling rate, pattern).  The text is built here (own reverse
//! complement) as s1 $ rc(s1) $ s2 $ rc(s2) $ ...; one case = one (set, rate, pattern) triple, inside
//! which every position i, every minimum length l, all_smems and every one-symbol extension of
//! every pattern substring is executed on the real index and compared with a naive scan.

use super::Prop;
use crate::ctx::{guard, show, unshow, CaseCtx, Ctx, Tier};
use crate::gen;
use bio::alphabets::dna;
use bio::data_structures::bwt::{bwt, less, Less, Occ, BWT};
use bio::data_structures::fmindex::{BiInterval, FMDIndex, FMIndex, FMIndexable};
use bio::data_structures::suffix_array::suffix_array;
use serde_json::{json, Value};

pub struct C06Prop;
pub static C06: C06Prop = C06Prop;

type Fmd<'a> = FMDIndex<&'a BWT, &'a Less, &'a Occ>;

// ------------------------------------------------------------------ reference model

/// complement over ACGTN in either case, written out independently of bio::alphabets::dna
fn comp(c: u8) -> u8 {
    match c {
        b'A' => b'T',
        b'T' => b'A',
        b'C' => b'G',
        b'G' => b'C',
        b'N' => b'N',
        b'a' => b't',
        b't' => b'a',
        b'c' => b'g',
        b'g' => b'c',
        b'n' => b'n',
        x => x,
    }
}

fn revcomp(s: &[u8]) -> Vec<u8> {
    s.iter().rev().map(|&c| comp(c)).collect()
}

pub fn build_text(seqs: &[Vec<u8>]) -> Vec<u8> {
    let mut t = Vec::new();
    for s in seqs {
        t.extend_from_slice(s);
        t.push(b'$');
        t.extend(revcomp(s));
        t.push(b'$');
    }
    t
}

fn occs(text: &[u8], q: &[u8]) -> Vec<usize> {
    let n = text.len();
    if q.is_empty() || q.len() > n {
        return vec![];
    }
    (0..=n - q.len()).filter(|&i| &text[i..i + q.len()] == q).collect()
}

/// naive occurrence lists of every substring p[s..e) and of its reverse complement
struct Oracle {
    m: usize,
    fwd: Vec<Vec<usize>>,
    rev: Vec<Vec<usize>>,
}

impl Oracle {
    fn new(text: &[u8], p: &[u8]) -> Oracle {
        let m = p.len();
        let mut fwd = vec![Vec::new(); (m + 1) * (m + 1)];
        let mut rev = vec![Vec::new(); (m + 1) * (m + 1)];
        let rc = revcomp(p); // revcomp(p[s..e)) == rc[m-e..m-s)
        for s in 0..m {
            for e in s + 1..=m {
                fwd[s * (m + 1) + e] = occs(text, &p[s..e]);
                rev[s * (m + 1) + e] = occs(text, &rc[m - e..m - s]);
            }
        }
        Oracle { m, fwd, rev }
    }
    fn f(&self, s: usize, e: usize) -> &Vec<usize> {
        &self.fwd[s * (self.m + 1) + e]
    }
    fn r(&self, s: usize, e: usize) -> &Vec<usize> {
        &self.rev[s * (self.m + 1) + e]
    }
    fn occurs(&self, s: usize, e: usize) -> bool {
        !self.f(s, e).is_empty()
    }
    fn supermaximal(&self, s: usize, e: usize) -> bool {
        self.occurs(s, e) && (s == 0 || !self.occurs(s - 1, e)) && (e == self.m || !self.occurs(s, e + 1))
    }
    /// all SMEMs as (start, len), sorted
    fn smems(&self) -> Vec<(usize, usize)> {
        let mut v = vec![];
        for s in 0..self.m {
            for e in s + 1..=self.m {
                if self.supermaximal(s, e) {
                    v.push((s, e - s));
                }
            }
        }
        v
    }
}

// ------------------------------------------------------------------ index under test

pub struct Built {
    text: Vec<u8>,
    sa: Vec<usize>,
    bwt: BWT,
    less: Less,
}

fn build(seqs: &[Vec<u8>]) -> Built {
    let text = build_text(seqs);
    let sa = suffix_array(&text);
    let bw = bwt(&text, &sa);
    let ls = less(&bw, &dna::n_alphabet());
    Built { text, sa, bwt: bw, less: ls }
}

/// violations collected during a case (key, detail); flushed into the CaseCtx at the end so that
/// the same checkers can run inside `guard` closures
#[derive(Default)]
struct Sink(Vec<(String, String)>);

impl Sink {
    fn violation(&mut self, k: impl Into<String>, d: impl Into<String>) {
        self.0.push((k.into(), d.into()));
    }
}

fn sorted_sa_slice(b: &Built, lo: usize, hi: usize) -> Vec<usize> {
    let mut v: Vec<usize> = b.sa[lo..hi].to_vec();
    v.sort_unstable();
    v
}

/// compare a bi-interval with the naive occurrence lists of p[s..e) and of its reverse complement.
/// `ext` selects the wording used for the extension clause.
fn check_biinterval(
    b: &Built,
    orc: &Oracle,
    bi: &BiInterval,
    s: usize,
    e: usize,
    entry: &str,
    ext: bool,
    cc: &mut Sink,
) -> bool {
    let n = b.text.len();
    let (f, r) = (bi.forward(), bi.revcomp());
    if f.lower > f.upper || f.upper > n || r.lower > r.upper || r.upper > n {
        cc.violation(
            format!("C06/{}/interval-out-of-range", entry),
            format!("substring [{},{}) forward {:?} revcomp {:?} text length {}", s, e, f, r, n),
        );
        return false;
    }
    let (wf, wr) = (orc.f(s, e), orc.r(s, e));
    let gf = sorted_sa_slice(b, f.lower, f.upper);
    let gr = sorted_sa_slice(b, r.lower, r.upper);
    if ext && wf.is_empty() && !gf.is_empty() {
        cc.violation(
            format!("C06/{}/nonempty-for-absent-string", entry),
            format!("substring [{},{}) does not occur but forward interval {:?} maps to {:?}", s, e, f, gf),
        );
        return false;
    }
    if ext && !wf.is_empty() && gf.is_empty() {
        cc.violation(
            format!("C06/{}/empty-for-present-string", entry),
            format!("substring [{},{}) occurs at {:?} but the interval is empty", s, e, wf),
        );
        return false;
    }
    let mut ok = true;
    if &gf != wf {
        cc.violation(
            format!("C06/{}/forward-interval-wrong", entry),
            format!("substring [{},{}) forward interval {:?} maps to {:?}, occurrences {:?}", s, e, f, gf, wf),
        );
        ok = false;
    }
    if &gr != wr {
        cc.violation(
            format!("C06/{}/revcomp-interval-wrong", entry),
            format!(
                "substring [{},{}) revcomp interval {:?} maps to {:?}, occurrences of the reverse complement {:?}",
                s, e, r, gr, wr
            ),
        );
        ok = false;
    }
    ok
}

/// check one result list of smems / all_smems against the expected set
fn check_results(
    b: &Built,
    orc: &Oracle,
    res: &[(BiInterval, usize, usize)],
    want: &[(usize, usize)],
    cover: Option<usize>,
    l: usize,
    entry: &str,
    dup_allowed: bool,
    cc: &mut Sink,
) {
    let m = orc.m;
    let ctx_s = match cover {
        Some(i) => format!("i={} l={}", i, l),
        None => format!("l={}", l),
    };
    let got: Vec<(usize, usize)> = res.iter().map(|x| (x.1, x.2)).collect();
    for (n, &(s, len)) in got.iter().enumerate() {
        if len == 0 || s + len > m {
            cc.violation(
                format!("C06/{}/malformed-span", entry),
                format!("{}: returned (start {}, len {}) for a pattern of length {}; all {:?}", ctx_s, s, len, m, got),
            );
            continue;
        }
        let e = s + len;
        if !want.contains(&(s, len)) {
            let symptom = if !orc.occurs(s, e) {
                "non-occurring-match"
            } else if !orc.supermaximal(s, e) {
                "not-supermaximal"
            } else if cover.map_or(false, |i| !(s <= i && i < e)) {
                "not-covering-i"
            } else {
                "shorter-than-l"
            };
            cc.violation(
                format!("C06/{}/spurious/{}", entry, symptom),
                format!("{}: returned {:?}, expected {:?}", ctx_s, got, want),
            );
            continue;
        }
        if !dup_allowed && got[..n].contains(&(s, len)) {
            cc.violation(
                format!("C06/{}/duplicate", entry),
                format!("{}: returned {:?}, expected {:?}", ctx_s, got, want),
            );
            continue;
        }
        check_biinterval(b, orc, &res[n].0, s, e, entry, false, cc);
    }
    for w in want {
        if !got.contains(w) {
            cc.violation(
                format!("C06/{}/missing", entry),
                format!("{}: returned {:?}, expected {:?}", ctx_s, got, want),
            );
            break;
        }
    }
}

fn check_case(b: &Built, fmd: &Fmd, p: &[u8], lmax: usize, cc: &mut CaseCtx) {
    let m = p.len();
    let orc = Oracle::new(&b.text, p);
    let all = orc.smems();
    // some pattern position is covered by two different SMEMs (both then are proper substrings)
    cc.set_nontrivial((0..m).any(|i| all.iter().filter(|&&(s, len)| s <= i && i < s + len).count() >= 2));
    let mut sink = Sink::default();

    // ---- smems(p, i, l)
    for i in 0..m {
        for l in 1..=lmax {
            let want: Vec<(usize, usize)> = all
                .iter()
                .cloned()
                .filter(|&(s, len)| s <= i && i < s + len && len >= l)
                .collect();
            match guard(|| fmd.smems(p, i, l)) {
                Err(msg) => sink.violation("C06/smems/panic", format!("smems(p, {}, {}) panicked: {}", i, l, msg)),
                Ok(res) => {
                    if l == 1 {
                        for x in &res {
                            cc.outcome(&(i, x.1, x.2, x.0.forward(), x.0.revcomp()));
                        }
                    }
                    check_results(b, &orc, &res, &want, Some(i), l, "smems", false, &mut sink);
                }
            }
        }
    }

    // ---- all_smems(p, l)
    for l in 1..=lmax {
        let want: Vec<(usize, usize)> = all.iter().cloned().filter(|&(_, len)| len >= l).collect();
        match guard(|| fmd.all_smems(p, l)) {
            Err(msg) => sink.violation("C06/all_smems/panic", format!("all_smems(p, {}) panicked: {}", l, msg)),
            Ok(res) => {
                cc.outcome(&res.len());
                check_results(b, &orc, &res, &want, None, l, "all_smems", true, &mut sink);
            }
        }
    }

    // ---- extension clause.  The bi-interval of p[s..e) is obtained along one canonical path
    // (init_interval_with(p[s]), then forward_ext); every one-symbol extension of every substring, in
    // both directions, is executed from it and compared with the naive occurrence lists; so are both
    // extensions of the empty string.  A chain stops at its first wrong or panicking step.
    let n = b.text.len();
    let mut table: Vec<Option<BiInterval>> = vec![None; (m + 1) * (m + 1)];
    let empty = match guard(|| fmd.init_interval()) {
        Err(msg) => {
            sink.violation("C06/init_interval/panic", msg);
            None
        }
        Ok(e) => {
            if e.forward().lower != 0 || e.forward().upper != n {
                sink.violation(
                    "C06/init_interval/not-whole-array",
                    format!("{:?} for a text of length {}", e.forward(), n),
                );
                None
            } else {
                Some(e)
            }
        }
    };
    // one guarded extension step + check; None if it panicked or was wrong
    let step = |entry: &'static str, f: &dyn Fn() -> BiInterval, s: usize, e: usize, sink: &mut Sink| -> Option<BiInterval> {
        match guard(f) {
            Err(msg) => {
                sink.violation(
                    format!("C06/{}/panic", entry),
                    format!("producing the interval of substring [{},{}): {}", s, e, msg),
                );
                None
            }
            Ok(iv) => {
                if check_biinterval(b, &orc, &iv, s, e, entry, true, sink) {
                    Some(iv)
                } else {
                    None
                }
            }
        }
    };
    for s in 0..m {
        if let Some(em) = empty {
            step("backward_ext", &|| fmd.backward_ext(&em, p[s]), s, s + 1, &mut sink);
            step("forward_ext", &|| fmd.forward_ext(&em, p[s]), s, s + 1, &mut sink);
        }
        let mut cur = step("init_interval_with", &|| fmd.init_interval_with(p[s]), s, s + 1, &mut sink);
        table[s * (m + 1) + s + 1] = cur;
        for e in s + 2..=m {
            let prev = match cur {
                Some(x) => x,
                None => break,
            };
            cur = step("forward_ext", &|| fmd.forward_ext(&prev, p[e - 1]), s, e, &mut sink);
            table[s * (m + 1) + e] = cur;
        }
    }
    for s in 1..m {
        for e in s + 1..=m {
            if let Some(iv) = table[s * (m + 1) + e] {
                step("backward_ext", &|| fmd.backward_ext(&iv, p[s - 1]), s - 1, e, &mut sink);
            }
        }
    }
    if let Some(whole) = table[m] {
        cc.outcome(&(whole.forward(), whole.revcomp()));
    }
    // one violation per key and case (the first one), so that the per-key counts are case counts
    let mut seen: Vec<String> = vec![];
    for (k, d) in sink.0 {
        if !seen.contains(&k) {
            seen.push(k.clone());
            cc.violation(k, d);
        }
    }
}

// ------------------------------------------------------------------ enumeration

struct Family {
    name: &'static str,
    seq_alpha: &'static [u8],
    /// closure of seq_alpha under complement
    pat_alpha: &'static [u8],
    /// (quick, thorough) maximum lengths
    single: (usize, usize),
    pair: (usize, usize),
    triple: (usize, usize),
    pat: (usize, usize),
}

const FAMILIES: &[Family] = &[
    Family { name: "ACN", seq_alpha: b"ACN", pat_alpha: b"ACGTN", single: (6, 6), pair: (2, 3), triple: (1, 1), pat: (4, 5) },
    Family { name: "ACGT", seq_alpha: b"ACGT", pat_alpha: b"ACGT", single: (5, 6), pair: (2, 2), triple: (1, 1), pat: (5, 5) },
    Family { name: "ACGTNa", seq_alpha: b"ACGTNa", pat_alpha: b"ACGTNat", single: (4, 4), pair: (1, 2), triple: (0, 0), pat: (3, 4) },
    Family { name: "acnT", seq_alpha: b"acnT", pat_alpha: b"acgtnTA", single: (4, 5), pair: (2, 2), triple: (1, 1), pat: (3, 4) },
];

fn rates(tier: Tier) -> &'static [u32] {
    match tier {
        Tier::Quick => &[1, 3],
        Tier::Thorough => &[1, 2, 3, 128],
    }
}

fn lmax(tier: Tier) -> usize {
    tier.pick(3, 6)
}

/// pattern bound of the route units: one symbol shorter than in the main units
fn route_pat_len(f: &Family, tier: Tier) -> usize {
    tier.pick(f.pat.0, f.pat.1) - 1
}

fn family_sets(f: &Family, tier: Tier) -> Vec<Vec<Vec<u8>>> {
    let mut sets: Vec<Vec<Vec<u8>>> = gen::strings(f.seq_alpha, 1, tier.pick(f.single.0, f.single.1))
        .into_iter()
        .map(|s| vec![s])
        .collect();
    let pl = tier.pick(f.pair.0, f.pair.1);
    if pl > 0 {
        let short = gen::strings(f.seq_alpha, 1, pl);
        for a in &short {
            for b in &short {
                sets.push(vec![a.clone(), b.clone()]);
            }
        }
    }
    let tl = tier.pick(f.triple.0, f.triple.1);
    if tl > 0 {
        let short = gen::strings(f.seq_alpha, 1, tl);
        for a in &short {
            for b in &short {
                for c in &short {
                    sets.push(vec![a.clone(), b.clone(), c.clone()]);
                }
            }
        }
    }
    sets
}

fn desc(seqs: &[Vec<u8>], rate: u32, p: &[u8], lmax: usize) -> Value {
    json!({
        "kind": "smem",
        "seqs": seqs.iter().map(|s| show(s)).collect::<Vec<_>>(),
        "rate": rate,
        "p": show(p),
        "lmax": lmax,
    })
}

/// all cases of one sequence set: every rate x every pattern.  `only` restricts to one pattern (replay).
fn run_set(ctx: &mut Ctx, seqs: &[Vec<u8>], rates: &[u32], pats: &[Vec<u8>], lmax: usize) {
    let built = match guard(|| build(seqs)) {
        Ok(b) => b,
        Err(msg) => {
            ctx.case(
                || json!({"kind": "build", "seqs": seqs.iter().map(|s| show(s)).collect::<Vec<_>>()}),
                |cc| cc.violation("C06/index-construction/panic", format!("suffix array / BWT / less: {}", msg)),
            );
            return;
        }
    };
    let alphabet = dna::n_alphabet();
    for &k in rates {
        let occ = match guard(|| Occ::new(&built.bwt, k, &alphabet)) {
            Ok(o) => o,
            Err(msg) => {
                ctx.case(
                    || json!({"kind": "build", "seqs": seqs.iter().map(|s| show(s)).collect::<Vec<_>>(), "rate": k}),
                    |cc| cc.violation("C06/index-construction/panic", format!("Occ::new: {}", msg)),
                );
                continue;
            }
        };
        let fmd: Fmd = match guard(|| FMDIndex::from(FMIndex::new(&built.bwt, &built.less, &occ))) {
            Ok(f) => f,
            Err(msg) => {
                ctx.case(
                    || json!({"kind": "build", "seqs": seqs.iter().map(|s| show(s)).collect::<Vec<_>>(), "rate": k}),
                    |cc| cc.violation("C06/index-construction/panic", format!("FMDIndex::from: {}", msg)),
                );
                continue;
            }
        };
        for p in pats {
            ctx.case(|| desc(seqs, k, p, lmax), |cc| check_case(&built, &fmd, p, lmax, cc));
        }
        if ctx.res.capped {
            return;
        }
    }
}

const NSHARDS: usize = 48;

// ------------------------------------------------------------------ alternative routes
//
// (1) `unsafe FMDIndex::from_fmindex_unchecked` is `FMDIndex::from` without the alphabet check: on
//     a valid DNA text both must give an index that answers identically (smems, all_smems, every
//     extension step).  (2) `impl FMIndexable for FMDIndex` delegates occ / less / bwt /
//     backward_search to the wrapped FM index: the answers through the wrapper must be those of a
//     plain FMIndex over the same components.  The index returned by `from` is the one the main
//     units compare with the naive scan over the same (set, rate, pattern) space.

const ROUTE_SHARDS: usize = 8;
/// every symbol the index alphabet (dna::n_alphabet() plus sentinel) contains
const INDEX_SYMBOLS: &[u8] = b"$ACGTNacgtn";

type Fm<'a> = FMIndex<&'a BWT, &'a Less, &'a Occ>;

struct Routes<'a> {
    built: &'a Built,
    occ: &'a Occ,
    fm: Fm<'a>,
    fmd: Fmd<'a>,
    unchecked: Fmd<'a>,
}

/// kind "routes-index": what does not depend on a pattern
fn check_routes_index(r: &Routes, cc: &mut CaseCtx) {
    cc.nontrivial();
    let n = r.built.text.len();
    if r.unchecked != r.fmd {
        cc.violation(
            "C06/from_fmindex_unchecked/index-differs",
            format!("text {:?}: from_fmindex_unchecked(fm) != FMDIndex::from(fm)", show(&r.built.text)),
        );
    }
    for (name, idx) in [("from", &r.fmd), ("unchecked", &r.unchecked)] {
        let res = guard(|| {
            let mut bad: Option<String> = None;
            if idx.bwt() != &r.built.bwt {
                bad = Some(format!("bwt() = {:?}, index was built over {:?}", show(idx.bwt()), show(&r.built.bwt)));
            }
            let mut acc = 0u64;
            for &a in INDEX_SYMBOLS {
                let (got, want) = (idx.less(a), r.fm.less(a));
                if got != want || want != r.built.less[a as usize] {
                    bad.get_or_insert(format!("less({:?}) = {} through the FMD index, {} through FMIndex, table entry {}", a as char, got, want, r.built.less[a as usize]));
                }
                for row in 0..n {
                    let (got, want) = (idx.occ(row, a), r.fm.occ(row, a));
                    acc = acc.wrapping_mul(31).wrapping_add(got as u64);
                    if got != want || want != r.occ.get(&r.built.bwt, row, a) {
                        bad.get_or_insert(format!("occ({}, {:?}) = {} through the FMD index, {} through FMIndex", row, a as char, got, want));
                    }
                }
            }
            (bad, acc)
        });
        match res {
            Err(msg) => cc.violation("C06/fmd-as-fmindexable/panic", format!("index via {}: {}", name, msg)),
            Ok((bad, acc)) => {
                cc.outcome(&acc);
                if let Some(d) = bad {
                    cc.violation("C06/fmd-as-fmindexable/accessor-differs", format!("text {:?}, index via {}: {}", show(&r.built.text), name, d));
                }
            }
        }
    }
}

/// kind "routes": one pattern through both constructors and through the trait
fn check_routes(r: &Routes, p: &[u8], lmax: usize, cc: &mut CaseCtx) {
    let m = p.len();
    let mut sink = Sink::default();
    // ---- FMIndexable::backward_search through the wrapper
    let plain = guard(|| r.fm.backward_search(p.iter()));
    for (name, idx) in [("from", &r.fmd), ("unchecked", &r.unchecked)] {
        let got = guard(|| idx.backward_search(p.iter()));
        if let Err(msg) = &got {
            sink.violation("C06/fmd-as-fmindexable/panic", format!("backward_search on the index via {}: {}", name, msg));
        } else if plain.is_ok() && got != plain {
            sink.violation(
                "C06/fmd-as-fmindexable/backward_search-differs",
                format!("index via {}: FMDIndex::backward_search = {:?}, FMIndex::backward_search = {:?}", name, got, plain),
            );
        }
    }
    if let Ok(b) = &plain {
        cc.outcome(b);
    }
    // ---- smems / all_smems through both constructors
    for i in 0..m {
        for l in 1..=lmax {
            let a = guard(|| r.fmd.smems(p, i, l));
            let b = guard(|| r.unchecked.smems(p, i, l));
            match (&a, &b) {
                (_, Err(msg)) => sink.violation("C06/from_fmindex_unchecked/panic", format!("smems(p, {}, {}): {}", i, l, msg)),
                (Ok(x), Ok(y)) if x != y => sink.violation(
                    "C06/from_fmindex_unchecked/smems-differ",
                    format!("smems(p, {}, {}): via from {:?}, via from_fmindex_unchecked {:?}", i, l, x, y),
                ),
                _ => {}
            }
        }
    }
    for l in 1..=lmax {
        let a = guard(|| r.fmd.all_smems(p, l));
        let b = guard(|| r.unchecked.all_smems(p, l));
        if l == 1 {
            if let Ok(x) = &a {
                let mut spans: Vec<(usize, usize)> = x.iter().map(|t| (t.1, t.2)).collect();
                spans.sort();
                spans.dedup();
                cc.set_nontrivial(spans.len() >= 2);
                cc.outcome(&spans);
            }
        }
        match (&a, &b) {
            (_, Err(msg)) => sink.violation("C06/from_fmindex_unchecked/panic", format!("all_smems(p, {}): {}", l, msg)),
            (Ok(x), Ok(y)) if x != y => sink.violation(
                "C06/from_fmindex_unchecked/smems-differ",
                format!("all_smems(p, {}): via from {:?}, via from_fmindex_unchecked {:?}", l, x, y),
            ),
            _ => {}
        }
    }
    // ---- extensions: the same chains as in the main case, executed on both indexes side by side
    let both = |what: String, f: &dyn Fn(&Fmd) -> BiInterval, sink: &mut Sink| -> Option<BiInterval> {
        let a = guard(|| f(&r.fmd));
        let b = guard(|| f(&r.unchecked));
        match (a, b) {
            (_, Err(msg)) => {
                sink.violation("C06/from_fmindex_unchecked/panic", format!("{}: {}", what, msg));
                None
            }
            (Ok(x), Ok(y)) => {
                if x != y {
                    sink.violation(
                        "C06/from_fmindex_unchecked/extension-differs",
                        format!("{}: via from {:?}, via from_fmindex_unchecked {:?}", what, x, y),
                    );
                    None
                } else {
                    Some(x)
                }
            }
            (Err(_), Ok(_)) => None, // a panic of the index built by `from` is reported by the main units
        }
    };
    let empty = both("init_interval()".into(), &|f| f.init_interval(), &mut sink);
    for s in 0..m {
        if let Some(em) = empty {
            both(format!("backward_ext(empty, p[{}])", s), &|f| f.backward_ext(&em, p[s]), &mut sink);
            both(format!("forward_ext(empty, p[{}])", s), &|f| f.forward_ext(&em, p[s]), &mut sink);
        }
        let mut cur = both(format!("init_interval_with(p[{}])", s), &|f| f.init_interval_with(p[s]), &mut sink);
        for e in s + 2..=m {
            let prev = match cur {
                Some(x) => x,
                None => break,
            };
            if s > 0 {
                both(format!("backward_ext([{},{}), p[{}])", s, e - 1, s - 1), &|f| f.backward_ext(&prev, p[s - 1]), &mut sink);
            }
            cur = both(format!("forward_ext([{},{}), p[{}])", s, e - 1, e - 1), &|f| f.forward_ext(&prev, p[e - 1]), &mut sink);
        }
        if let (Some(last), true) = (cur, s > 0) {
            both(format!("backward_ext([{},{}), p[{}])", s, m, s - 1), &|f| f.backward_ext(&last, p[s - 1]), &mut sink);
        }
    }
    let mut seen: Vec<String> = vec![];
    for (k, d) in sink.0 {
        if !seen.contains(&k) {
            seen.push(k.clone());
            cc.violation(k, d);
        }
    }
}

fn seqs_json(seqs: &[Vec<u8>]) -> Vec<String> {
    seqs.iter().map(|s| show(s)).collect()
}

/// all route cases of one sequence set: per rate one "routes-index" case and one "routes" case per
/// pattern.  `index_case` = false restricts to the pattern cases (replay of one of them).
fn run_routes(ctx: &mut Ctx, seqs: &[Vec<u8>], rates: &[u32], pats: &[Vec<u8>], lmax: usize, index_case: bool) {
    let built = match guard(|| build(seqs)) {
        Ok(b) => b,
        Err(_) => return, // reported by the main units (C06/index-construction/panic)
    };
    let alphabet = dna::n_alphabet();
    for &k in rates {
        let occ = match guard(|| Occ::new(&built.bwt, k, &alphabet)) {
            Ok(o) => o,
            Err(_) => continue, // reported by the main units
        };
        let fmd: Fmd = match guard(|| FMDIndex::from(FMIndex::new(&built.bwt, &built.less, &occ))) {
            Ok(f) => f,
            Err(_) => continue, // reported by the main units
        };
        // the text is over the DNA alphabet by construction, which is the documented precondition
        let unchecked: Fmd = match guard(|| unsafe { FMDIndex::from_fmindex_unchecked(FMIndex::new(&built.bwt, &built.less, &occ)) }) {
            Ok(f) => f,
            Err(msg) => {
                ctx.case(
                    || json!({"kind": "routes-index", "seqs": seqs_json(seqs), "rate": k}),
                    |cc| cc.violation("C06/from_fmindex_unchecked/panic", format!("construction: {}", msg)),
                );
                continue;
            }
        };
        let r = Routes { built: &built, occ: &occ, fm: FMIndex::new(&built.bwt, &built.less, &occ), fmd, unchecked };
        if index_case {
            ctx.case(|| json!({"kind": "routes-index", "seqs": seqs_json(seqs), "rate": k}), |cc| check_routes_index(&r, cc));
        }
        for p in pats {
            ctx.case(
                || json!({"kind": "routes", "seqs": seqs_json(seqs), "rate": k, "p": show(p), "lmax": lmax}),
                |cc| check_routes(&r, p, lmax, cc),
            );
        }
        if ctx.res.capped {
            return;
        }
    }
}

impl Prop for C06Prop {
    fn id(&self) -> &'static str {
        "C06"
    }
    fn level(&self) -> &'static str {
        "exploration"
    }
    fn rule(&self) -> &'static str {
        "Complete product, per alphabet family, of (sequence set: every single sequence, every ordered pair and every ordered triple up to the family's length bounds) x (Occ sampling rate) x (every pattern over the complement-closure of the family's alphabet up to the pattern bound); one case per triple, each enumerated once. Inside a case: smems(p,i,l) for every i < |p| and l in 1..=lmax, all_smems(p,l) for the same l, and every one-symbol forward and backward extension of every substring of p (and of the empty string). Non-trivial: some pattern position is covered by at least two different supermaximal matches (so the pattern has SMEMs that are proper substrings and smems() has to return more than one of them). Units routes-*: over the same sequence sets and rates (patterns one symbol shorter), kind routes-index = one (set, rate): the index from the unsafe constructor from_fmindex_unchecked equals the one from FMDIndex::from, and bwt()/less(a)/occ(r,a) of the FMIndexable implementation of FMDIndex equal those of a plain FMIndex over the same components for every row and every alphabet symbol; kind routes = one (set, rate, pattern): FMDIndex::backward_search equals FMIndex::backward_search, and smems(p,i,l), all_smems(p,l) and every extension step of the main case give identical results on the two differently constructed indexes (non-trivial: the pattern has at least two distinct SMEMs)."
    }
    fn assumptions(&self) -> Vec<&'static str> {
        vec![
            "oracle: naive substring scan of the text for every pattern substring and its reverse complement; SMEM = occurs, and neither one-symbol extension inside the pattern occurs",
            "text and reverse complements are built by the harness (own complement table), index by bio's suffix_array/bwt/less/Occ with dna::n_alphabet() (trusted base of C03-C05; a defect there shows up here as a wrong interval)",
            "occurrences are read from the full suffix array vector",
            "order of results is not checked; duplicates are tolerated in all_smems only; l = 0 and patterns outside the DNA alphabet are outside the statement; BiInterval::match_size is not checked",
            "extension of an empty bi-interval must stay empty and must not panic",
            "routes: from_fmindex_unchecked is only used on texts that satisfy its documented precondition (DNA alphabet, sequence followed by reverse complement); equality of results includes their order, since both indexes run the same code on equal components",
        ]
    }
    fn bounds(&self, tier: Tier) -> Value {
        let fams: Vec<Value> = FAMILIES
            .iter()
            .map(|f| {
                let nsets = family_sets(f, tier).len();
                let npats = gen::count_strings(f.pat_alpha.len(), 1, tier.pick(f.pat.0, f.pat.1));
                json!({
                    "family": f.name,
                    "sequence_alphabet": show(f.seq_alpha),
                    "pattern_alphabet": show(f.pat_alpha),
                    "single_sequence_len": format!("1..={}", tier.pick(f.single.0, f.single.1)),
                    "ordered_pairs_len": format!("1..={}", tier.pick(f.pair.0, f.pair.1)),
                    "ordered_triples_len": tier.pick(f.triple.0, f.triple.1),
                    "pattern_len": format!("1..={}", tier.pick(f.pat.0, f.pat.1)),
                    "sets": nsets,
                    "patterns": npats,
                })
            })
            .collect();
        json!({
            "families": fams,
            "occ_rates": rates(tier),
            "positions": "every i < |p|",
            "min_len_l": format!("1..={}", lmax(tier)),
            "routes": {"sets_and_rates": "as above", "pattern_len": FAMILIES.iter().map(|f| format!("{}: 1..={}", f.name, route_pat_len(f, tier))).collect::<Vec<_>>(), "index_symbols": show(INDEX_SYMBOLS)},
        })
    }
    fn units(&self, _tier: Tier) -> Vec<String> {
        let mut v: Vec<String> = (0..NSHARDS).map(|i| format!("sets-{}", i)).collect();
        v.extend((0..ROUTE_SHARDS).map(|i| format!("routes-{}", i)));
        v
    }
    fn run_unit(&self, tier: Tier, unit: usize, ctx: &mut Ctx) {
        if unit >= NSHARDS {
            let shard = unit - NSHARDS;
            let mut idx = 0usize;
            for f in FAMILIES {
                let pats = gen::strings(f.pat_alpha, 1, route_pat_len(f, tier));
                for set in family_sets(f, tier) {
                    idx += 1;
                    if idx % ROUTE_SHARDS != shard {
                        continue;
                    }
                    run_routes(ctx, &set, rates(tier), &pats, lmax(tier), true);
                    if ctx.res.capped {
                        return;
                    }
                }
            }
            return;
        }
        let mut idx = 0usize;
        for f in FAMILIES {
            let pats = gen::strings(f.pat_alpha, 1, tier.pick(f.pat.0, f.pat.1));
            for set in family_sets(f, tier) {
                idx += 1;
                if idx % NSHARDS != unit {
                    continue;
                }
                run_set(ctx, &set, rates(tier), &pats, lmax(tier));
                if ctx.res.capped {
                    return;
                }
            }
        }
    }
    fn replay(&self, case: &Value, ctx: &mut Ctx) {
        let seqs: Vec<Vec<u8>> = case["seqs"]
            .as_array()
            .map(|a| a.iter().map(|s| unshow(s.as_str().unwrap_or(""))).collect())
            .unwrap_or_default();
        let rate = case["rate"].as_u64().unwrap_or(1) as u32;
        if case["kind"] == "routes-index" {
            run_routes(ctx, &seqs, &[rate], &[], 1, true);
            return;
        }
        if case["kind"] == "routes" {
            let p = unshow(case["p"].as_str().unwrap_or(""));
            let lm = case["lmax"].as_u64().unwrap_or(3) as usize;
            run_routes(ctx, &seqs, &[rate], &[p], lm, false);
            return;
        }
        if case["kind"] == "build" {
            run_set(ctx, &seqs, &[rate], &[], 1);
            return;
        }
        let p = unshow(case["p"].as_str().unwrap_or(""));
        let lm = case["lmax"].as_u64().unwrap_or(3) as usize;
        run_set(ctx, &seqs, &[rate], &[p], lm);
    }
}
