//! C16 — partial-order alignment: exact on linear graphs, graph stays a growing DAG, consensus.
//!
//! K1: every (reference, query, scoring) triple of the linear-graph clause: `global` score ==
//!     Needleman-Wunsch with a per-base gap penalty, the operation list (read through the serde
//!     rendering of `poa::Alignment`) is a valid alignment of the query to the reference whose
//!     recomputed score equals the reported one, `global_banded` with a wide band gives the same score.
//! K2: breadth-first search over histories of align-and-add operations on the real `Aligner`;
//!     state key = node labels + weighted edge list (in edge-index order) of the real graph.
//!     After every addition: acyclic, labels/edges monotone, node growth <= |q|, consensus non-empty
//!     and spelled by a path.
//! K1: identity clause — the reference added to its own graph k times.
//! K1 (appended): narrow bands (the out-of-band paths of the banded traceback), `Poa::new` as an
//!     equivalent route to the `Aligner` that owns the graph, `Poa::edges`.

use super::Prop;
use crate::bfs;
use crate::ctx::{guard, show, unshow, CaseCtx, Ctx, Tier};
use crate::gen;
use bio::alignment::pairwise::{MatchFunc, Scoring};
use bio::alignment::poa::{Aligner, Alignment, AlignmentOperation, POAGraph, Poa, MIN_SCORE};
use serde::{Deserialize, Serialize};
use serde_json::{json, Value};

pub struct C16Prop;
pub static C16: C16Prop = C16Prop;

// ---------------------------------------------------------------- scorings

/// substitution table over the abstract symbols a,b,c (every other byte counts as c);
/// `score(reference symbol, query symbol)`
#[derive(Clone, Debug)]
pub struct Table {
    m: [[i32; 3]; 3],
}

fn sym(x: u8) -> usize {
    match x {
        b'a' => 0,
        b'b' => 1,
        _ => 2,
    }
}

impl MatchFunc for Table {
    fn score(&self, a: u8, b: u8) -> i32 {
        self.m[sym(a)][sym(b)]
    }
}

const fn uniform(ma: i32, mi: i32) -> [[i32; 3]; 3] {
    [[ma, mi, mi], [mi, ma, mi], [mi, mi, ma]]
}

/// (name, table[ref][query], per-base gap penalty)
const SCORINGS: [(&str, [[i32; 3]; 3], i32); 8] = [
    ("+1/-1/gap-1", uniform(1, -1), -1),
    ("+2/-3/gap-2", uniform(2, -3), -2),
    ("+1/-1/gap0", uniform(1, -1), 0),
    ("0/-1/gap-1", uniform(0, -1), -1),
    ("+3/-1/gap-4", uniform(3, -1), -4),
    ("asym[[2,-1,-2],[0,1,-1],[-3,-1,3]]/gap-1", [[2, -1, -2], [0, 1, -1], [-3, -1, 3]], -1),
    ("+1/0/gap-1", uniform(1, 0), -1),
    ("asym[[1,1,-1],[-2,2,0],[0,-3,1]]/gap-2", [[1, 1, -1], [-2, 2, 0], [0, -3, 1]], -2),
];

fn table(si: usize) -> Table {
    Table { m: SCORINGS[si].1 }
}

fn gap(si: usize) -> i32 {
    SCORINGS[si].2
}

/// `clips`: configure clip penalties of -1 (seen by `custom` and `global_banded`; `global`,
/// `semiglobal`, `local` override them for the duration of the call)
fn scoring(si: usize, clips: bool) -> Scoring<Table> {
    let s = Scoring::new(gap(si), 0, table(si));
    if clips {
        s.xclip(-1).yclip(-1)
    } else {
        s
    }
}

// ---------------------------------------------------------------- reference models

/// Needleman-Wunsch with a per-base gap penalty; also the number (saturating at 2) of optimal
/// lattice paths, to know whether the optimum is unique.
fn nw(r: &[u8], q: &[u8], t: &Table, g: i32) -> (i64, u8) {
    let g = g as i64;
    let (m, n) = (r.len(), q.len());
    let mut d = vec![vec![(0i64, 1u8); n + 1]; m + 1];
    for j in 1..=n {
        d[0][j] = (j as i64 * g, 1);
    }
    for i in 1..=m {
        d[i][0] = (i as i64 * g, 1);
        for j in 1..=n {
            let cands = [
                (d[i - 1][j - 1].0 + t.score(r[i - 1], q[j - 1]) as i64, d[i - 1][j - 1].1),
                (d[i - 1][j].0 + g, d[i - 1][j].1),
                (d[i][j - 1].0 + g, d[i][j - 1].1),
            ];
            let best = cands.iter().map(|c| c.0).max().unwrap();
            let cnt: u32 = cands.iter().filter(|c| c.0 == best).map(|c| c.1 as u32).sum();
            d[i][j] = (best, cnt.min(2) as u8);
        }
    }
    d[m][n]
}

#[derive(Deserialize)]
struct AlnMirror {
    #[allow(dead_code)]
    score: i32,
    operations: Vec<AlignmentOperation>,
}

/// the private operation list, through the type's own Serialize impl
fn ops_of(a: &Alignment) -> Result<Vec<AlignmentOperation>, String> {
    let v = serde_json::to_value(a).map_err(|e| e.to_string())?;
    let m: AlnMirror = serde_json::from_value(v).map_err(|e| e.to_string())?;
    Ok(m.operations)
}

/// walk an operation list along the linear graph of `r`; returns the recomputed score
fn walk_linear(r: &[u8], q: &[u8], ops: &[AlignmentOperation], t: &Table, g: i32) -> Result<i64, String> {
    let (mut ri, mut qi, mut s) = (0usize, 0usize, 0i64);
    for (k, op) in ops.iter().enumerate() {
        match *op {
            AlignmentOperation::Match(None) => {
                if ri != 0 {
                    return Err(format!("op {}: Match(None) (head node) after {} nodes were consumed", k, ri));
                }
                if qi >= q.len() || r.is_empty() {
                    return Err(format!("op {}: Match past the end of the query", k));
                }
                s += t.score(r[0], q[qi]) as i64;
                ri = 1;
                qi += 1;
            }
            AlignmentOperation::Match(Some((_, n))) => {
                if n != ri {
                    return Err(format!("op {}: Match on node {} but the next unconsumed node is {}", k, n, ri));
                }
                if qi >= q.len() || ri >= r.len() {
                    return Err(format!("op {}: Match past the end (node {}, query {})", k, ri, qi));
                }
                s += t.score(r[ri], q[qi]) as i64;
                ri += 1;
                qi += 1;
            }
            AlignmentOperation::Del(_) => {
                if ri >= r.len() {
                    return Err(format!("op {}: Del past the last node", k));
                }
                s += g as i64;
                ri += 1;
            }
            AlignmentOperation::Ins(_) => {
                if qi >= q.len() {
                    return Err(format!("op {}: Ins past the end of the query", k));
                }
                s += g as i64;
                qi += 1;
            }
            AlignmentOperation::Xclip(_) | AlignmentOperation::Yclip(_, _) => {
                return Err(format!("op {}: clip operation in a global alignment", k));
            }
        }
    }
    if ri != r.len() || qi != q.len() {
        return Err(format!(
            "operations consume {} of {} nodes and {} of {} query symbols",
            ri,
            r.len(),
            qi,
            q.len()
        ));
    }
    Ok(s)
}

// ---------------------------------------------------------------- graph observation

#[derive(Clone, Debug, PartialEq, Eq, Hash)]
struct Snap {
    labels: Vec<u8>,
    /// (source, target, weight) in edge-index order
    edges: Vec<(usize, usize, i32)>,
}

fn snap(g: &POAGraph) -> Snap {
    Snap {
        labels: g.raw_nodes().iter().map(|n| n.weight).collect(),
        edges: g
            .raw_edges()
            .iter()
            .map(|e| (e.source().index(), e.target().index(), e.weight))
            .collect(),
    }
}

/// exact, compact rendering of the graph for the visited set: labels, 0xFF, then per edge (in
/// edge-index order) source, target as u16 and weight as i32
fn state_key(g: &POAGraph) -> Vec<u8> {
    let mut k: Vec<u8> = Vec::with_capacity(g.node_count() + 1 + 8 * g.edge_count());
    k.extend(g.raw_nodes().iter().map(|n| n.weight));
    k.push(0xFF);
    for e in g.raw_edges() {
        assert!(e.source().index() < 65536 && e.target().index() < 65536);
        k.extend_from_slice(&(e.source().index() as u16).to_le_bytes());
        k.extend_from_slice(&(e.target().index() as u16).to_le_bytes());
        k.extend_from_slice(&e.weight.to_le_bytes());
    }
    k
}

/// summed weight per (source, target) pair, sorted
fn pair_weights(s: &Snap) -> Vec<((usize, usize), i64)> {
    let mut v: Vec<((usize, usize), i64)> = s.edges.iter().map(|&(a, b, w)| ((a, b), w as i64)).collect();
    v.sort();
    let mut out: Vec<((usize, usize), i64)> = vec![];
    for (k, w) in v {
        match out.last_mut() {
            Some(l) if l.0 == k => l.1 += w,
            _ => out.push((k, w)),
        }
    }
    out
}

/// number of "extra" successors / predecessors / sources: 0 exactly for a simple path
fn branchiness(s: &Snap) -> usize {
    let n = s.labels.len();
    let pw = pair_weights(s);
    let mut outd = vec![0usize; n];
    let mut ind = vec![0usize; n];
    for ((a, b), _) in &pw {
        outd[*a] += 1;
        ind[*b] += 1;
    }
    let sources = ind.iter().filter(|&&d| d == 0).count();
    outd.iter().map(|d| d.saturating_sub(1)).sum::<usize>()
        + ind.iter().map(|d| d.saturating_sub(1)).sum::<usize>()
        + sources.saturating_sub(1)
}

/// independent acyclicity test (Kahn) on the snapshot
fn acyclic(s: &Snap) -> bool {
    let n = s.labels.len();
    let mut ind = vec![0usize; n];
    for &(_, b, _) in &s.edges {
        ind[b] += 1;
    }
    let mut stack: Vec<usize> = (0..n).filter(|&i| ind[i] == 0).collect();
    let mut seen = 0usize;
    while let Some(v) = stack.pop() {
        seen += 1;
        for &(a, b, _) in &s.edges {
            if a == v {
                ind[b] -= 1;
                if ind[b] == 0 {
                    stack.push(b);
                }
            }
        }
    }
    seen == n
}

/// is `c` the label sequence of a directed path?
fn spelled_by_path(s: &Snap, c: &[u8]) -> bool {
    if c.is_empty() {
        return false;
    }
    let n = s.labels.len();
    let mut cur: Vec<bool> = (0..n).map(|i| s.labels[i] == c[0]).collect();
    for &x in &c[1..] {
        let mut nxt = vec![false; n];
        for &(a, b, _) in &s.edges {
            if cur[a] && s.labels[b] == x {
                nxt[b] = true;
            }
        }
        cur = nxt;
    }
    cur.iter().any(|&b| b)
}

/// consensus clause on the current graph; returns the consensus when it could be computed
fn check_consensus(al: &Aligner<Table>, s: &Snap, cc: &mut CaseCtx) -> Option<Vec<u8>> {
    match guard(|| al.consensus()) {
        Err(msg) => {
            let key = if s.edges.is_empty() {
                "C16/consensus/edgeless-graph/panic"
            } else {
                "C16/consensus/panic"
            };
            cc.violation(key, format!("consensus() panicked on graph {}: {}", show_snap(s), msg));
            None
        }
        Ok(c) => {
            if c.is_empty() {
                cc.violation("C16/consensus/empty", format!("empty consensus on graph {}", show_snap(s)));
            } else if !spelled_by_path(s, &c) {
                cc.violation(
                    "C16/consensus/not-a-path",
                    format!("consensus {:?} is not spelled by any path of {}", show(&c), show_snap(s)),
                );
            }
            Some(c)
        }
    }
}

fn show_snap(s: &Snap) -> String {
    format!("nodes {:?} edges {:?}", show(&s.labels), s.edges)
}

/// monotonicity / growth / acyclicity clause for one addition
fn check_growth(old: &Snap, new: &Snap, g: &POAGraph, qlen: usize, mode: &str, cc: &mut CaseCtx) -> bool {
    let mut ok = true;
    if new.labels.len() < old.labels.len() {
        cc.violation(
            format!("C16/add_to_graph/{}/node-removed", mode),
            format!("{} -> {}", show_snap(old), show_snap(new)),
        );
        return false;
    }
    if new.labels[..old.labels.len()] != old.labels[..] {
        cc.violation(
            format!("C16/add_to_graph/{}/node-label-changed", mode),
            format!("{} -> {}", show_snap(old), show_snap(new)),
        );
        ok = false;
    }
    if new.labels.len() - old.labels.len() > qlen {
        cc.violation(
            format!("C16/add_to_graph/{}/node-growth-exceeds-query", mode),
            format!("query of {} symbols: {} -> {}", qlen, show_snap(old), show_snap(new)),
        );
        ok = false;
    }
    let (pw_old, pw_new) = (pair_weights(old), pair_weights(new));
    for (k, w) in &pw_old {
        match pw_new.binary_search_by(|x| x.0.cmp(k)) {
            Err(_) => {
                cc.violation(
                    format!("C16/add_to_graph/{}/edge-removed", mode),
                    format!("edge {:?} vanished: {} -> {}", k, show_snap(old), show_snap(new)),
                );
                ok = false;
                break;
            }
            Ok(p) => {
                if pw_new[p].1 < *w {
                    cc.violation(
                        format!("C16/add_to_graph/{}/edge-weight-decreased", mode),
                        format!("edge {:?} {} -> {}: {} -> {}", k, w, pw_new[p].1, show_snap(old), show_snap(new)),
                    );
                    ok = false;
                    break;
                }
            }
        }
    }
    let cyc_lib = petgraph::algo::is_cyclic_directed(g);
    if cyc_lib || !acyclic(new) {
        cc.violation(
            format!("C16/add_to_graph/{}/cycle", mode),
            format!("graph became cyclic: {} -> {}", show_snap(old), show_snap(new)),
        );
        ok = false;
    }
    ok
}

// ---------------------------------------------------------------- linear clause (K1)

fn check_linear(r: &[u8], q: &[u8], si: usize, bw_extra: &[usize], cc: &mut CaseCtx) {
    let t = table(si);
    let g = gap(si);
    let (want, _) = nw(r, q, &t, g);
    let ungapped: Option<i64> = if r.len() == q.len() {
        Some(r.iter().zip(q).map(|(a, b)| t.score(*a, *b) as i64).sum())
    } else {
        None
    };
    cc.set_nontrivial(match ungapped {
        None => r.len().min(q.len()) >= 1 && r.len().max(q.len()) >= 2,
        Some(u) => want > u,
    });
    let mut al = match guard(|| Aligner::new(scoring(si, false), r)) {
        Ok(a) => a,
        Err(msg) => {
            cc.violation("C16/new/linear/panic", msg);
            return;
        }
    };
    match guard(|| al.global(q).alignment()) {
        Err(msg) => {
            cc.violation("C16/global/linear/panic", msg);
            al = match guard(|| Aligner::new(scoring(si, false), r)) {
                Ok(a) => a,
                Err(_) => return,
            };
        }
        Ok(a) => {
            cc.outcome(&a);
            if a.score as i64 != want {
                cc.violation(
                    "C16/global/linear/score-differs-from-nw",
                    format!("global score {} Needleman-Wunsch {}", a.score, want),
                );
            }
            match ops_of(&a) {
                Err(e) => cc.violation("C16/global/linear/ops-unreadable", e),
                Ok(ops) => match walk_linear(r, q, &ops, &t, g) {
                    Err(e) => cc.violation("C16/global/linear/invalid-path", format!("{} ; ops {:?}", e, ops)),
                    Ok(s) => {
                        if s != a.score as i64 {
                            cc.violation(
                                "C16/global/linear/path-score-differs",
                                format!("reported {} but the operations score {} ; ops {:?}", a.score, s, ops),
                            );
                        }
                    }
                },
            }
        }
    }
    let big = r.len().max(q.len());
    for &e in bw_extra {
        let bw = big + e;
        match guard(|| al.global_banded(q, bw).alignment().score) {
            Err(msg) => {
                cc.violation("C16/global_banded/linear/panic", format!("bandwidth {}: {}", bw, msg));
                al = match guard(|| Aligner::new(scoring(si, false), r)) {
                    Ok(a) => a,
                    Err(_) => return,
                };
            }
            Ok(s) => {
                cc.outcome(&s);
                if s as i64 != want {
                    cc.violation(
                        "C16/global_banded/linear/score-differs",
                        format!("bandwidth {}: banded score {} Needleman-Wunsch {}", bw, s, want),
                    );
                }
            }
        }
    }
}

/// banded clause: bandwidth = max(|r|,|q|) + each of these
fn bw_extras(tier: Tier) -> &'static [usize] {
    match tier {
        Tier::Quick => &[0, 3],
        Tier::Thorough => &[0, 1, 3, 64],
    }
}

fn linear_strings(tier: Tier) -> Vec<Vec<u8>> {
    let mut v = gen::strings(b"ab", 1, tier.pick(8, 9));
    let l3 = tier.pick(4, 6);
    v.extend(gen::strings(b"abc", 1, l3).into_iter().filter(|s| s.contains(&b'c')));
    v
}

const LINEAR_SHARDS: usize = 15;

fn linear_unit(tier: Tier, shard: usize, ctx: &mut Ctx) {
    let strs = linear_strings(tier);
    let extra = bw_extras(tier);
    for (i, r) in strs.iter().enumerate() {
        // stride over references; interleave so that long and short references are spread evenly
        if i % LINEAR_SHARDS != shard {
            continue;
        }
        for q in &strs {
            for si in 0..SCORINGS.len() {
                ctx.case(
                    || json!({"kind": "linear", "r": show(r), "q": show(q), "scoring": si, "bw_extra": extra}),
                    |cc| check_linear(r, q, si, extra, cc),
                );
            }
        }
        if ctx.res.capped {
            break;
        }
    }
}

// ---------------------------------------------------------------- identity clause (K1)

fn check_identity(r: &[u8], si: usize, times: usize, cc: &mut CaseCtx) {
    let t = table(si);
    let diag: i64 = r.iter().map(|a| t.score(*a, *a) as i64).sum();
    let (best, cnt) = nw(r, r, &t, gap(si));
    // the clause is only demanded where the all-match alignment is the unique optimum, so that an
    // exact aligner has no choice
    let demanded = best == diag && cnt == 1;
    cc.set_nontrivial(demanded && r.len() >= 2);
    cc.outcome(&(demanded, best));
    if !demanded {
        return;
    }
    let mut al = Aligner::new(scoring(si, false), r);
    for k in 1..=times {
        let before = snap(al.graph());
        if let Err(msg) = guard(|| {
            al.global(r).add_to_graph();
        }) {
            cc.violation("C16/identity/panic", format!("addition {}: {}", k, msg));
            return;
        }
        let s = snap(al.graph());
        if s.labels != r {
            cc.violation(
                "C16/identity/nodes-changed",
                format!("after adding the reference {} time(s): {}", k, show_snap(&s)),
            );
            return;
        }
        check_growth(&before, &s, al.graph(), r.len(), "global", cc);
        if let Some(c) = check_consensus(&al, &s, cc) {
            cc.outcome(&c);
            if c != r {
                cc.violation(
                    "C16/identity/consensus-differs",
                    format!("after adding the reference {} time(s) consensus is {:?}; {}", k, show(&c), show_snap(&s)),
                );
                return;
            }
        }
    }
}

fn identity_strings(tier: Tier) -> Vec<Vec<u8>> {
    let mut v = gen::strings(b"ab", 1, tier.pick(9, 12));
    v.extend(
        gen::strings(b"abc", 1, tier.pick(5, 7))
            .into_iter()
            .filter(|s| s.contains(&b'c')),
    );
    v
}

const IDENTITY_SHARDS: usize = 1;

fn identity_unit(tier: Tier, shard: usize, ctx: &mut Ctx) {
    let times = tier.pick(3, 5);
    for (i, r) in identity_strings(tier).iter().enumerate() {
        if i % IDENTITY_SHARDS != shard {
            continue;
        }
        for si in 0..SCORINGS.len() {
            ctx.case(
                || json!({"kind": "identity", "r": show(r), "scoring": si, "times": times}),
                |cc| check_identity(r, si, times, cc),
            );
        }
    }
}

// ---------------------------------------------------------------- history clause (K2)

#[derive(Clone, Copy, Debug, PartialEq, Eq, Serialize, Deserialize)]
enum Mode {
    #[serde(rename = "global")]
    Global,
    #[serde(rename = "semiglobal")]
    Semiglobal,
    #[serde(rename = "local")]
    Local,
    #[serde(rename = "custom")]
    Custom,
    /// global_banded with bandwidth = |q| + node count (wider than everything)
    #[serde(rename = "global_banded")]
    Banded,
}

impl Mode {
    fn name(self) -> &'static str {
        match self {
            Mode::Global => "global",
            Mode::Semiglobal => "semiglobal",
            Mode::Local => "local",
            Mode::Custom => "custom",
            Mode::Banded => "global_banded",
        }
    }
}

#[derive(Clone, Debug, Serialize, Deserialize)]
struct HOp {
    mode: Mode,
    q: String,
}

#[derive(Clone)]
struct HState {
    al: Aligner<Table>,
}

fn hist_init(d: &Value) -> HState {
    let r = unshow(d["r"].as_str().unwrap_or("a"));
    let si = d["scoring"].as_u64().unwrap_or(0) as usize;
    let clips = d["family"] == "mixed";
    HState {
        al: Aligner::new(scoring(si, clips), &r),
    }
}

fn hist_check_init(s: &HState, cc: &mut CaseCtx) {
    let sn = snap(s.al.graph());
    if let Some(c) = check_consensus(&s.al, &sn, cc) {
        cc.outcome(&c);
        if c != sn.labels {
            // a graph built from one sequence: its only maximal path spells the sequence; the
            // consensus need only be *a* path, so this is not demanded — just observed
            cc.outcome(&"consensus-shorter-than-reference");
        }
    }
    cc.outcome(&sn);
}

fn hist_step(s: &HState, op: &HOp, cc: &mut CaseCtx) -> Option<HState> {
    let mut t = s.clone();
    let q = unshow(&op.q);
    let mode = op.mode.name();
    let old = snap(t.al.graph());
    let aligned = guard(|| {
        match op.mode {
            Mode::Global => {
                t.al.global(&q);
            }
            Mode::Semiglobal => {
                t.al.semiglobal(&q);
            }
            Mode::Local => {
                t.al.local(&q);
            }
            Mode::Custom => {
                t.al.custom(&q);
            }
            Mode::Banded => {
                let bw = q.len() + old.labels.len();
                t.al.global_banded(&q, bw);
            }
        }
        t.al.alignment()
    });
    let aln = match aligned {
        Ok(a) => a,
        Err(msg) => {
            cc.violation(
                format!("C16/align/{}/panic", mode),
                format!("aligning {:?} against {}: {}", op.q, show_snap(&old), msg),
            );
            return None;
        }
    };
    if let Err(msg) = guard(|| {
        t.al.add_to_graph();
    }) {
        cc.violation(
            format!("C16/add_to_graph/{}/panic", mode),
            format!("adding {:?} (alignment {:?}) to {}: {}", op.q, aln, show_snap(&old), msg),
        );
        return None;
    }
    let new = snap(t.al.graph());
    let ok = check_growth(&old, &new, t.al.graph(), q.len(), mode, cc);
    cc.set_nontrivial(branchiness(&new) > branchiness(&old));
    cc.outcome(&new);
    cc.outcome(&aln.score);
    if !ok {
        if cc.replaying {
            cc.outcome(&format!("{:?}", aln));
        }
        return None;
    }
    if let Some(c) = check_consensus(&t.al, &new, cc) {
        cc.outcome(&c);
    }
    Some(t)
}

struct HistCfg {
    family: &'static str,
    refs: Vec<Vec<u8>>,
    queries: Vec<Vec<u8>>,
    modes: Vec<Mode>,
    depth: usize,
}

fn hist_cfg(family: &str, tier: Tier) -> HistCfg {
    if family == "mixed" {
        HistCfg {
            family: "mixed",
            refs: gen::strings(b"ab", 1, tier.pick(3, 4)),
            queries: gen::strings(b"ab", 1, 3),
            modes: vec![Mode::Global, Mode::Semiglobal, Mode::Local, Mode::Custom, Mode::Banded],
            depth: tier.pick(3, 4),
        }
    } else {
        HistCfg {
            family: "global",
            refs: gen::strings(b"ab", 1, tier.pick(4, 5)),
            queries: gen::strings(b"ab", 1, 3),
            modes: vec![Mode::Global],
            depth: tier.pick(4, 5),
        }
    }
}

/// reference shards: references of one shard are explored in one search (states merged across them)
const GLOBAL_REF_SHARDS: usize = 4;
const MIXED_REF_SHARDS: usize = 2;
const MIXED_SCORINGS: [usize; 8] = [0, 1, 2, 3, 4, 5, 6, 7];

fn history_unit(family: &'static str, si: usize, shard: usize, nshards: usize, tier: Tier, ctx: &mut Ctx) {
    let cfg = hist_cfg(family, tier);
    let mut inits = vec![];
    for (i, r) in cfg.refs.iter().enumerate() {
        if i % nshards != shard {
            continue;
        }
        let d = json!({"r": show(r), "scoring": si, "family": cfg.family});
        let s = hist_init(&d);
        ctx.case(
            || json!({"kind": "history", "init": d, "ops": []}),
            |cc| hist_check_init(&s, cc),
        );
        inits.push((s, d));
    }
    let mut ops: Vec<HOp> = vec![];
    for q in &cfg.queries {
        for &m in &cfg.modes {
            ops.push(HOp { mode: m, q: show(q) });
        }
    }
    bfs::explore(
        ctx,
        inits,
        cfg.depth,
        |_s: &HState| ops.clone(),
        hist_step,
        |s: &HState| state_key(s.al.graph()),
        |o: &HOp| serde_json::to_value(o).unwrap(),
        json!({"depth": cfg.depth}),
    );
}

// ---------------------------------------------------------------- narrow bands (K1, appended)
//
// `global_banded` keeps, per graph node, only the columns within `bandwidth` of the column that
// held the best score so far.  With bandwidth >= max(|r|,|q|) (the clause above) every column is
// inside the band; the out-of-band answers of `Traceback::get` and the padded row start are only
// executed with narrower bands.  "if too small, alignment may be suboptimal" is all the rustdoc
// says about those, so what is demanded is: no panic; the score never exceeds the optimum; when
// the call reports a score that is not the "minus infinity" sentinel range, the operations form a
// valid alignment whose recomputed score is the reported one.

fn check_narrow(r: &[u8], q: &[u8], si: usize, cc: &mut CaseCtx) {
    let t = table(si);
    let g = gap(si);
    let (want, _) = nw(r, q, &t, g);
    let big = r.len().max(q.len());
    cc.set_nontrivial(big >= 2);
    let mut al = match guard(|| Aligner::new(scoring(si, false), r)) {
        Ok(a) => a,
        Err(msg) => {
            cc.violation("C16/new/linear/panic", msg);
            return;
        }
    };
    for bw in 0..big {
        match guard(|| al.global_banded(q, bw).alignment()) {
            Err(msg) => {
                cc.violation("C16/global_banded/narrow/panic", format!("bandwidth {}: {}", bw, msg));
                al = match guard(|| Aligner::new(scoring(si, false), r)) {
                    Ok(a) => a,
                    Err(_) => return,
                };
            }
            Ok(a) => {
                cc.outcome(&a);
                let sc = a.score as i64;
                if sc > want {
                    cc.violation("C16/global_banded/narrow/score-above-optimum", format!("bandwidth {}: banded score {} Needleman-Wunsch {}", bw, sc, want));
                }
                if sc == want {
                    cc.count("narrow_band_optimal", 1);
                } else if sc > (MIN_SCORE / 2) as i64 {
                    cc.count("narrow_band_suboptimal", 1);
                } else {
                    cc.count("narrow_band_no_alignment", 1);
                }
                if sc > (MIN_SCORE / 2) as i64 {
                    match ops_of(&a) {
                        Err(e) => cc.violation("C16/global_banded/narrow/ops-unreadable", e),
                        Ok(ops) => match walk_linear(r, q, &ops, &t, g) {
                            Err(e) => cc.violation("C16/global_banded/narrow/invalid-path", format!("bandwidth {}: {} ; score {} ops {:?}", bw, e, sc, ops)),
                            Ok(s) => {
                                if s != sc {
                                    cc.violation("C16/global_banded/narrow/path-score-differs", format!("bandwidth {}: reported {} but the operations score {} ; ops {:?}", bw, sc, s, ops));
                                }
                            }
                        },
                    }
                }
            }
        }
    }
}

const NARROW_SHARDS: usize = 4;

fn narrow_strings(tier: Tier) -> Vec<Vec<u8>> {
    gen::strings(b"ab", 1, tier.pick(6, 7))
}

fn narrow_unit(tier: Tier, shard: usize, ctx: &mut Ctx) {
    let strs = narrow_strings(tier);
    for (i, r) in strs.iter().enumerate() {
        if i % NARROW_SHARDS != shard {
            continue;
        }
        for q in &strs {
            for si in 0..SCORINGS.len() {
                ctx.case(|| json!({"kind": "narrow-band", "r": show(r), "q": show(q), "scoring": si}), |cc| check_narrow(r, q, si, cc));
            }
        }
        if ctx.res.capped {
            break;
        }
    }
}

// ---------------------------------------------------------------- Poa::new / Poa::edges (K1, appended)
//
// `Poa::new(scoring, graph)` builds the alignment engine from an existing graph; it must behave
// like the `Aligner` that owns the same graph: same `custom` / `global` / `global_banded` result
// on the next query, same graph after adding that query.  `Poa::edges(alignment)` ("return
// sequence of traversed edges; only supports alignments for sequences that have already been
// added, so all operations must be Match") is asserted where that contract is unambiguous: the
// alignment consists of Match operations only, every matched node carries the symbol aligned to
// it, and the path starts at node 0 (Match(None), the first operation, does not name its node and
// the function takes node 0 for it).  Paths that start at another source node are only observed
// and counted (see the report of this work package).

/// `r`, then every sequence of `adds` added through global(..).add_to_graph()
fn build_history(r: &[u8], adds: &[Vec<u8>], si: usize, clips: bool) -> Result<Aligner<Table>, String> {
    guard(|| {
        let mut al = Aligner::new(scoring(si, clips), r);
        for q in adds {
            al.global(q).add_to_graph();
        }
        al
    })
}

fn check_poa_new(r: &[u8], adds: &[Vec<u8>], si: usize, clips: bool, q: &[u8], cc: &mut CaseCtx) {
    let mut al = match build_history(r, adds, si, clips) {
        Ok(a) => a,
        Err(msg) => {
            cc.violation("C16/poa-new/setup/panic", msg);
            return;
        }
    };
    let base = snap(al.graph());
    cc.set_nontrivial(branchiness(&base) > 0);
    let graph0: POAGraph = al.graph().clone();
    let fresh = |with_clips: bool| guard(|| Poa::new(scoring(si, with_clips), graph0.clone()));
    let mut poa = match fresh(clips) {
        Ok(p) => p,
        Err(msg) => {
            cc.violation("C16/poa-new/panic", msg);
            return;
        }
    };
    if snap(&poa.graph) != base {
        cc.violation("C16/poa-new/graph-differs", format!("given {} ; holds {}", show_snap(&base), show_snap(&snap(&poa.graph))));
        return;
    }
    let nodes = base.labels.len();
    // custom (sees the configured clip penalties)
    let want_custom = guard(|| al.custom(q).alignment());
    let got_custom = guard(|| poa.custom(q).alignment());
    compare_alignments("custom", &want_custom, &got_custom, &base, cc);
    // global == custom with all clip penalties at minus infinity, which is what `scoring(si, false)` configures
    if clips {
        match fresh(false) {
            Err(msg) => cc.violation("C16/poa-new/panic", msg),
            Ok(p) => {
                let want = guard(|| al.global(q).alignment());
                let got = guard(|| p.custom(q).alignment());
                compare_alignments("global", &want, &got, &base, cc);
            }
        }
    }
    for bw in [1usize, q.len() + nodes] {
        let want = guard(|| al.global_banded(q, bw).alignment());
        let got = guard(|| poa.global_banded(q, bw).alignment());
        compare_alignments("global_banded", &want, &got, &base, cc);
    }
    // adding the custom alignment through either object gives the same graph
    if let (Ok(_), Ok(aln)) = (&want_custom, &got_custom) {
        let a = guard(|| {
            al.custom(q).add_to_graph();
        });
        let b = guard(|| poa.add_alignment(aln, q));
        match (a, b) {
            (Ok(()), Ok(())) => {
                let (sa, sb) = (snap(al.graph()), snap(&poa.graph));
                cc.outcome(&sa);
                if sa != sb {
                    cc.violation("C16/poa-new/add_alignment/graph-differs", format!("Aligner: {} ; Poa::new: {}", show_snap(&sa), show_snap(&sb)));
                }
            }
            (Ok(()), Err(msg)) => cc.violation("C16/poa-new/add_alignment/panic", msg),
            // a panic of the Aligner itself is the business of the history clause
            _ => {}
        }
    }
}

fn compare_alignments(what: &str, want: &Result<Alignment, String>, got: &Result<Alignment, String>, g: &Snap, cc: &mut CaseCtx) {
    match (want, got) {
        (Ok(w), Ok(x)) => {
            cc.outcome(x);
            if w.score != x.score {
                cc.violation(format!("C16/poa-new/{}/score-differs", what), format!("Aligner {} Poa::new {} on {}", w.score, x.score, show_snap(g)));
            } else if w != x {
                cc.violation(format!("C16/poa-new/{}/alignment-differs", what), format!("Aligner {:?} Poa::new {:?} on {}", w, x, show_snap(g)));
            }
        }
        (Ok(_), Err(msg)) => cc.violation(format!("C16/poa-new/{}/panic", what), format!("{} on {}", msg, show_snap(g))),
        // the Aligner route panicking is judged by the history clause, not here
        (Err(_), _) => {}
    }
}

/// flip to true to turn the observation about paths that do not start at node 0 into a violation
const EDGES_ASSERT_ANY_START: bool = false;

fn check_edges(r: &[u8], adds: &[Vec<u8>], si: usize, cc: &mut CaseCtx) {
    let al = match build_history(r, adds, si, false) {
        Ok(a) => a,
        Err(msg) => {
            cc.violation("C16/poa-new/setup/panic", msg);
            return;
        }
    };
    let base = snap(al.graph());
    let poa = match guard(|| Poa::new(scoring(si, false), al.graph().clone())) {
        Ok(p) => p,
        Err(msg) => {
            cc.violation("C16/poa-new/panic", msg);
            return;
        }
    };
    let mut seqs: Vec<&[u8]> = vec![r];
    for q in adds {
        if !seqs.contains(&q.as_slice()) {
            seqs.push(q);
        }
    }
    for s in seqs {
        let aln = match guard(|| poa.custom(s).alignment()) {
            Ok(a) => a,
            Err(msg) => {
                cc.violation("C16/poa-new/custom/panic", format!("{} on {}", msg, show_snap(&base)));
                continue;
            }
        };
        let ops = match ops_of(&aln) {
            Ok(o) => o,
            Err(_) => continue,
        };
        // the matched node of every query symbol; None when the alignment is outside the documented domain
        let nodes: Option<Vec<Option<usize>>> = (|| {
            let mut v: Vec<Option<usize>> = vec![];
            for (k, op) in ops.iter().enumerate() {
                match (*op, k) {
                    (AlignmentOperation::Match(None), 0) => v.push(match ops.get(1) {
                        Some(AlignmentOperation::Match(Some((p, _)))) => Some(*p),
                        _ => None,
                    }),
                    (AlignmentOperation::Match(Some((p, n))), k) if k >= 1 && v[k - 1] == Some(p) => v.push(Some(n)),
                    _ => return None,
                }
            }
            if v.len() != s.len() {
                return None;
            }
            for (k, n) in v.iter().enumerate() {
                if let Some(n) = n {
                    if *n >= base.labels.len() || base.labels[*n] != s[k] {
                        return None;
                    }
                }
            }
            Some(v)
        })();
        let nodes = match nodes {
            Some(v) => v,
            None => {
                cc.count("edges_alignment_outside_documented_domain", 1);
                continue;
            }
        };
        let starts_at_0 = nodes[0].map_or(true, |n| n == 0);
        let got = guard(|| poa.edges(aln.clone()));
        let verdict: Result<(), (&str, String)> = match &got {
            Err(msg) => Err(("panic", msg.clone())),
            Ok(es) => {
                if es.len() != s.len() - 1 {
                    Err(("wrong-length", format!("{} edges for a path of {} nodes", es.len(), s.len())))
                } else {
                    let mut bad = None;
                    for k in 1..nodes.len() {
                        let (a, b) = (nodes[k - 1].unwrap(), nodes[k].unwrap());
                        let e = es[k - 1];
                        if e >= base.edges.len() || (base.edges[e].0, base.edges[e].1) != (a, b) {
                            bad = Some(format!("step {}: matched nodes {} -> {} but edge index {} is {:?}", k, a, b, e, base.edges.get(e)));
                            break;
                        }
                    }
                    match bad {
                        Some(d) => Err(("not-the-edge-between-matched-nodes", d)),
                        None => Ok(()),
                    }
                }
            }
        };
        cc.outcome(&got.as_ref().ok());
        if starts_at_0 {
            cc.nontrivial();
            cc.count("edges_checked", 1);
            if let Err((sym, d)) = verdict {
                cc.violation(format!("C16/edges/{}", sym), format!("sequence {:?}, ops {:?}, edges() = {:?} on {}: {}", show(s), ops, got, show_snap(&base), d));
            }
        } else {
            cc.count("edges_path_not_starting_at_node_0", 1);
            if let Err((sym, d)) = verdict {
                cc.count("edges_path_not_starting_at_node_0_answer_wrong", 1);
                if EDGES_ASSERT_ANY_START {
                    cc.violation(format!("C16/edges/start-not-node-0/{}", sym), format!("sequence {:?}, ops {:?}, edges() = {:?} on {}: {}", show(s), ops, got, show_snap(&base), d));
                }
            }
        }
    }
}

const POA_SHARDS: usize = 4;

/// (references, sequences that may be added, maximal number of additions, next queries)
fn poa_cfg(tier: Tier) -> (Vec<Vec<u8>>, Vec<Vec<u8>>, usize, Vec<Vec<u8>>) {
    (gen::strings(b"ab", 1, tier.pick(3, 4)), gen::strings(b"ab", 1, tier.pick(2, 3)), 2, gen::strings(b"ab", 1, 3))
}

fn poa_unit(tier: Tier, shard: usize, ctx: &mut Ctx) {
    let (refs, addable, depth, queries) = poa_cfg(tier);
    // every sequence of 0..=depth additions
    let mut histories: Vec<Vec<Vec<u8>>> = vec![vec![]];
    let mut level: Vec<Vec<Vec<u8>>> = vec![vec![]];
    for _ in 0..depth {
        let mut next = vec![];
        for h in &level {
            for a in &addable {
                let mut n = h.clone();
                n.push(a.clone());
                next.push(n);
            }
        }
        histories.extend(next.iter().cloned());
        level = next;
    }
    let mut idx = 0usize;
    for r in &refs {
        for adds in &histories {
            idx += 1;
            if idx % POA_SHARDS != shard {
                continue;
            }
            if ctx.res.capped {
                return;
            }
            let shown: Vec<String> = adds.iter().map(|a| show(a)).collect();
            for si in 0..SCORINGS.len() {
                ctx.case(|| json!({"kind": "poa-edges", "r": show(r), "adds": shown, "scoring": si}), |cc| check_edges(r, adds, si, cc));
                for clips in [false, true] {
                    for q in &queries {
                        ctx.case(
                            || json!({"kind": "poa-new", "r": show(r), "adds": shown, "scoring": si, "clips": clips, "q": show(q)}),
                            |cc| check_poa_new(r, adds, si, clips, q, cc),
                        );
                    }
                }
            }
        }
    }
}

// ---------------------------------------------------------------- Prop

fn unit_table() -> Vec<(String, u8, usize, usize)> {
    // (name, kind, a, b): kind 0 linear(shard) 1 identity(shard) 2 global-history(scoring, shard) 3 mixed-history(scoring, shard)
    let mut v = vec![];
    // the most expensive units first
    for sh in 0..LINEAR_SHARDS {
        v.push((format!("linear-{}", sh), 0u8, sh, 0));
    }
    for si in 0..SCORINGS.len() {
        for sh in 0..GLOBAL_REF_SHARDS {
            v.push((format!("history-global-s{}-r{}", si, sh), 2u8, si, sh));
        }
    }
    for &si in &MIXED_SCORINGS {
        for sh in 0..MIXED_REF_SHARDS {
            v.push((format!("history-mixed-s{}-r{}", si, sh), 3u8, si, sh));
        }
    }
    for sh in 0..IDENTITY_SHARDS {
        v.push((format!("identity-{}", sh), 1u8, sh, 0));
    }
    // appended (entry points / out-of-band paths)
    for sh in 0..NARROW_SHARDS {
        v.push((format!("banded-narrow-{}", sh), 4u8, sh, 0));
    }
    for sh in 0..POA_SHARDS {
        v.push((format!("poa-new-edges-{}", sh), 5u8, sh, 0));
    }
    v
}

impl Prop for C16Prop {
    fn id(&self) -> &'static str {
        "C16"
    }
    fn level(&self) -> &'static str {
        "model_checking"
    }
    fn rule(&self) -> &'static str {
        "K2: breadth-first search over histories of align-and-add operations (mode, query) on the real poa::Aligner, all references of a shard as initial states; states de-duplicated on (node labels, (source,target,weight) list in edge-index order) of the real graph; every transition is one case (distinct (state, op) pairs), checked for acyclicity, label/edge-weight monotonicity, node growth <= |q| and the consensus clause. K1: every (reference, query, scoring) triple of the linear-graph clause and every (reference, scoring) pair of the identity clause, enumerated once. Non-trivial: history transition — the addition increased the number of extra successors/predecessors/sources of the graph (it created a branch); linear — the lengths differ (and the longer is >= 2) or the Needleman-Wunsch optimum beats the ungapped alignment; identity — |r| >= 2 and the all-match alignment is the unique optimum. Appended K1 families: narrow bands — every (reference, query, scoring) over the listed strings with EVERY bandwidth 0..max(|r|,|q|)-1 inside one case (non-trivial: the longer sequence has >= 2 symbols); Poa::new — every (reference, sequence of 0..2 global additions, scoring, clip setting, next query): the Poa built from the Aligner's graph must give the same custom / global / global_banded(1 and |q|+nodes) alignment and the same graph after adding the custom alignment (non-trivial: the graph has a branch); Poa::edges — every (reference, additions, scoring): each distinct sequence that was added is aligned again and, when the alignment is in the function's documented domain and starts at node 0, the returned edge indices must be the graph's edges between consecutive matched nodes."
    }
    fn assumptions(&self) -> Vec<&'static str> {
        vec![
            "oracle: quadratic Needleman-Wunsch with per-base gap penalty in i64; score(reference symbol, query symbol) for asymmetric tables, as the POA code calls it",
            "the operation list of poa::Alignment is read through the type's own Serialize impl (serde_json round trip into a mirror struct); no source hook",
            "path validity on a linear graph: Match(None) consumes node 0, Match(Some((_, n))) must name the next unconsumed node, Del consumes a node, Ins a query symbol, no clip operations, everything consumed; the predecessor fields of Match/Del are not constrained",
            "banded clause: bandwidth max(|q|,|r|) + {0,3} (thorough: {0,1,3,64}); astronomically large bandwidths (allocation proportional to the bandwidth) are not explored",
            "state key omits the Aligner's traceback/query: every operation starts with an alignment call that overwrites both; the scoring is constant within a search (clip penalties are restored by global/semiglobal/local)",
            "identity clause demanded only for scorings/references where the all-match alignment is the unique optimum according to the oracle (otherwise an exact aligner may legitimately pick another alignment)",
            "edge weights compared per (source,target) pair, summed over parallel edges",
            "consensus only required to be non-empty and the label sequence of some directed path (nothing about which path)",
            "alphabet {a,b,c}; the byte 'X' (treated as a wildcard by add_alignment) is not used",
            "scoring clip penalties left at their defaults except in the mixed family (-1 each, visible to custom/global_banded)",
            "narrow bands (bandwidth below max(|r|,|q|)): the rustdoc only says 'if too small, alignment may be suboptimal'; demanded: no panic, score <= Needleman-Wunsch optimum, and whenever the reported score is above MIN_SCORE/2 (i.e. not the minus-infinity sentinel of cells outside the band) the operations are a valid alignment of the query to the reference whose recomputed score equals the reported one; nothing is demanded about WHICH bandwidths reach the optimum",
            "Poa::new(scoring, graph) is an equivalent route to the Aligner that owns an equal graph: the DP is deterministic in (graph, scoring, query), so the whole Alignment (score and operations) must be equal, and `poa.graph` must be the graph that was passed in; Aligner::global == Poa::custom under a scoring whose four clip penalties are MIN_SCORE",
            "Poa::edges is asserted only inside its documented domain ('alignments for sequences that have already been added, so all operations must be Match') narrowed to where it is unambiguous: all operations are Match, operation k>=1 names the node of operation k-1 as its predecessor, every matched node carries the aligned symbol, and the first matched node is node 0 (Match(None) does not record its node and edges() starts from node 0). Alignments whose first matched node is another source node are counted in the evidence (extra counters) and reported, not judged",
        ]
    }
    fn bounds(&self, tier: Tier) -> Value {
        let g = hist_cfg("global", tier);
        let m = hist_cfg("mixed", tier);
        json!({
            "scorings": SCORINGS.iter().map(|s| s.0).collect::<Vec<_>>(),
            "linear": {"strings": format!("{{a,b}}^1..{} + strings over {{a,b,c}}^1..{} containing c; all ordered pairs (r,q); all 8 scorings",
                                           tier.pick(8, 9), tier.pick(4, 6)),
                       "banded_bandwidth": tier.pick("max(|r|,|q|)+{0,3}", "max(|r|,|q|)+{0,1,3,64}")},
            "identity": {"strings": format!("{{a,b}}^1..{} + {{a,b,c}}^1..{} containing c", tier.pick(9, 12), tier.pick(5, 7)),
                         "times": tier.pick(3, 5), "scorings": "all 8"},
            "history_global": {"refs": tier.pick("{a,b}^1..4", "{a,b}^1..5"), "queries": format!("{} strings {{a,b}}^1..3", g.queries.len()),
                               "depth": g.depth, "scorings": "all 8", "ops": "global(q).add_to_graph()"},
            "banded_narrow": {"strings": format!("{{a,b}}^1..{}; all ordered pairs (r,q); all 8 scorings", tier.pick(6, 7)), "bandwidths": "every value 0..max(|r|,|q|)-1"},
            "poa_new_edges": {"refs": tier.pick("{a,b}^1..3", "{a,b}^1..4"), "additions": format!("every sequence of 0..=2 global additions over {{a,b}}^1..{}", tier.pick(2, 3)),
                              "next_queries": "{a,b}^1..3", "scorings": "all 8", "clips": "none / -1 each", "banded_bandwidths": "1 and |q|+nodes"},
            "history_mixed": {"refs": tier.pick("{a,b}^1..3", "{a,b}^1..4"), "queries": format!("{} strings {{a,b}}^1..3", m.queries.len()),
                              "depth": m.depth, "scorings": MIXED_SCORINGS.to_vec(),
                              "ops": "{global,semiglobal,local,custom,global_banded(|q|+nodes)}(q).add_to_graph(); clip penalties -1"}
        })
    }
    fn units(&self, _tier: Tier) -> Vec<String> {
        unit_table().into_iter().map(|u| u.0).collect()
    }
    fn run_unit(&self, tier: Tier, unit: usize, ctx: &mut Ctx) {
        let t = unit_table();
        if unit >= t.len() {
            return;
        }
        let (_, kind, a, b) = t[unit].clone();
        match kind {
            0 => linear_unit(tier, a, ctx),
            1 => identity_unit(tier, a, ctx),
            2 => history_unit("global", a, b, GLOBAL_REF_SHARDS, tier, ctx),
            3 => history_unit("mixed", a, b, MIXED_REF_SHARDS, tier, ctx),
            4 => narrow_unit(tier, a, ctx),
            5 => poa_unit(tier, a, ctx),
            _ => {}
        }
    }
    fn replay(&self, case: &Value, ctx: &mut Ctx) {
        match case["kind"].as_str().unwrap_or("") {
            "linear" => {
                let r = unshow(case["r"].as_str().unwrap_or(""));
                let q = unshow(case["q"].as_str().unwrap_or(""));
                let si = case["scoring"].as_u64().unwrap_or(0) as usize;
                let extra: Vec<usize> = match case["bw_extra"].as_array() {
                    Some(a) => a.iter().filter_map(|x| x.as_u64()).map(|x| x as usize).collect(),
                    None => bw_extras(Tier::Thorough).to_vec(),
                };
                ctx.case(|| case.clone(), |cc| check_linear(&r, &q, si, &extra, cc));
            }
            "poa-new" | "poa-edges" => {
                let r = unshow(case["r"].as_str().unwrap_or("a"));
                let adds: Vec<Vec<u8>> = case["adds"].as_array().map(|a| a.iter().filter_map(|x| x.as_str()).map(unshow).collect()).unwrap_or_default();
                let si = (case["scoring"].as_u64().unwrap_or(0) as usize).min(SCORINGS.len() - 1);
                if r.is_empty() || adds.iter().any(|a| a.is_empty()) {
                    return ctx.case(|| case.clone(), |cc| cc.violation("C16/replay/malformed-case", "empty sequence"));
                }
                if case["kind"] == "poa-edges" {
                    ctx.case(|| case.clone(), |cc| check_edges(&r, &adds, si, cc));
                } else {
                    let q = unshow(case["q"].as_str().unwrap_or("a"));
                    let clips = case["clips"].as_bool().unwrap_or(false);
                    ctx.case(|| case.clone(), |cc| check_poa_new(&r, &adds, si, clips, &q, cc));
                }
            }
            "narrow-band" => {
                let r = unshow(case["r"].as_str().unwrap_or("a"));
                let q = unshow(case["q"].as_str().unwrap_or("a"));
                let si = (case["scoring"].as_u64().unwrap_or(0) as usize).min(SCORINGS.len() - 1);
                ctx.case(|| case.clone(), |cc| check_narrow(&r, &q, si, cc));
            }
            "identity" => {
                let r = unshow(case["r"].as_str().unwrap_or(""));
                let si = case["scoring"].as_u64().unwrap_or(0) as usize;
                let times = case["times"].as_u64().unwrap_or(3) as usize;
                ctx.case(|| case.clone(), |cc| check_identity(&r, si, times, cc));
            }
            _ => {
                let ops: Vec<HOp> = serde_json::from_value(case["ops"].clone()).unwrap_or_default();
                ctx.case(
                    || case.clone(),
                    |cc| {
                        let mut s = hist_init(&case["init"]);
                        if ops.is_empty() {
                            hist_check_init(&s, cc);
                        }
                        for op in &ops {
                            match hist_step(&s, op, cc) {
                                Some(n) => s = n,
                                None => break,
                            }
                        }
                    },
                );
            }
        }
    }
}
