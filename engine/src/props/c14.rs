//! C14 — HMM viterbi / forward / backward equal their definitions over all state paths.
//! K1 sweep: every discrete-emission model whose rows are sub-stochastic over a dyadic lattice
//! (with and without explicit end probabilities) x every observation sequence up to a length
//! bound, executed on `discrete_emission_opt_end::Model` (and on `discrete_emission::Model` when
//! there is no end vector) and compared with the enumeration of all S^T state paths.

use super::Prop;
use crate::ctx::{guard, CaseCtx, Ctx, Tier};
use crate::oracles::hmm::{free_vectors, observation_sequences, substochastic_rows, PathStats, Spec};
use bio::stats::hmm::discrete_emission::Model as PlainModel;
use bio::stats::hmm::discrete_emission_opt_end::Model as EndModel;
use bio::stats::hmm::{backward, forward, viterbi, State};
use bio::stats::LogProb;
use ndarray::{Array1, Array2};
use serde_json::{json, Value};

pub struct C14Prop;
pub static C14: C14Prop = C14Prop;

// ------------------------------------------------------------------------------------ families

#[derive(Clone, Copy, PartialEq, Debug)]
enum Ends {
    /// no end vector, plus every vector of S lattice values
    Full,
    /// no end vector, plus a fixed handful (all ones, all zeros, three mixed vectors)
    Few,
}

#[derive(Clone, Copy, Debug)]
struct Family {
    name: &'static str,
    s: usize,
    m: usize,
    den: u32,
    tmax: usize,
    ends: Ends,
    /// emission numerators are multiples of this step (1 = whole lattice, 2 = only even ones)
    em_step: u8,
    shards: usize,
}

const QUICK: &[Family] = &[
    Family { name: "s1m1-quarters", s: 1, m: 1, den: 4, tmax: 6, ends: Ends::Full, em_step: 1, shards: 1 },
    Family { name: "s1m2-quarters", s: 1, m: 2, den: 4, tmax: 6, ends: Ends::Full, em_step: 1, shards: 1 },
    Family { name: "s2m1-quarters", s: 2, m: 1, den: 4, tmax: 4, ends: Ends::Full, em_step: 1, shards: 6 },
    Family { name: "s2m2-halves", s: 2, m: 2, den: 2, tmax: 6, ends: Ends::Full, em_step: 1, shards: 6 },
    Family { name: "s2m3-halves", s: 2, m: 3, den: 2, tmax: 3, ends: Ends::Full, em_step: 1, shards: 6 },
    Family { name: "s3m1-halves", s: 3, m: 1, den: 2, tmax: 3, ends: Ends::Few, em_step: 1, shards: 6 },
    Family { name: "s2m2-quarters-em-halves", s: 2, m: 2, den: 4, tmax: 4, ends: Ends::Few, em_step: 2, shards: 14 },
];

const THOROUGH: &[Family] = &[
    Family { name: "s1m1-quarters", s: 1, m: 1, den: 4, tmax: 6, ends: Ends::Full, em_step: 1, shards: 1 },
    Family { name: "s1m2-quarters", s: 1, m: 2, den: 4, tmax: 6, ends: Ends::Full, em_step: 1, shards: 1 },
    Family { name: "s2m1-quarters", s: 2, m: 1, den: 4, tmax: 5, ends: Ends::Full, em_step: 1, shards: 1 },
    Family { name: "s2m2-halves", s: 2, m: 2, den: 2, tmax: 6, ends: Ends::Full, em_step: 1, shards: 1 },
    Family { name: "s2m3-halves", s: 2, m: 3, den: 2, tmax: 4, ends: Ends::Full, em_step: 1, shards: 2 },
    Family { name: "s3m1-halves", s: 3, m: 1, den: 2, tmax: 4, ends: Ends::Full, em_step: 1, shards: 2 },
    Family { name: "s3m2-halves", s: 3, m: 2, den: 2, tmax: 3, ends: Ends::Few, em_step: 1, shards: 14 },
    Family { name: "s2m2-quarters", s: 2, m: 2, den: 4, tmax: 4, ends: Ends::Full, em_step: 1, shards: 32 },
];

fn families(tier: Tier) -> &'static [Family] {
    tier.pick(QUICK, THOROUGH)
}

/// the enumerated space of one family: per-component choice lists
struct Space {
    fam: Family,
    trans_rows: Vec<Vec<u8>>,
    em_rows: Vec<Vec<u8>>,
    init_rows: Vec<Vec<u8>>,
    ends: Vec<Option<Vec<u8>>>,
    obs: Vec<Vec<usize>>,
}

fn few_ends(s: usize, den: u32) -> Vec<Vec<u8>> {
    let d = den as u8;
    let h = d / 2;
    let pat: [[u8; 3]; 5] = [[d, d, d], [h, 0, d], [0, h, h], [d, h, 0], [0, 0, 0]];
    let mut v: Vec<Vec<u8>> = vec![];
    for p in pat.iter() {
        let e = p[..s].to_vec();
        if !v.contains(&e) {
            v.push(e);
        }
    }
    v
}

impl Space {
    fn new(fam: Family) -> Space {
        // em_step 2 keeps the full lattice for transitions / initial vector but restricts the
        // emission rows to even numerators (a coarser lattice), to keep the quick tier affordable
        let em_rows: Vec<Vec<u8>> = substochastic_rows(fam.m, fam.den)
            .into_iter()
            .filter(|r| r.iter().all(|k| k % fam.em_step == 0))
            .collect();
        let mut ends: Vec<Option<Vec<u8>>> = vec![None];
        match fam.ends {
            Ends::Full => ends.extend(free_vectors(fam.s, fam.den).into_iter().map(Some)),
            Ends::Few => ends.extend(few_ends(fam.s, fam.den).into_iter().map(Some)),
        }
        Space {
            fam,
            trans_rows: substochastic_rows(fam.s, fam.den),
            em_rows,
            init_rows: substochastic_rows(fam.s, fam.den),
            ends,
            obs: observation_sequences(fam.m, 1, fam.tmax),
        }
    }

    fn models(&self) -> u64 {
        (self.trans_rows.len() as u64).pow(self.fam.s as u32)
            * (self.em_rows.len() as u64).pow(self.fam.s as u32)
            * self.init_rows.len() as u64
            * self.ends.len() as u64
    }

    /// the idx-th model; the end option is the fastest-running digit, then init, emissions,
    /// transitions, so that consecutive indices share most of the model
    fn model(&self, mut idx: u64) -> Spec {
        let s = self.fam.s;
        let ne = self.ends.len() as u64;
        let end = self.ends[(idx % ne) as usize].clone();
        idx /= ne;
        let ni = self.init_rows.len() as u64;
        let init = self.init_rows[(idx % ni) as usize].clone();
        idx /= ni;
        let nem = self.em_rows.len() as u64;
        let mut em = vec![0u8; s * self.fam.m];
        for r in (0..s).rev() {
            let row = &self.em_rows[(idx % nem) as usize];
            em[r * self.fam.m..(r + 1) * self.fam.m].copy_from_slice(row);
            idx /= nem;
        }
        let nt = self.trans_rows.len() as u64;
        let mut trans = vec![0u8; s * s];
        for r in (0..s).rev() {
            let row = &self.trans_rows[(idx % nt) as usize];
            trans[r * s..(r + 1) * s].copy_from_slice(row);
            idx /= nt;
        }
        Spec { s, m: self.fam.m, den: self.fam.den, trans, em, init, end }
    }
}

// ------------------------------------------------------------------------------ subject side

/// the real model objects of one Spec
struct Built {
    end_model: Result<EndModel, String>,
    /// only for specs without end vector
    plain_model: Option<Result<PlainModel, String>>,
}

fn build(spec: &Spec) -> Built {
    let tr = Array2::from_shape_vec((spec.s, spec.s), spec.trans_f()).unwrap();
    let em = Array2::from_shape_vec((spec.s, spec.m), spec.em_f()).unwrap();
    let ini = Array1::from_vec(spec.init_f());
    let endv = spec.end_f().map(Array1::from_vec);
    let end_model = match guard(|| EndModel::with_float(&tr, &em, &ini, endv.as_ref())) {
        Ok(Ok(m)) => Ok(m),
        Ok(Err(e)) => Err(format!("constructor returned Err: {}", e)),
        Err(p) => Err(format!("constructor panicked: {}", p)),
    };
    let plain_model = if spec.end.is_none() {
        Some(match guard(|| PlainModel::with_float(&tr, &em, &ini)) {
            Ok(Ok(m)) => Ok(m),
            Ok(Err(e)) => Err(format!("constructor returned Err: {}", e)),
            Err(p) => Err(format!("constructor panicked: {}", p)),
        })
    } else {
        None
    };
    Built { end_model, plain_model }
}

#[inline]
fn close(a: f64, b: f64, rel: f64) -> bool {
    (a - b).abs() <= rel * a.abs().max(b.abs())
}

/// relative tolerance of forward/backward: one approximate log-sum-exp per observation plus the
/// final one, each within the documented 0.5 % of the fast exponential
fn lik_tolerance(t: usize) -> f64 {
    1.005f64.powi(t as i32 + 1) - 1.0
}

const VIT_REL: f64 = 1e-9;

struct Answers {
    vit: Result<(Vec<State>, LogProb), String>,
    fw: Result<LogProb, String>,
    bw: Result<LogProb, String>,
}

fn check_answers(kind: &str, spec: &Spec, obs: &[usize], st: &PathStats, a: &Answers, cc: &mut CaseCtx) {
    let t = obs.len();
    let impossible = st.sum == 0.0;
    let rel = lik_tolerance(t);
    let explicit_end = spec.end.is_some();

    // ---- viterbi
    let mut vit_prob: Option<f64> = None; // linear reported probability, when usable
    match &a.vit {
        Err(msg) => cc.violation(format!("C14/viterbi/{}/panic", kind), msg.clone()),
        Ok((path, lp)) => {
            let lpv = **lp;
            cc.outcome(&lpv.to_bits());
            let pidx: Vec<usize> = path.iter().map(|s| **s).collect();
            cc.outcome(&pidx);
            if lpv.is_nan() || lpv == f64::INFINITY {
                cc.violation(
                    format!("C14/viterbi/{}/nan-or-inf", kind),
                    format!("reported log-probability {:?}", lpv),
                );
            } else if pidx.len() != t || pidx.iter().any(|&s| s >= spec.s) {
                cc.violation(
                    format!("C14/viterbi/{}/path-malformed", kind),
                    format!("path {:?} for {} observations and {} states", pidx, t, spec.s),
                );
            } else {
                let v = lpv.exp();
                vit_prob = Some(v);
                let pj = spec.joint(&pidx, obs);
                if impossible {
                    if lpv != f64::NEG_INFINITY && explicit_end && st.max_no_end > 0.0 && close(v, st.max_no_end, VIT_REL) {
                        // only the end vector makes the sequence impossible and it was not looked at
                        cc.violation(
                            format!("C14/viterbi/{}/end-prob-ignored", kind),
                            format!(
                                "reported {} = maximum WITHOUT end factor; with the end factor every path has probability 0",
                                v
                            ),
                        );
                    } else if lpv != f64::NEG_INFINITY {
                        cc.violation(
                            format!("C14/viterbi/{}/impossible-sequence-nonzero", kind),
                            format!("no path has positive probability but viterbi reports ln p = {:?}", lpv),
                        );
                    }
                } else {
                    let pj_no_end = spec.joint_no_end(&pidx, obs);
                    let ok = close(v, pj, VIT_REL) && close(pj, st.max, VIT_REL);
                    if !ok && explicit_end && close(v, pj_no_end, VIT_REL) && close(v, st.max_no_end, VIT_REL) {
                        // exactly what an implementation computes that never looks at end_prob
                        cc.violation(
                            format!("C14/viterbi/{}/end-prob-ignored", kind),
                            format!(
                                "reported {} = maximum WITHOUT end factor; path {:?} has joint {} with end factor; true maximum {}",
                                v, pidx, pj, st.max
                            ),
                        );
                    } else {
                        if !close(v, pj, VIT_REL) {
                            cc.violation(
                                format!("C14/viterbi/{}/reported-differs-from-path-joint", kind),
                                format!("reported {} but returned path {:?} has joint probability {}", v, pidx, pj),
                            );
                        }
                        if !close(pj, st.max, VIT_REL) {
                            cc.violation(
                                format!("C14/viterbi/{}/path-not-maximal", kind),
                                format!("returned path {:?} has joint {} but the maximum over all paths is {}", pidx, pj, st.max),
                            );
                        }
                    }
                }
            }
        }
    }

    // ---- forward / backward
    for (name, r) in [("forward", &a.fw), ("backward", &a.bw)] {
        match r {
            Err(msg) => cc.violation(format!("C14/{}/{}/panic", name, kind), msg.clone()),
            Ok(lp) => {
                let l = **lp;
                cc.outcome(&l.to_bits());
                if l.is_nan() || l == f64::INFINITY {
                    cc.violation(
                        format!("C14/{}/{}/nan-or-inf", name, kind),
                        format!("likelihood ln p = {:?}", l),
                    );
                    continue;
                }
                let f = l.exp();
                if impossible {
                    if l != f64::NEG_INFINITY {
                        cc.violation(
                            format!("C14/{}/{}/impossible-sequence-nonzero", name, kind),
                            format!("no path has positive probability but {} reports ln p = {:?}", name, l),
                        );
                    }
                } else if !close(f, st.sum, rel) {
                    cc.violation(
                        format!("C14/{}/{}/differs-from-path-sum", name, kind),
                        format!("{} gives {} but the sum over all {} paths is {} (tolerance {:.4} relative)", name, f, st.paths, st.sum, rel),
                    );
                }
                if let Some(v) = vit_prob {
                    if f * (1.0 + rel) < v {
                        cc.violation(
                            format!("C14/{}/{}/below-viterbi", name, kind),
                            format!("likelihood {} is smaller than the Viterbi probability {}", f, v),
                        );
                    }
                }
            }
        }
    }
}

fn check(spec: &Spec, built: &Built, obs: &[usize], cc: &mut CaseCtx) {
    let st = spec.brute(obs);
    cc.set_nontrivial(st.positive_paths >= 2);
    let kind = if spec.end.is_some() { "opt_end-explicit" } else { "opt_end-none" };
    match &built.end_model {
        Err(msg) => cc.violation(format!("C14/construct/{}/rejected", kind), msg.clone()),
        Ok(m) => {
            let a = Answers {
                vit: guard(|| viterbi(m, obs)),
                fw: guard(|| forward(m, obs).1),
                bw: guard(|| backward(m, obs).1),
            };
            check_answers(kind, spec, obs, &st, &a, cc);
        }
    }
    if let Some(pm) = &built.plain_model {
        match pm {
            Err(msg) => cc.violation("C14/construct/plain/rejected", msg.clone()),
            Ok(m) => {
                let a = Answers {
                    vit: guard(|| viterbi(m, obs)),
                    fw: guard(|| forward(m, obs).1),
                    bw: guard(|| backward(m, obs).1),
                };
                check_answers("plain", spec, obs, &st, &a, cc);
            }
        }
    }
}

// ------------------------------------------------------------------------------- descriptions

fn rows(v: &[u8], w: usize) -> Vec<Vec<u8>> {
    v.chunks(w).map(|c| c.to_vec()).collect()
}

fn fractions(v: &[u8], den: u32) -> String {
    let parts: Vec<String> = v.iter().map(|&k| format!("{}", k as f64 / den as f64)).collect();
    parts.join(",")
}

/// numerators over a common denominator are the authoritative (exact) part; "readable" is for humans
fn describe(spec: &Spec, obs: &[usize]) -> Value {
    json!({
        "kind": "hmm",
        "states": spec.s, "symbols": spec.m, "den": spec.den,
        "trans": rows(&spec.trans, spec.s),
        "em": rows(&spec.em, spec.m),
        "init": spec.init,
        "end": spec.end,
        "obs": obs,
        "readable": format!(
            "A=[{}] B=[{}] pi=[{}] end={} obs={:?}",
            rows(&spec.trans, spec.s).iter().map(|r| fractions(r, spec.den)).collect::<Vec<_>>().join(" | "),
            rows(&spec.em, spec.m).iter().map(|r| fractions(r, spec.den)).collect::<Vec<_>>().join(" | "),
            fractions(&spec.init, spec.den),
            match &spec.end { Some(e) => format!("[{}]", fractions(e, spec.den)), None => "none".to_string() },
            obs
        ),
    })
}

fn u8s(v: &Value) -> Vec<u8> {
    v.as_array()
        .map(|a| a.iter().map(|x| x.as_u64().unwrap_or(0) as u8).collect())
        .unwrap_or_default()
}

fn undescribe(case: &Value) -> Option<(Spec, Vec<usize>)> {
    let s = case["states"].as_u64()? as usize;
    let m = case["symbols"].as_u64()? as usize;
    let den = case["den"].as_u64()? as u32;
    let flat = |v: &Value| -> Vec<u8> { v.as_array().map(|a| a.iter().flat_map(u8s).collect()).unwrap_or_default() };
    let trans = flat(&case["trans"]);
    let em = flat(&case["em"]);
    let init = u8s(&case["init"]);
    let end = if case["end"].is_null() { None } else { Some(u8s(&case["end"])) };
    let obs: Vec<usize> = case["obs"].as_array()?.iter().map(|x| x.as_u64().unwrap_or(0) as usize).collect();
    if s == 0 || m == 0 || den == 0 || trans.len() != s * s || em.len() != s * m || init.len() != s {
        return None;
    }
    if end.as_ref().map_or(false, |e| e.len() != s) || obs.is_empty() || obs.iter().any(|&o| o >= m) {
        return None;
    }
    Some((Spec { s, m, den, trans, em, init, end }, obs))
}

// ---------------------------------------------------------------------------------- the sweep

/// deterministic partition of the model indices into shards.  A plain `index % shards` would
/// alias with the radices of the odometer (e.g. 6 shards and 6 end options would give one shard
/// all models without end vector), so the index of the model-without-end is mixed first.
#[inline]
fn shard_of(q: u64, shards: usize) -> usize {
    ((q.wrapping_mul(0x9E37_79B9_7F4A_7C15) >> 40) % shards as u64) as usize
}

fn run_family(fam: Family, shard: usize, ctx: &mut Ctx) {
    let space = Space::new(fam);
    let ne = space.ends.len() as u64;
    let nq = space.models() / ne;
    for q in 0..nq {
        if shard_of(q, fam.shards) != shard {
            continue;
        }
        if ctx.res.capped {
            break;
        }
        for e in 0..ne {
            let spec = space.model(q * ne + e);
            let built = build(&spec);
            for obs in &space.obs {
                ctx.case(|| describe(&spec, obs), |cc| check(&spec, &built, obs, cc));
            }
        }
    }
}


// ------------------------------------------------------------------------------ long sequences
//
// The lattice families stop at T <= 6, where all operands of one log-sum-exp are within a few
// nats of each other.  Long sequences put hundreds of nats between them (the regime of the fast
// exponential's cut-off and of f64 underflow).  Path enumeration is impossible here; the oracle
// is the textbook forward / max-plus recursion in log space with libm's exact exp/ln.

fn lse(xs: &[f64]) -> f64 {
    let m = xs.iter().cloned().fold(f64::NEG_INFINITY, f64::max);
    if m == f64::NEG_INFINITY {
        return m;
    }
    m + xs.iter().map(|&x| (x - m).exp()).sum::<f64>().ln()
}

fn long_specs() -> Vec<Spec> {
    let mut v = vec![];
    let base: Vec<(Vec<u8>, Vec<u8>, Vec<u8>)> = vec![
        (vec![10, 0, 0, 10], vec![9, 1, 1, 9], vec![5, 5]), // two non-communicating states
        (vec![9, 1, 0, 10], vec![9, 1, 2, 8], vec![10, 0]), // left-to-right
        (vec![7, 3, 4, 6], vec![9, 1, 1, 9], vec![5, 5]),   // ergodic
        (vec![5, 5, 5, 5], vec![10, 0, 1, 9], vec![5, 5]),  // one state cannot emit symbol 1
    ];
    for (t, e, i) in base {
        for end in [None, Some(vec![5u8, 5]), Some(vec![10u8, 1])] {
            v.push(Spec { s: 2, m: 2, den: 10, trans: t.clone(), em: e.clone(), init: i.clone(), end });
        }
    }
    for end in [None, Some(vec![3u8])] {
        v.push(Spec { s: 1, m: 2, den: 10, trans: vec![10], em: vec![1, 9], init: vec![10], end });
    }
    v
}

fn long_lengths(tier: Tier) -> Vec<usize> {
    let mut v = vec![64usize, 200, 320, 324, 330, 339, 400, 709, 1000];
    if tier == Tier::Thorough {
        v.extend(300..=345);
        v.extend(700..=760);
        v.push(3000);
    }
    v.sort();
    v.dedup();
    v
}

fn long_obs(shape: usize, t: usize) -> Vec<usize> {
    (0..t)
        .map(|i| match shape {
            0 => 0,
            1 => 1,
            2 => i % 2,
            _ => (i >= t / 2) as usize,
        })
        .collect()
}

fn check_long(spec: &Spec, obs: &[usize], cc: &mut CaseCtx) {
    let t = obs.len();
    let (s, m) = (spec.s, spec.m);
    let ln = |k: u8| (k as f64 / spec.den as f64).ln();
    let end: Vec<f64> = match &spec.end {
        Some(e) => e.iter().map(|&k| ln(k)).collect(),
        None => vec![0.0; s],
    };
    // oracle: forward and max-plus in log space
    let mut alpha: Vec<f64> = (0..s).map(|j| ln(spec.init[j]) + ln(spec.em[j * m + obs[0]])).collect();
    let mut delta = alpha.clone();
    for &o in &obs[1..] {
        let na: Vec<f64> = (0..s)
            .map(|j| lse(&(0..s).map(|i| alpha[i] + ln(spec.trans[i * s + j])).collect::<Vec<_>>()) + ln(spec.em[j * m + o]))
            .collect();
        let nd: Vec<f64> = (0..s)
            .map(|j| (0..s).map(|i| delta[i] + ln(spec.trans[i * s + j])).fold(f64::NEG_INFINITY, f64::max) + ln(spec.em[j * m + o]))
            .collect();
        alpha = na;
        delta = nd;
    }
    let want_lik = lse(&(0..s).map(|j| alpha[j] + end[j]).collect::<Vec<_>>());
    let want_vit = (0..s).map(|j| delta[j] + end[j]).fold(f64::NEG_INFINITY, f64::max);
    cc.set_nontrivial(want_lik > f64::NEG_INFINITY && t >= 300);
    cc.outcome(&(want_lik.to_bits(), want_vit.to_bits()));
    let built = build(spec);
    let model = match &built.end_model {
        Ok(mdl) => mdl,
        Err(e) => {
            cc.violation("C14/construct/long-sequence/rejected", e.clone());
            return;
        }
    };
    let tol = (t as f64 + 1.0) * 1.005f64.ln() + 1e-9;
    let vtol = 1e-9 * (t as f64 + 1.0) * (1.0 + want_vit.abs().min(1e6));
    for (name, r) in [("forward", guard(|| *forward(model, obs).1)), ("backward", guard(|| *backward(model, obs).1))] {
        match r {
            Err(p) => cc.violation(format!("C14/{}/long-sequence/panic", name), p),
            Ok(x) => {
                if x.is_nan() || x == f64::INFINITY {
                    cc.violation(format!("C14/{}/long-sequence/nan-or-inf", name), format!("T={} result {}", t, x));
                } else if want_lik == f64::NEG_INFINITY {
                    if x != f64::NEG_INFINITY {
                        cc.violation(format!("C14/{}/long-sequence/impossible-sequence-nonzero", name), format!("T={} ln p = {}", t, x));
                    }
                } else if !((x - want_lik).abs() <= tol) {
                    cc.violation(format!("C14/{}/long-sequence/differs-from-log-space-recursion", name), format!("T={} ln p = {} expected {} (tolerance {})", t, x, want_lik, tol));
                } else if x < want_vit - tol {
                    cc.violation(format!("C14/{}/long-sequence/below-viterbi", name), format!("T={} ln p = {} viterbi {}", t, x, want_vit));
                }
            }
        }
    }
    match guard(|| viterbi(model, obs)) {
        Err(p) => cc.violation("C14/viterbi/long-sequence/panic", p),
        Ok((path, lp)) => {
            let x = *lp;
            if x.is_nan() || x == f64::INFINITY {
                cc.violation("C14/viterbi/long-sequence/nan-or-inf", format!("T={} result {}", t, x));
            } else if path.len() != t || path.iter().any(|st| **st >= s) {
                cc.violation("C14/viterbi/long-sequence/path-malformed", format!("T={} path length {}", t, path.len()));
            } else if want_vit == f64::NEG_INFINITY {
                if x != f64::NEG_INFINITY {
                    cc.violation("C14/viterbi/long-sequence/impossible-sequence-nonzero", format!("T={} ln p = {}", t, x));
                }
            } else {
                let pj: f64 = {
                    let mut a = ln(spec.init[*path[0]]) + ln(spec.em[*path[0] * m + obs[0]]);
                    for i in 1..t {
                        a += ln(spec.trans[*path[i - 1] * s + *path[i]]) + ln(spec.em[*path[i] * m + obs[i]]);
                    }
                    a + end[*path[t - 1]]
                };
                if !((x - want_vit).abs() <= vtol) {
                    cc.violation("C14/viterbi/long-sequence/path-not-maximal", format!("T={} reported {} maximum {}", t, x, want_vit));
                } else if !((x - pj).abs() <= vtol) {
                    cc.violation("C14/viterbi/long-sequence/reported-differs-from-path-joint", format!("T={} reported {} path joint {}", t, x, pj));
                }
            }
        }
    }
}

fn run_long(tier: Tier, ctx: &mut Ctx) {
    for (si, spec) in long_specs().iter().enumerate() {
        for t in long_lengths(tier) {
            for shape in 0..4 {
                let obs = long_obs(shape, t);
                ctx.case(|| json!({"kind": "long", "spec_index": si, "t": t, "shape": shape}), |cc| check_long(spec, &obs, cc));
            }
        }
    }
}

fn unit_table(tier: Tier) -> Vec<(Family, usize)> {
    let mut v = vec![];
    for f in families(tier) {
        for sh in 0..f.shards {
            v.push((*f, sh));
        }
    }
    v
}

impl Prop for C14Prop {
    fn id(&self) -> &'static str {
        "C14"
    }
    fn level(&self) -> &'static str {
        "exploration"
    }
    fn rule(&self) -> &'static str {
        "Complete sweep, per family (S states, M symbols, lattice denominator d, length bound T): every model whose transition rows, emission rows and initial vector are sub-stochastic vectors of multiples of 1/d (zero rows and zero vectors included), combined with 'no end vector' and with every end vector of multiples of 1/d (families marked 'few': a fixed handful), times every observation sequence of length 1..T; one case = one (model, observation sequence) pair, each enumerated once. Models without end vector are run on both discrete_emission::Model and discrete_emission_opt_end::Model. Non-trivial: at least two state paths have positive joint probability with the observations. Plus a long-sequence family (14 fixed models x 4 observation shapes x lengths 64..1000/3000, every length 300..345 and 700..760 in the thorough tier) checked against a log-space recursion; non-trivial there: T >= 300 and the sequence is possible."
    }
    fn assumptions(&self) -> Vec<&'static str> {
        vec![
            "oracle: enumeration of all S^T state paths in linear f64; all lattice values are dyadic and the bounds keep every product and partial sum exactly representable, so the oracle itself is exact",
            "joint(path) = pi * prod a * prod b * end(last state); end == 1 when the model has no end vector",
            "viterbi: reported probability = joint of the returned path = maximum over all paths, relative 1e-9 (only log-space additions are involved); which of several co-optimal paths is returned is not constrained",
            "forward/backward: equal to the path sum within relative 1.005^(T+1)-1 (one approximate log-sum-exp per observation plus the final one; 0.5 % is the documented bound of the fast exponential); likelihood >= Viterbi probability within the same tolerance",
            "impossible observation sequences (path sum exactly 0) must give exactly ln p = -inf from all three functions",
            "the statement quantifies over real-valued matrices; what is decided is its restriction to the dyadic lattices listed in the bounds",
            "end probabilities are not required to complement the transition row sums (the library does not require it either)",
        ]
    }
    fn bounds(&self, tier: Tier) -> Value {
        let fams: Vec<Value> = families(tier)
            .iter()
            .map(|f| {
                let sp = Space::new(*f);
                json!({
                    "family": f.name, "states": f.s, "symbols": f.m,
                    "lattice": format!("multiples of 1/{}", f.den),
                    "emission_lattice": format!("multiples of {}/{}", f.em_step, f.den),
                    "observation_lengths": format!("1..={}", f.tmax),
                    "end_vectors": match f.ends { Ends::Full => "none + all lattice vectors", Ends::Few => "none + 5 fixed vectors (few)" },
                    "models": sp.models(), "observation_sequences": sp.obs.len(),
                    "cases": sp.models() * sp.obs.len() as u64,
                })
            })
            .collect();
        json!({ "families": fams, "long_sequences": {"models": long_specs().len(), "lengths": long_lengths(tier), "observation_shapes": "all 0, all 1, alternating, half/half", "oracle": "log-space forward and max-plus recursion with libm exp/ln"} })
    }
    fn units(&self, tier: Tier) -> Vec<String> {
        let mut v: Vec<String> = unit_table(tier).iter().map(|(f, sh)| format!("{}-{}", f.name, sh)).collect();
        v.push("long-sequences".into());
        v
    }
    fn run_unit(&self, tier: Tier, unit: usize, ctx: &mut Ctx) {
        let table = unit_table(tier);
        if unit >= table.len() {
            return run_long(tier, ctx);
        }
        let (fam, sh) = table[unit];
        run_family(fam, sh, ctx);
    }
    fn replay(&self, case: &Value, ctx: &mut Ctx) {
        if case["kind"] == "long" {
            let si = case["spec_index"].as_u64().unwrap_or(0) as usize;
            let t = case["t"].as_u64().unwrap_or(1) as usize;
            let shape = case["shape"].as_u64().unwrap_or(0) as usize;
            let specs = long_specs();
            let spec = &specs[si.min(specs.len() - 1)];
            let obs = long_obs(shape, t);
            ctx.case(|| case.clone(), |cc| check_long(spec, &obs, cc));
            return;
        }
        match undescribe(case) {
            Some((spec, obs)) => {
                let built = build(&spec);
                ctx.case(|| case.clone(), |cc| check(&spec, &built, &obs, cc));
            }
            None => ctx.case(
                || case.clone(),
                |cc| cc.violation("C14/replay/malformed-case", "case description cannot be decoded"),
            ),
        }
    }
}
