//! C14 — HMM viterbi / forward / backward equal their definitions over all state paths.
//! K1 sweep: every discrete-emission model whose rows are sub-stochastic over a dyadic lattice
//! (with and without explicit end probabilities) x every observation sequence up to a length
//! bound, executed on `discrete_emission_opt_end::Model` (and on `discrete_emission::Model` when
//! there is no end vector) and compared with the enumeration of all S^T state paths.
//! Appended units: the `with_prob` / `new` constructor routes under the same case function, the
//! dimension check of the constructors, the state / transition iterators, and a small family on
//! the continuous (Gaussian) emission model.

use super::Prop;
use crate::ctx::{guard, CaseCtx, Ctx, Tier};
use crate::oracles::hmm::{free_vectors, observation_sequences, substochastic_rows, PathStats, Spec};
use bio::stats::hmm::discrete_emission::Model as PlainModel;
use bio::stats::hmm::discrete_emission_opt_end::Model as EndModel;
use bio::stats::hmm::univariate_continuous_emission::GaussianModel;
use bio::stats::hmm::{backward, forward, viterbi, Error as HmmError, Model as HmmModel, State, StateIter, StateTransitionIter};
use bio::stats::{LogProb, Prob};
use statrs::distribution::Normal;
use std::cell::RefCell;
use ndarray::{Array1, Array2};
use serde_json::{json, Value};

pub struct C14Prop;
pub static C14: C14Prop = C14Prop;

// ------------------------------------------------------------------------------------ families

#[derive(Clone, Copy, PartialEq, Debug)]
enum Ends {
    /// no end vector, plus every vector of S lattice values
    Full,
    /// no end vector, plus a fixed handful (all ones, all zeros, three mixed vectors)
    Few,
}

#[derive(Clone, Copy, Debug)]
struct Family {
    name: &'static str,
    s: usize,
    m: usize,
    den: u32,
    tmax: usize,
    ends: Ends,
    /// emission numerators are multiples of this step (1 = whole lattice, 2 = only even ones)
    em_step: u8,
    shards: usize,
}

const QUICK: &[Family] = &[
    Family { name: "s1m1-quarters", s: 1, m: 1, den: 4, tmax: 6, ends: Ends::Full, em_step: 1, shards: 1 },
    Family { name: "s1m2-quarters", s: 1, m: 2, den: 4, tmax: 6, ends: Ends::Full, em_step: 1, shards: 1 },
    Family { name: "s2m1-quarters", s: 2, m: 1, den: 4, tmax: 4, ends: Ends::Full, em_step: 1, shards: 6 },
    Family { name: "s2m2-halves", s: 2, m: 2, den: 2, tmax: 6, ends: Ends::Full, em_step: 1, shards: 6 },
    Family { name: "s2m3-halves", s: 2, m: 3, den: 2, tmax: 3, ends: Ends::Full, em_step: 1, shards: 6 },
    Family { name: "s3m1-halves", s: 3, m: 1, den: 2, tmax: 3, ends: Ends::Few, em_step: 1, shards: 6 },
    Family { name: "s2m2-quarters-em-halves", s: 2, m: 2, den: 4, tmax: 4, ends: Ends::Few, em_step: 2, shards: 14 },
];

const THOROUGH: &[Family] = &[
    Family { name: "s1m1-quarters", s: 1, m: 1, den: 4, tmax: 6, ends: Ends::Full, em_step: 1, shards: 1 },
    Family { name: "s1m2-quarters", s: 1, m: 2, den: 4, tmax: 6, ends: Ends::Full, em_step: 1, shards: 1 },
    Family { name: "s2m1-quarters", s: 2, m: 1, den: 4, tmax: 5, ends: Ends::Full, em_step: 1, shards: 1 },
    Family { name: "s2m2-halves", s: 2, m: 2, den: 2, tmax: 6, ends: Ends::Full, em_step: 1, shards: 1 },
    Family { name: "s2m3-halves", s: 2, m: 3, den: 2, tmax: 4, ends: Ends::Full, em_step: 1, shards: 2 },
    Family { name: "s3m1-halves", s: 3, m: 1, den: 2, tmax: 4, ends: Ends::Full, em_step: 1, shards: 2 },
    Family { name: "s3m2-halves", s: 3, m: 2, den: 2, tmax: 3, ends: Ends::Few, em_step: 1, shards: 14 },
    Family { name: "s2m2-quarters", s: 2, m: 2, den: 4, tmax: 4, ends: Ends::Full, em_step: 1, shards: 32 },
];

fn families(tier: Tier) -> &'static [Family] {
    tier.pick(QUICK, THOROUGH)
}

/// the enumerated space of one family: per-component choice lists
struct Space {
    fam: Family,
    trans_rows: Vec<Vec<u8>>,
    em_rows: Vec<Vec<u8>>,
    init_rows: Vec<Vec<u8>>,
    ends: Vec<Option<Vec<u8>>>,
    obs: Vec<Vec<usize>>,
}

fn few_ends(s: usize, den: u32) -> Vec<Vec<u8>> {
    let d = den as u8;
    let h = d / 2;
    let pat: [[u8; 3]; 5] = [[d, d, d], [h, 0, d], [0, h, h], [d, h, 0], [0, 0, 0]];
    let mut v: Vec<Vec<u8>> = vec![];
    for p in pat.iter() {
        let e = p[..s].to_vec();
        if !v.contains(&e) {
            v.push(e);
        }
    }
    v
}

impl Space {
    fn new(fam: Family) -> Space {
        // em_step 2 keeps the full lattice for transitions / initial vector but restricts the
        // emission rows to even numerators (a coarser lattice), to keep the quick tier affordable
        let em_rows: Vec<Vec<u8>> = substochastic_rows(fam.m, fam.den)
            .into_iter()
            .filter(|r| r.iter().all(|k| k % fam.em_step == 0))
            .collect();
        let mut ends: Vec<Option<Vec<u8>>> = vec![None];
        match fam.ends {
            Ends::Full => ends.extend(free_vectors(fam.s, fam.den).into_iter().map(Some)),
            Ends::Few => ends.extend(few_ends(fam.s, fam.den).into_iter().map(Some)),
        }
        Space {
            fam,
            trans_rows: substochastic_rows(fam.s, fam.den),
            em_rows,
            init_rows: substochastic_rows(fam.s, fam.den),
            ends,
            obs: observation_sequences(fam.m, 1, fam.tmax),
        }
    }

    fn models(&self) -> u64 {
        (self.trans_rows.len() as u64).pow(self.fam.s as u32)
            * (self.em_rows.len() as u64).pow(self.fam.s as u32)
            * self.init_rows.len() as u64
            * self.ends.len() as u64
    }

    /// the idx-th model; the end option is the fastest-running digit, then init, emissions,
    /// transitions, so that consecutive indices share most of the model
    fn model(&self, mut idx: u64) -> Spec {
        let s = self.fam.s;
        let ne = self.ends.len() as u64;
        let end = self.ends[(idx % ne) as usize].clone();
        idx /= ne;
        let ni = self.init_rows.len() as u64;
        let init = self.init_rows[(idx % ni) as usize].clone();
        idx /= ni;
        let nem = self.em_rows.len() as u64;
        let mut em = vec![0u8; s * self.fam.m];
        for r in (0..s).rev() {
            let row = &self.em_rows[(idx % nem) as usize];
            em[r * self.fam.m..(r + 1) * self.fam.m].copy_from_slice(row);
            idx /= nem;
        }
        let nt = self.trans_rows.len() as u64;
        let mut trans = vec![0u8; s * s];
        for r in (0..s).rev() {
            let row = &self.trans_rows[(idx % nt) as usize];
            trans[r * s..(r + 1) * s].copy_from_slice(row);
            idx /= nt;
        }
        Spec { s, m: self.fam.m, den: self.fam.den, trans, em, init, end }
    }
}

// ------------------------------------------------------------------------------ subject side

/// the real model objects of one Spec
struct Built {
    end_model: Result<EndModel, String>,
    /// only for specs without end vector
    plain_model: Option<Result<PlainModel, String>>,
}

fn build(spec: &Spec) -> Built {
    let tr = Array2::from_shape_vec((spec.s, spec.s), spec.trans_f()).unwrap();
    let em = Array2::from_shape_vec((spec.s, spec.m), spec.em_f()).unwrap();
    let ini = Array1::from_vec(spec.init_f());
    let endv = spec.end_f().map(Array1::from_vec);
    let end_model = match guard(|| EndModel::with_float(&tr, &em, &ini, endv.as_ref())) {
        Ok(Ok(m)) => Ok(m),
        Ok(Err(e)) => Err(format!("constructor returned Err: {}", e)),
        Err(p) => Err(format!("constructor panicked: {}", p)),
    };
    let plain_model = if spec.end.is_none() {
        Some(match guard(|| PlainModel::with_float(&tr, &em, &ini)) {
            Ok(Ok(m)) => Ok(m),
            Ok(Err(e)) => Err(format!("constructor returned Err: {}", e)),
            Err(p) => Err(format!("constructor panicked: {}", p)),
        })
    } else {
        None
    };
    Built { end_model, plain_model }
}

#[inline]
fn close(a: f64, b: f64, rel: f64) -> bool {
    (a - b).abs() <= rel * a.abs().max(b.abs())
}

/// relative tolerance of forward/backward: one approximate log-sum-exp per observation plus the
/// final one, each within the documented 0.5 % of the fast exponential
fn lik_tolerance(t: usize) -> f64 {
    1.005f64.powi(t as i32 + 1) - 1.0
}

const VIT_REL: f64 = 1e-9;

struct Answers {
    vit: Result<(Vec<State>, LogProb), String>,
    fw: Result<LogProb, String>,
    bw: Result<LogProb, String>,
}

/// what `check_answers` needs from a reference model: the joint probability of one state path
/// with the observations (with and without the end factor)
trait Joint<O> {
    fn n_states(&self) -> usize;
    fn explicit_end(&self) -> bool;
    fn joint(&self, path: &[usize], obs: &[O]) -> f64;
    fn joint_no_end(&self, path: &[usize], obs: &[O]) -> f64;
}

impl Joint<usize> for Spec {
    fn n_states(&self) -> usize {
        self.s
    }
    fn explicit_end(&self) -> bool {
        self.end.is_some()
    }
    fn joint(&self, path: &[usize], obs: &[usize]) -> f64 {
        Spec::joint(self, path, obs)
    }
    fn joint_no_end(&self, path: &[usize], obs: &[usize]) -> f64 {
        Spec::joint_no_end(self, path, obs)
    }
}

fn check_answers<O, J: Joint<O>>(kind: &str, spec: &J, obs: &[O], st: &PathStats, a: &Answers, cc: &mut CaseCtx) {
    let t = obs.len();
    let impossible = st.sum == 0.0;
    let rel = lik_tolerance(t);
    let explicit_end = spec.explicit_end();
    let n_states = spec.n_states();

    // ---- viterbi
    let mut vit_prob: Option<f64> = None; // linear reported probability, when usable
    match &a.vit {
        Err(msg) => cc.violation(format!("C14/viterbi/{}/panic", kind), msg.clone()),
        Ok((path, lp)) => {
            let lpv = **lp;
            cc.outcome(&lpv.to_bits());
            let pidx: Vec<usize> = path.iter().map(|s| **s).collect();
            cc.outcome(&pidx);
            if lpv.is_nan() || lpv == f64::INFINITY {
                cc.violation(
                    format!("C14/viterbi/{}/nan-or-inf", kind),
                    format!("reported log-probability {:?}", lpv),
                );
            } else if pidx.len() != t || pidx.iter().any(|&s| s >= n_states) {
                cc.violation(
                    format!("C14/viterbi/{}/path-malformed", kind),
                    format!("path {:?} for {} observations and {} states", pidx, t, n_states),
                );
            } else {
                let v = lpv.exp();
                vit_prob = Some(v);
                let pj = spec.joint(&pidx, obs);
                if impossible {
                    if lpv != f64::NEG_INFINITY && explicit_end && st.max_no_end > 0.0 && close(v, st.max_no_end, VIT_REL) {
                        // only the end vector makes the sequence impossible and it was not looked at
                        cc.violation(
                            format!("C14/viterbi/{}/end-prob-ignored", kind),
                            format!(
                                "reported {} = maximum WITHOUT end factor; with the end factor every path has probability 0",
                                v
                            ),
                        );
                    } else if lpv != f64::NEG_INFINITY {
                        cc.violation(
                            format!("C14/viterbi/{}/impossible-sequence-nonzero", kind),
                            format!("no path has positive probability but viterbi reports ln p = {:?}", lpv),
                        );
                    }
                } else {
                    let pj_no_end = spec.joint_no_end(&pidx, obs);
                    let ok = close(v, pj, VIT_REL) && close(pj, st.max, VIT_REL);
                    if !ok && explicit_end && close(v, pj_no_end, VIT_REL) && close(v, st.max_no_end, VIT_REL) {
                        // exactly what an implementation computes that never looks at end_prob
                        cc.violation(
                            format!("C14/viterbi/{}/end-prob-ignored", kind),
                            format!(
                                "reported {} = maximum WITHOUT end factor; path {:?} has joint {} with end factor; true maximum {}",
                                v, pidx, pj, st.max
                            ),
                        );
                    } else {
                        if !close(v, pj, VIT_REL) {
                            cc.violation(
                                format!("C14/viterbi/{}/reported-differs-from-path-joint", kind),
                                format!("reported {} but returned path {:?} has joint probability {}", v, pidx, pj),
                            );
                        }
                        if !close(pj, st.max, VIT_REL) {
                            cc.violation(
                                format!("C14/viterbi/{}/path-not-maximal", kind),
                                format!("returned path {:?} has joint {} but the maximum over all paths is {}", pidx, pj, st.max),
                            );
                        }
                    }
                }
            }
        }
    }

    // ---- forward / backward
    for (name, r) in [("forward", &a.fw), ("backward", &a.bw)] {
        match r {
            Err(msg) => cc.violation(format!("C14/{}/{}/panic", name, kind), msg.clone()),
            Ok(lp) => {
                let l = **lp;
                cc.outcome(&l.to_bits());
                if l.is_nan() || l == f64::INFINITY {
                    cc.violation(
                        format!("C14/{}/{}/nan-or-inf", name, kind),
                        format!("likelihood ln p = {:?}", l),
                    );
                    continue;
                }
                let f = l.exp();
                if impossible {
                    if l != f64::NEG_INFINITY {
                        cc.violation(
                            format!("C14/{}/{}/impossible-sequence-nonzero", name, kind),
                            format!("no path has positive probability but {} reports ln p = {:?}", name, l),
                        );
                    }
                } else if !close(f, st.sum, rel) {
                    cc.violation(
                        format!("C14/{}/{}/differs-from-path-sum", name, kind),
                        format!("{} gives {} but the sum over all {} paths is {} (tolerance {:.4} relative)", name, f, st.paths, st.sum, rel),
                    );
                }
                if let Some(v) = vit_prob {
                    if f * (1.0 + rel) < v {
                        cc.violation(
                            format!("C14/{}/{}/below-viterbi", name, kind),
                            format!("likelihood {} is smaller than the Viterbi probability {}", f, v),
                        );
                    }
                }
            }
        }
    }
}

fn check(spec: &Spec, built: &Built, obs: &[usize], cc: &mut CaseCtx) {
    let st = spec.brute(obs);
    cc.set_nontrivial(st.positive_paths >= 2);
    let kind = if spec.end.is_some() { "opt_end-explicit" } else { "opt_end-none" };
    match &built.end_model {
        Err(msg) => cc.violation(format!("C14/construct/{}/rejected", kind), msg.clone()),
        Ok(m) => {
            let a = Answers {
                vit: guard(|| viterbi(m, obs)),
                fw: guard(|| forward(m, obs).1),
                bw: guard(|| backward(m, obs).1),
            };
            check_answers(kind, spec, obs, &st, &a, cc);
        }
    }
    if let Some(pm) = &built.plain_model {
        match pm {
            Err(msg) => cc.violation("C14/construct/plain/rejected", msg.clone()),
            Ok(m) => {
                let a = Answers {
                    vit: guard(|| viterbi(m, obs)),
                    fw: guard(|| forward(m, obs).1),
                    bw: guard(|| backward(m, obs).1),
                };
                check_answers("plain", spec, obs, &st, &a, cc);
            }
        }
    }
}

// ------------------------------------------------------------------------------- descriptions

fn rows(v: &[u8], w: usize) -> Vec<Vec<u8>> {
    v.chunks(w).map(|c| c.to_vec()).collect()
}

fn fractions(v: &[u8], den: u32) -> String {
    let parts: Vec<String> = v.iter().map(|&k| format!("{}", k as f64 / den as f64)).collect();
    parts.join(",")
}

/// numerators over a common denominator are the authoritative (exact) part; "readable" is for humans
fn describe(spec: &Spec, obs: &[usize]) -> Value {
    json!({
        "kind": "hmm",
        "states": spec.s, "symbols": spec.m, "den": spec.den,
        "trans": rows(&spec.trans, spec.s),
        "em": rows(&spec.em, spec.m),
        "init": spec.init,
        "end": spec.end,
        "obs": obs,
        "readable": format!(
            "A=[{}] B=[{}] pi=[{}] end={} obs={:?}",
            rows(&spec.trans, spec.s).iter().map(|r| fractions(r, spec.den)).collect::<Vec<_>>().join(" | "),
            rows(&spec.em, spec.m).iter().map(|r| fractions(r, spec.den)).collect::<Vec<_>>().join(" | "),
            fractions(&spec.init, spec.den),
            match &spec.end { Some(e) => format!("[{}]", fractions(e, spec.den)), None => "none".to_string() },
            obs
        ),
    })
}

fn u8s(v: &Value) -> Vec<u8> {
    v.as_array()
        .map(|a| a.iter().map(|x| x.as_u64().unwrap_or(0) as u8).collect())
        .unwrap_or_default()
}

fn undescribe(case: &Value) -> Option<(Spec, Vec<usize>)> {
    let s = case["states"].as_u64()? as usize;
    let m = case["symbols"].as_u64()? as usize;
    let den = case["den"].as_u64()? as u32;
    let flat = |v: &Value| -> Vec<u8> { v.as_array().map(|a| a.iter().flat_map(u8s).collect()).unwrap_or_default() };
    let trans = flat(&case["trans"]);
    let em = flat(&case["em"]);
    let init = u8s(&case["init"]);
    let end = if case["end"].is_null() { None } else { Some(u8s(&case["end"])) };
    let obs: Vec<usize> = case["obs"].as_array()?.iter().map(|x| x.as_u64().unwrap_or(0) as usize).collect();
    if s == 0 || m == 0 || den == 0 || trans.len() != s * s || em.len() != s * m || init.len() != s {
        return None;
    }
    if end.as_ref().map_or(false, |e| e.len() != s) || obs.is_empty() || obs.iter().any(|&o| o >= m) {
        return None;
    }
    Some((Spec { s, m, den, trans, em, init, end }, obs))
}

// ---------------------------------------------------------------------------------- the sweep

/// deterministic partition of the model indices into shards.  A plain `index % shards` would
/// alias with the radices of the odometer (e.g. 6 shards and 6 end options would give one shard
/// all models without end vector), so the index of the model-without-end is mixed first.
#[inline]
fn shard_of(q: u64, shards: usize) -> usize {
    ((q.wrapping_mul(0x9E37_79B9_7F4A_7C15) >> 40) % shards as u64) as usize
}

fn run_family(fam: Family, shard: usize, ctx: &mut Ctx) {
    let space = Space::new(fam);
    let ne = space.ends.len() as u64;
    let nq = space.models() / ne;
    for q in 0..nq {
        if shard_of(q, fam.shards) != shard {
            continue;
        }
        if ctx.res.capped {
            break;
        }
        for e in 0..ne {
            let spec = space.model(q * ne + e);
            let built = build(&spec);
            for obs in &space.obs {
                ctx.case(|| describe(&spec, obs), |cc| check(&spec, &built, obs, cc));
            }
        }
    }
}


// ------------------------------------------------------------------------------ long sequences
//
// The lattice families stop at T <= 6, where all operands of one log-sum-exp are within a few
// nats of each other.  Long sequences put hundreds of nats between them (the regime of the fast
// exponential's cut-off and of f64 underflow).  Path enumeration is impossible here; the oracle
// is the textbook forward / max-plus recursion in log space with libm's exact exp/ln.

fn lse(xs: &[f64]) -> f64 {
    let m = xs.iter().cloned().fold(f64::NEG_INFINITY, f64::max);
    if m == f64::NEG_INFINITY {
        return m;
    }
    m + xs.iter().map(|&x| (x - m).exp()).sum::<f64>().ln()
}

fn long_specs() -> Vec<Spec> {
    let mut v = vec![];
    let base: Vec<(Vec<u8>, Vec<u8>, Vec<u8>)> = vec![
        (vec![10, 0, 0, 10], vec![9, 1, 1, 9], vec![5, 5]), // two non-communicating states
        (vec![9, 1, 0, 10], vec![9, 1, 2, 8], vec![10, 0]), // left-to-right
        (vec![7, 3, 4, 6], vec![9, 1, 1, 9], vec![5, 5]),   // ergodic
        (vec![5, 5, 5, 5], vec![10, 0, 1, 9], vec![5, 5]),  // one state cannot emit symbol 1
    ];
    for (t, e, i) in base {
        for end in [None, Some(vec![5u8, 5]), Some(vec![10u8, 1])] {
            v.push(Spec { s: 2, m: 2, den: 10, trans: t.clone(), em: e.clone(), init: i.clone(), end });
        }
    }
    for end in [None, Some(vec![3u8])] {
        v.push(Spec { s: 1, m: 2, den: 10, trans: vec![10], em: vec![1, 9], init: vec![10], end });
    }
    v
}

fn long_lengths(tier: Tier) -> Vec<usize> {
    let mut v = vec![64usize, 200, 320, 324, 330, 339, 400, 709, 1000];
    if tier == Tier::Thorough {
        v.extend(300..=345);
        v.extend(700..=760);
        v.push(3000);
    }
    v.sort();
    v.dedup();
    v
}

fn long_obs(shape: usize, t: usize) -> Vec<usize> {
    (0..t)
        .map(|i| match shape {
            0 => 0,
            1 => 1,
            2 => i % 2,
            _ => (i >= t / 2) as usize,
        })
        .collect()
}

fn check_long(spec: &Spec, obs: &[usize], cc: &mut CaseCtx) {
    let t = obs.len();
    let (s, m) = (spec.s, spec.m);
    let ln = |k: u8| (k as f64 / spec.den as f64).ln();
    let end: Vec<f64> = match &spec.end {
        Some(e) => e.iter().map(|&k| ln(k)).collect(),
        None => vec![0.0; s],
    };
    // oracle: forward and max-plus in log space
    let mut alpha: Vec<f64> = (0..s).map(|j| ln(spec.init[j]) + ln(spec.em[j * m + obs[0]])).collect();
    let mut delta = alpha.clone();
    for &o in &obs[1..] {
        let na: Vec<f64> = (0..s)
            .map(|j| lse(&(0..s).map(|i| alpha[i] + ln(spec.trans[i * s + j])).collect::<Vec<_>>()) + ln(spec.em[j * m + o]))
            .collect();
        let nd: Vec<f64> = (0..s)
            .map(|j| (0..s).map(|i| delta[i] + ln(spec.trans[i * s + j])).fold(f64::NEG_INFINITY, f64::max) + ln(spec.em[j * m + o]))
            .collect();
        alpha = na;
        delta = nd;
    }
    let want_lik = lse(&(0..s).map(|j| alpha[j] + end[j]).collect::<Vec<_>>());
    let want_vit = (0..s).map(|j| delta[j] + end[j]).fold(f64::NEG_INFINITY, f64::max);
    cc.set_nontrivial(want_lik > f64::NEG_INFINITY && t >= 300);
    cc.outcome(&(want_lik.to_bits(), want_vit.to_bits()));
    let built = build(spec);
    let model = match &built.end_model {
        Ok(mdl) => mdl,
        Err(e) => {
            cc.violation("C14/construct/long-sequence/rejected", e.clone());
            return;
        }
    };
    let tol = (t as f64 + 1.0) * 1.005f64.ln() + 1e-9;
    let vtol = 1e-9 * (t as f64 + 1.0) * (1.0 + want_vit.abs().min(1e6));
    for (name, r) in [("forward", guard(|| *forward(model, obs).1)), ("backward", guard(|| *backward(model, obs).1))] {
        match r {
            Err(p) => cc.violation(format!("C14/{}/long-sequence/panic", name), p),
            Ok(x) => {
                if x.is_nan() || x == f64::INFINITY {
                    cc.violation(format!("C14/{}/long-sequence/nan-or-inf", name), format!("T={} result {}", t, x));
                } else if want_lik == f64::NEG_INFINITY {
                    if x != f64::NEG_INFINITY {
                        cc.violation(format!("C14/{}/long-sequence/impossible-sequence-nonzero", name), format!("T={} ln p = {}", t, x));
                    }
                } else if !((x - want_lik).abs() <= tol) {
                    cc.violation(format!("C14/{}/long-sequence/differs-from-log-space-recursion", name), format!("T={} ln p = {} expected {} (tolerance {})", t, x, want_lik, tol));
                } else if x < want_vit - tol {
                    cc.violation(format!("C14/{}/long-sequence/below-viterbi", name), format!("T={} ln p = {} viterbi {}", t, x, want_vit));
                }
            }
        }
    }
    match guard(|| viterbi(model, obs)) {
        Err(p) => cc.violation("C14/viterbi/long-sequence/panic", p),
        Ok((path, lp)) => {
            let x = *lp;
            if x.is_nan() || x == f64::INFINITY {
                cc.violation("C14/viterbi/long-sequence/nan-or-inf", format!("T={} result {}", t, x));
            } else if path.len() != t || path.iter().any(|st| **st >= s) {
                cc.violation("C14/viterbi/long-sequence/path-malformed", format!("T={} path length {}", t, path.len()));
            } else if want_vit == f64::NEG_INFINITY {
                if x != f64::NEG_INFINITY {
                    cc.violation("C14/viterbi/long-sequence/impossible-sequence-nonzero", format!("T={} ln p = {}", t, x));
                }
            } else {
                let pj: f64 = {
                    let mut a = ln(spec.init[*path[0]]) + ln(spec.em[*path[0] * m + obs[0]]);
                    for i in 1..t {
                        a += ln(spec.trans[*path[i - 1] * s + *path[i]]) + ln(spec.em[*path[i] * m + obs[i]]);
                    }
                    a + end[*path[t - 1]]
                };
                if !((x - want_vit).abs() <= vtol) {
                    cc.violation("C14/viterbi/long-sequence/path-not-maximal", format!("T={} reported {} maximum {}", t, x, want_vit));
                } else if !((x - pj).abs() <= vtol) {
                    cc.violation("C14/viterbi/long-sequence/reported-differs-from-path-joint", format!("T={} reported {} path joint {}", t, x, pj));
                }
            }
        }
    }
}

// ---- many states: indices beyond one byte (back-pointer tables, state iterators)

/// ring model: state i moves to i+1 (mod s) with 9/10 and stays with 1/10, emits symbol i%2 with
/// 9/10; all initial mass on `start`; optional end vector that lets only every third state end
fn many_spec(s: usize, start: usize, with_end: bool) -> Spec {
    let mut trans = vec![0u8; s * s];
    let mut em = vec![0u8; s * 2];
    let mut init = vec![0u8; s];
    for i in 0..s {
        trans[i * s + (i + 1) % s] = 9;
        trans[i * s + i] = 1;
        em[i * 2 + i % 2] = 9;
        em[i * 2 + 1 - i % 2] = 1;
    }
    init[start] = 10;
    let end = if with_end { Some((0..s).map(|i| if i % 3 == 0 { 10u8 } else { 1 }).collect()) } else { None };
    Spec { s, m: 2, den: 10, trans, em, init, end }
}

/// (states, start state) of the many-states family
fn many_params(tier: Tier) -> Vec<(usize, usize)> {
    tier.pick(vec![(255, 250), (256, 250), (257, 250), (300, 290)], vec![(255, 250), (256, 250), (257, 250), (258, 3), (300, 290), (300, 0), (513, 505), (600, 250)])
}

fn run_many(tier: Tier, ctx: &mut Ctx) {
    for (s, start) in many_params(tier) {
        for with_end in [false, true] {
            let spec = many_spec(s, start, with_end);
            for t in tier.pick(vec![1usize, 2, 9, 24], vec![1usize, 2, 3, 9, 24, 60]) {
                for shape in 0..4 {
                    // shapes 2 (alternating) follows the ring when start is even; the others force stays
                    let obs: Vec<usize> = long_obs(shape, t).iter().map(|&o| (o + start) % 2).collect();
                    ctx.case(
                        || json!({"kind": "many-states", "s": s, "start": start, "with_end": with_end, "t": t, "shape": shape}),
                        |cc| {
                            check_long(&spec, &obs, cc);
                            cc.set_nontrivial(t >= 9);
                        },
                    );
                }
            }
        }
    }
}

fn run_long(tier: Tier, ctx: &mut Ctx) {
    for (si, spec) in long_specs().iter().enumerate() {
        for t in long_lengths(tier) {
            for shape in 0..4 {
                let obs = long_obs(shape, t);
                ctx.case(|| json!({"kind": "long", "spec_index": si, "t": t, "shape": shape}), |cc| check_long(spec, &obs, cc));
            }
        }
    }
}

// ===================================================================== entry points (appended)
//
// Everything above runs the algorithms on models built with `with_float`.  The families below
// cover the other public routes to the same behaviour: the `with_prob` and `new` constructors
// (the same case function runs on the models they build), the dimension check of `new`, the state
// and transition iterators, and the continuous-emission model.

fn settle<T, E: std::fmt::Display>(r: Result<Result<T, E>, String>) -> Result<T, String> {
    match r {
        Ok(Ok(m)) => Ok(m),
        Ok(Err(e)) => Err(format!("constructor returned Err: {}", e)),
        Err(p) => Err(format!("constructor panicked: {}", p)),
    }
}

fn ln_of(x: f64) -> LogProb {
    LogProb::from(Prob(x))
}

struct Routes {
    /// the `with_float` models: the route the sweep above checks
    base: Built,
    plain: Vec<(&'static str, Result<PlainModel, String>)>,
    end: Vec<(&'static str, Result<EndModel, String>)>,
}

fn build_routes(spec: &Spec) -> Routes {
    let (s, m) = (spec.s, spec.m);
    let (tf, ef, inf) = (spec.trans_f(), spec.em_f(), spec.init_f());
    let tr_p = Array2::from_shape_vec((s, s), tf.iter().map(|&x| Prob(x)).collect()).unwrap();
    let em_p = Array2::from_shape_vec((s, m), ef.iter().map(|&x| Prob(x)).collect()).unwrap();
    let in_p = Array1::from_vec(inf.iter().map(|&x| Prob(x)).collect());
    let tr_l = Array2::from_shape_vec((s, s), tf.iter().map(|&x| ln_of(x)).collect()).unwrap();
    let em_l = Array2::from_shape_vec((s, m), ef.iter().map(|&x| ln_of(x)).collect()).unwrap();
    let in_l = Array1::from_vec(inf.iter().map(|&x| ln_of(x)).collect());
    let mut plain = vec![];
    let mut end = vec![];
    match spec.end_f() {
        None => {
            plain.push(("plain-with_prob", settle(guard(|| PlainModel::with_prob(&tr_p, &em_p, &in_p)))));
            plain.push(("plain-new", settle(guard(|| PlainModel::new(tr_l.clone(), em_l.clone(), in_l.clone())))));
            end.push(("opt_end-none-with_prob", settle(guard(|| EndModel::with_prob(&tr_p, &em_p, &in_p, None)))));
            // "no end state" spelled out: has_end_state = false, every end probability 1
            let ones = Array1::from_vec(vec![LogProb::ln_one(); s]);
            end.push((
                "opt_end-none-new",
                settle(guard(|| {
                    EndModel::new(RefCell::new(tr_l.clone()), RefCell::new(em_l.clone()), RefCell::new(in_l.clone()), RefCell::new(ones), false)
                })),
            ));
        }
        Some(e) => {
            let e_p = Array1::from_vec(e.iter().map(|&x| Prob(x)).collect());
            let e_l = Array1::from_vec(e.iter().map(|&x| ln_of(x)).collect());
            end.push(("opt_end-explicit-with_prob", settle(guard(|| EndModel::with_prob(&tr_p, &em_p, &in_p, Some(&e_p))))));
            end.push((
                "opt_end-explicit-new",
                settle(guard(|| {
                    EndModel::new(RefCell::new(tr_l.clone()), RefCell::new(em_l.clone()), RefCell::new(in_l.clone()), RefCell::new(e_l), true)
                })),
            ));
        }
    }
    Routes { base: build(spec), plain, end }
}

/// the sweep's case function on the models of the other constructors
fn check_routes(spec: &Spec, routes: &Routes, obs: &[usize], cc: &mut CaseCtx) {
    let st = spec.brute(obs);
    cc.set_nontrivial(st.positive_paths >= 2);
    for (kind, m) in &routes.plain {
        match m {
            Err(msg) => cc.violation(format!("C14/construct/{}/rejected", kind), msg.clone()),
            Ok(m) => {
                let a = Answers { vit: guard(|| viterbi(m, obs)), fw: guard(|| forward(m, obs).1), bw: guard(|| backward(m, obs).1) };
                check_answers(kind, spec, obs, &st, &a, cc);
            }
        }
    }
    for (kind, m) in &routes.end {
        match m {
            Err(msg) => cc.violation(format!("C14/construct/{}/rejected", kind), msg.clone()),
            Ok(m) => {
                let a = Answers { vit: guard(|| viterbi(m, obs)), fw: guard(|| forward(m, obs).1), bw: guard(|| backward(m, obs).1) };
                check_answers(kind, spec, obs, &st, &a, cc);
            }
        }
    }
}

/// `items` = what an iterator over "all transitions" of an n-state model produced.  Demanded:
/// every ordered pair (a, b) of states appears exactly once.  Items that name a state >= n are
/// only counted (see the report of this work package: the iterator as written emits (a, n) at
/// the end of every row and a row for a = n).
fn check_transition_items(label: &str, n: usize, items: &[(usize, usize)], exhausted: bool, cc: &mut CaseCtx) {
    if !exhausted {
        cc.violation(format!("C14/transitions/{}/does-not-terminate", label), format!("more than {} items for {} states", items.len(), n));
        return;
    }
    let mut seen = vec![0u32; n * n];
    let mut outside = 0u64;
    for &(a, b) in items {
        if a < n && b < n {
            seen[a * n + b] += 1;
        } else {
            outside += 1;
        }
    }
    cc.outcome(&(n, items.len(), outside));
    cc.count("transition_iter_items_naming_a_state_outside_0..n", outside);
    if let Some(i) = seen.iter().position(|&c| c == 0) {
        cc.violation(format!("C14/transitions/{}/pair-missing", label), format!("{} states: pair ({}, {}) never produced; items {:?}", n, i / n, i % n, items));
    }
    if let Some(i) = seen.iter().position(|&c| c > 1) {
        cc.violation(format!("C14/transitions/{}/pair-duplicated", label), format!("{} states: pair ({}, {}) produced {} times; items {:?}", n, i / n, i % n, seen[i], items));
    }
}

fn check_state_items(label: &str, n: usize, items: &[usize], exhausted: bool, cc: &mut CaseCtx) {
    if !exhausted {
        cc.violation(format!("C14/states/{}/does-not-terminate", label), format!("more than {} items for {} states", items.len(), n));
        return;
    }
    let mut sorted = items.to_vec();
    sorted.sort();
    if sorted != (0..n).collect::<Vec<usize>>() {
        cc.violation(format!("C14/states/{}/not-each-state-once", label), format!("{} states: produced {:?}", n, items));
    }
}

fn drain_transitions(it: StateTransitionIter, n: usize) -> (Vec<(usize, usize)>, bool) {
    let cap = (n + 2) * (n + 2) + 8;
    let mut v = vec![];
    for x in it {
        if v.len() >= cap {
            return (v, false);
        }
        v.push((*x.src, *x.dst));
    }
    (v, true)
}

fn drain_states(it: StateIter, n: usize) -> (Vec<usize>, bool) {
    let mut v = vec![];
    for x in it {
        if v.len() >= n + 8 {
            return (v, false);
        }
        v.push(*x);
    }
    (v, true)
}

/// accessors of one model object against the numerators it was built from
fn check_model_object<M: HmmModel<usize>>(kind: &str, spec: &Spec, m: &M, cc: &mut CaseCtx) {
    let n = m.num_states();
    if n != spec.s {
        cc.violation(format!("C14/construct/{}/num-states-differs", kind), format!("{} states given, num_states() = {}", spec.s, n));
        return;
    }
    match guard(|| drain_states(m.states(), n)) {
        Err(p) => cc.violation(format!("C14/states/{}/panic", kind), p),
        Ok((v, done)) => check_state_items(kind, n, &v, done, cc),
    }
    match guard(|| drain_transitions(m.transitions(), n)) {
        Err(p) => cc.violation(format!("C14/transitions/{}/panic", kind), p),
        Ok((v, done)) => check_transition_items(kind, n, &v, done, cc),
    }
}

/// one case per model: the models of all routes are the same model
fn check_model(spec: &Spec, routes: &Routes, cc: &mut CaseCtx) {
    cc.set_nontrivial(spec.s >= 2);
    let want_end = spec.end.is_some();
    if let Ok(b) = &routes.base.end_model {
        check_model_object("opt_end-with_float", spec, b, cc);
        if b.has_end_state() != want_end {
            cc.violation("C14/construct/opt_end-with_float/has-end-state-wrong", format!("end vector given: {}, has_end_state() = {}", want_end, b.has_end_state()));
        }
    }
    if let Some(Ok(b)) = &routes.base.plain_model {
        check_model_object("plain-with_float", spec, b, cc);
        if b.has_end_state() {
            cc.violation("C14/construct/plain-with_float/has-end-state-wrong", "a model type without end probabilities reports an end state");
        }
    }
    for (kind, m) in &routes.plain {
        match m {
            Err(msg) => cc.violation(format!("C14/construct/{}/rejected", kind), msg.clone()),
            Ok(m) => {
                check_model_object(kind, spec, m, cc);
                if let Some(Ok(b)) = &routes.base.plain_model {
                    if m != b {
                        cc.violation(format!("C14/construct/{}/differs-from-with_float", kind), format!("{:?} vs with_float {:?}", m, b));
                    }
                }
            }
        }
    }
    for (kind, m) in &routes.end {
        match m {
            Err(msg) => cc.violation(format!("C14/construct/{}/rejected", kind), msg.clone()),
            Ok(m) => {
                check_model_object(kind, spec, m, cc);
                if m.has_end_state() != want_end {
                    cc.violation(format!("C14/construct/{}/has-end-state-wrong", kind), format!("end vector given: {}, has_end_state() = {}", want_end, m.has_end_state()));
                }
                if let Ok(b) = &routes.base.end_model {
                    if m != b {
                        cc.violation(format!("C14/construct/{}/differs-from-with_float", kind), format!("{:?} vs with_float {:?}", m, b));
                    }
                }
            }
        }
    }
}

const ROUTES_QUICK: &[Family] = &[
    Family { name: "routes-s1m2-quarters", s: 1, m: 2, den: 4, tmax: 4, ends: Ends::Full, em_step: 1, shards: 1 },
    Family { name: "routes-s2m2-halves", s: 2, m: 2, den: 2, tmax: 3, ends: Ends::Few, em_step: 1, shards: 1 },
];
const ROUTES_THOROUGH: &[Family] = &[
    Family { name: "routes-s1m2-quarters", s: 1, m: 2, den: 4, tmax: 6, ends: Ends::Full, em_step: 1, shards: 1 },
    Family { name: "routes-s2m2-halves", s: 2, m: 2, den: 2, tmax: 4, ends: Ends::Full, em_step: 1, shards: 1 },
    Family { name: "routes-s3m1-halves", s: 3, m: 1, den: 2, tmax: 3, ends: Ends::Few, em_step: 1, shards: 1 },
];
const ROUTE_SHARDS: usize = 4;

fn route_families(tier: Tier) -> &'static [Family] {
    tier.pick(ROUTES_QUICK, ROUTES_THOROUGH)
}

fn describe_as(kind: &str, spec: &Spec, obs: &[usize]) -> Value {
    let mut v = describe(spec, obs);
    v["kind"] = json!(kind);
    v
}

fn run_routes(tier: Tier, shard: usize, ctx: &mut Ctx) {
    for fam in route_families(tier) {
        let space = Space::new(*fam);
        for idx in 0..space.models() {
            if shard_of(idx, ROUTE_SHARDS) != shard {
                continue;
            }
            if ctx.res.capped {
                return;
            }
            let spec = space.model(idx);
            let routes = build_routes(&spec);
            ctx.case(|| describe_as("hmm-model", &spec, &[]), |cc| check_model(&spec, &routes, cc));
            for obs in &space.obs {
                ctx.case(|| describe_as("hmm-routes", &spec, obs), |cc| check_routes(&spec, &routes, obs, cc));
            }
        }
    }
}

// ------------------------------------------------------------------------- dimension check

fn shape_dim(tier: Tier) -> usize {
    tier.pick(3, 5)
}

/// every constructor of both discrete models on arrays of the given shapes (all entries 1/2):
/// Ok exactly when A is square and A, B and pi agree on the number of states, otherwise
/// Err(InvalidDimension) carrying the five numbers it names; never a panic
fn check_shape(a0: usize, a1: usize, bn: usize, bm: usize, pin: usize, cc: &mut CaseCtx) {
    let consistent = a0 == a1 && a0 == bn && a0 == pin;
    cc.set_nontrivial(!consistent);
    let h = 0.5f64;
    let (tr_f, em_f, in_f, en_f) = (Array2::from_elem((a0, a1), h), Array2::from_elem((bn, bm), h), Array1::from_elem(pin, h), Array1::from_elem(pin, h));
    let (tr_p, em_p, in_p, en_p) = (tr_f.map(|&x| Prob(x)), em_f.map(|&x| Prob(x)), in_f.map(|&x| Prob(x)), en_f.map(|&x| Prob(x)));
    let (tr_l, em_l, in_l, en_l) = (tr_f.map(|&x| ln_of(x)), em_f.map(|&x| ln_of(x)), in_f.map(|&x| ln_of(x)), en_f.map(|&x| ln_of(x)));
    let cell = |a: &Array2<LogProb>| RefCell::new(a.clone());
    let cell1 = |a: &Array1<LogProb>| RefCell::new(a.clone());
    // (route, outcome: Ok(num_states) | Err(error))
    let results: Vec<(&str, Result<Result<usize, HmmError>, String>)> = vec![
        ("plain-new", guard(|| PlainModel::new(tr_l.clone(), em_l.clone(), in_l.clone()).map(|m| m.num_states()))),
        ("plain-with_prob", guard(|| PlainModel::with_prob(&tr_p, &em_p, &in_p).map(|m| m.num_states()))),
        ("plain-with_float", guard(|| PlainModel::with_float(&tr_f, &em_f, &in_f).map(|m| m.num_states()))),
        ("opt_end-new", guard(|| EndModel::new(cell(&tr_l), cell(&em_l), cell1(&in_l), cell1(&en_l), true).map(|m| m.num_states()))),
        ("opt_end-none-with_prob", guard(|| EndModel::with_prob(&tr_p, &em_p, &in_p, None).map(|m| m.num_states()))),
        ("opt_end-explicit-with_prob", guard(|| EndModel::with_prob(&tr_p, &em_p, &in_p, Some(&en_p)).map(|m| m.num_states()))),
        ("opt_end-none-with_float", guard(|| EndModel::with_float(&tr_f, &em_f, &in_f, None).map(|m| m.num_states()))),
        ("opt_end-explicit-with_float", guard(|| EndModel::with_float(&tr_f, &em_f, &in_f, Some(&en_f)).map(|m| m.num_states()))),
    ];
    for (route, r) in results {
        judge_shape(route, consistent, (a0, a1, bn, bm, pin), r, cc);
    }
}

fn judge_shape(route: &str, consistent: bool, dims: (usize, usize, usize, usize, usize), r: Result<Result<usize, HmmError>, String>, cc: &mut CaseCtx) {
    let (a0, a1, bn, bm, pin) = dims;
    let shape = format!("A {}x{}, B {}x{}, pi {}", a0, a1, bn, bm, pin);
    match r {
        Err(p) => cc.violation(format!("C14/construct/{}/dimension-check-panic", route), format!("{}: {}", shape, p)),
        Ok(Ok(n)) => {
            cc.outcome(&(route, true));
            if !consistent {
                cc.violation(format!("C14/construct/{}/invalid-dimension-accepted", route), format!("{} gave a model with {} states", shape, n));
            } else if n != a0 {
                cc.violation(format!("C14/construct/{}/num-states-differs", route), format!("{}: num_states() = {}", shape, n));
            }
        }
        Ok(Err(e)) => {
            cc.outcome(&(route, false));
            if consistent {
                cc.violation(format!("C14/construct/{}/valid-dimension-rejected", route), format!("{}: {}", shape, e));
            } else {
                let HmmError::InvalidDimension { an0, an1, bn: ebn, bm: ebm, pin: epin } = e;
                if (an0, an1, ebn, ebm, epin) != dims {
                    cc.violation(format!("C14/construct/{}/invalid-dimension-fields-wrong", route), format!("{}: error says {}", shape, e));
                }
            }
        }
    }
}

/// the stand-alone iterator constructors
fn check_iter_ctor(n: usize, cc: &mut CaseCtx) {
    cc.set_nontrivial(n >= 2);
    match guard(|| drain_states(StateIter::new(n), n)) {
        Err(p) => cc.violation("C14/states/StateIter-new/panic", p),
        Ok((v, done)) => check_state_items("StateIter-new", n, &v, done, cc),
    }
    match guard(|| drain_transitions(StateTransitionIter::new(n), n)) {
        Err(p) => cc.violation("C14/transitions/StateTransitionIter-new/panic", p),
        Ok((v, done)) => check_transition_items("StateTransitionIter-new", n, &v, done, cc),
    }
}

fn normal_dists(n: usize) -> Vec<Normal> {
    (0..n).map(|i| Normal::new(i as f64, 1.0).unwrap()).collect()
}

/// dimension check of the continuous-emission constructors (B is a list of bn distributions)
fn check_gauss_shape(a0: usize, a1: usize, bn: usize, pin: usize, cc: &mut CaseCtx) {
    let consistent = a0 == a1 && a0 == bn && a0 == pin;
    cc.set_nontrivial(!consistent);
    let h = 0.5f64;
    let (tr_f, in_f) = (Array2::from_elem((a0, a1), h), Array1::from_elem(pin, h));
    let (tr_p, in_p) = (tr_f.map(|&x| Prob(x)), in_f.map(|&x| Prob(x)));
    let (tr_l, in_l) = (tr_f.map(|&x| ln_of(x)), in_f.map(|&x| ln_of(x)));
    let results: Vec<(&str, Result<Result<usize, HmmError>, String>)> = vec![
        ("gauss-new", guard(|| GaussianModel::new(tr_l.clone(), normal_dists(bn), in_l.clone()).map(|m| m.num_states()))),
        ("gauss-with_prob", guard(|| GaussianModel::with_prob(&tr_p, normal_dists(bn), &in_p).map(|m| m.num_states()))),
        ("gauss-with_float", guard(|| GaussianModel::with_float(&tr_f, normal_dists(bn), &in_f).map(|m| m.num_states()))),
    ];
    for (route, r) in results {
        // the error reports the number of distributions as both N and M of B
        judge_shape(route, consistent, (a0, a1, bn, bn, pin), r, cc);
    }
}

fn run_shapes(tier: Tier, ctx: &mut Ctx) {
    let d = shape_dim(tier);
    for n in 0..=(2 * d + 2) {
        ctx.case(|| json!({"kind": "iter-ctor", "n": n}), |cc| check_iter_ctor(n, cc));
    }
    for v in gen_shapes(d) {
        let (a0, a1, bn, pin) = (v[0], v[1], v[2], v[3]);
        for bm in 0..=2usize {
            ctx.case(|| json!({"kind": "shape", "a0": a0, "a1": a1, "bn": bn, "bm": bm, "pin": pin}), |cc| check_shape(a0, a1, bn, bm, pin, cc));
        }
        ctx.case(|| json!({"kind": "gauss-shape", "a0": a0, "a1": a1, "bn": bn, "pin": pin}), |cc| check_gauss_shape(a0, a1, bn, pin, cc));
    }
}

/// all (a0, a1, bn, pin) in 0..=d
fn gen_shapes(d: usize) -> Vec<[usize; 4]> {
    let mut v = vec![];
    for a0 in 0..=d {
        for a1 in 0..=d {
            for bn in 0..=d {
                for pin in 0..=d {
                    v.push([a0, a1, bn, pin]);
                }
            }
        }
    }
    v
}

// ------------------------------------------------------------- continuous (Gaussian) emissions
//
// Outside the statement of C14 (which names the two discrete models); kept small.  Same oracle:
// enumeration of all state paths, the emission factor being the normal density.  The products are
// no longer exact, but their rounding (~1e-15 relative) is far inside the tolerances.

/// (mean, standard deviation): densities stay below 1 and above 1e-9 on GAUSS_OBS
const GAUSS_DISTS: &[(f64, f64)] = &[(0.0, 1.0), (2.0, 0.5), (-1.0, 1.0)];
const GAUSS_OBS: &[f64] = &[-1.0, 0.0, 0.5, 2.0];

#[derive(Clone, Debug)]
struct GSpec {
    s: usize,
    den: u32,
    trans: Vec<u8>,
    init: Vec<u8>,
    /// per state (mean, sd)
    dists: Vec<(f64, f64)>,
}

fn normal_pdf(mean: f64, sd: f64, x: f64) -> f64 {
    let z = (x - mean) / sd;
    (-0.5 * z * z).exp() / (sd * (2.0 * std::f64::consts::PI).sqrt())
}

impl Joint<f64> for GSpec {
    fn n_states(&self) -> usize {
        self.s
    }
    fn explicit_end(&self) -> bool {
        false
    }
    fn joint(&self, path: &[usize], obs: &[f64]) -> f64 {
        self.joint_no_end(path, obs)
    }
    fn joint_no_end(&self, path: &[usize], obs: &[f64]) -> f64 {
        let f = |k: u8| k as f64 / self.den as f64;
        let em = |st: usize, x: f64| normal_pdf(self.dists[st].0, self.dists[st].1, x);
        let mut p = f(self.init[path[0]]) * em(path[0], obs[0]);
        for i in 1..obs.len() {
            p *= f(self.trans[path[i - 1] * self.s + path[i]]);
            p *= em(path[i], obs[i]);
        }
        p
    }
}

impl GSpec {
    fn brute(&self, obs: &[f64]) -> PathStats {
        let t = obs.len();
        let mut st = PathStats::default();
        let mut path = vec![0usize; t];
        loop {
            let p = self.joint_no_end(&path, obs);
            st.paths += 1;
            st.sum += p;
            st.max = st.max.max(p);
            st.max_no_end = st.max;
            if p > 0.0 {
                st.positive_paths += 1;
            }
            let mut i = t;
            loop {
                if i == 0 {
                    return st;
                }
                i -= 1;
                path[i] += 1;
                if path[i] < self.s {
                    break;
                }
                path[i] = 0;
            }
        }
    }
}

fn build_gauss(g: &GSpec) -> Vec<(&'static str, Result<GaussianModel, String>)> {
    let s = g.s;
    let f = |k: u8| k as f64 / g.den as f64;
    let tf: Vec<f64> = g.trans.iter().map(|&k| f(k)).collect();
    let inf: Vec<f64> = g.init.iter().map(|&k| f(k)).collect();
    let dists = || -> Vec<Normal> { g.dists.iter().map(|&(m, sd)| Normal::new(m, sd).unwrap()).collect() };
    let tr_f = Array2::from_shape_vec((s, s), tf.clone()).unwrap();
    let in_f = Array1::from_vec(inf.clone());
    let tr_p = tr_f.map(|&x| Prob(x));
    let in_p = in_f.map(|&x| Prob(x));
    let tr_l = tr_f.map(|&x| ln_of(x));
    let in_l = in_f.map(|&x| ln_of(x));
    vec![
        ("gauss-with_float", settle(guard(|| GaussianModel::with_float(&tr_f, dists(), &in_f)))),
        ("gauss-with_prob", settle(guard(|| GaussianModel::with_prob(&tr_p, dists(), &in_p)))),
        ("gauss-new", settle(guard(|| GaussianModel::new(tr_l, dists(), in_l)))),
    ]
}

fn check_gauss(g: &GSpec, models: &[(&'static str, Result<GaussianModel, String>)], obs: &[f64], cc: &mut CaseCtx) {
    let st = g.brute(obs);
    cc.set_nontrivial(st.positive_paths >= 2);
    for (kind, m) in models {
        match m {
            Err(msg) => cc.violation(format!("C14/construct/{}/rejected", kind), msg.clone()),
            Ok(m) => {
                let a = Answers { vit: guard(|| viterbi(m, obs)), fw: guard(|| forward(m, obs).1), bw: guard(|| backward(m, obs).1) };
                check_answers(kind, g, obs, &st, &a, cc);
            }
        }
    }
}

fn check_gauss_model(g: &GSpec, models: &[(&'static str, Result<GaussianModel, String>)], cc: &mut CaseCtx) {
    cc.set_nontrivial(g.s >= 2);
    let base = models[0].1.as_ref().ok();
    for (kind, m) in models {
        match m {
            Err(msg) => cc.violation(format!("C14/construct/{}/rejected", kind), msg.clone()),
            Ok(m) => {
                let n = m.num_states();
                if n != g.s {
                    cc.violation(format!("C14/construct/{}/num-states-differs", kind), format!("{} states given, num_states() = {}", g.s, n));
                    continue;
                }
                if m.has_end_state() {
                    cc.violation(format!("C14/construct/{}/has-end-state-wrong", kind), "a model type without end probabilities reports an end state");
                }
                match guard(|| drain_states(m.states(), n)) {
                    Err(p) => cc.violation(format!("C14/states/{}/panic", kind), p),
                    Ok((v, done)) => check_state_items(kind, n, &v, done, cc),
                }
                match guard(|| drain_transitions(m.transitions(), n)) {
                    Err(p) => cc.violation(format!("C14/transitions/{}/panic", kind), p),
                    Ok((v, done)) => check_transition_items(kind, n, &v, done, cc),
                }
                if let Some(b) = base {
                    if m != b {
                        cc.violation(format!("C14/construct/{}/differs-from-with_float", kind), format!("{:?} vs with_float {:?}", m, b));
                    }
                }
            }
        }
    }
}

fn gauss_tmax(tier: Tier) -> usize {
    tier.pick(3, 4)
}

fn gauss_obs(tmax: usize) -> Vec<Vec<f64>> {
    observation_sequences(GAUSS_OBS.len(), 1, tmax).into_iter().map(|o| o.into_iter().map(|i| GAUSS_OBS[i]).collect()).collect()
}

/// all n-tuples over 0..radix
fn tuples(radix: usize, n: usize) -> Vec<Vec<usize>> {
    let mut v = vec![];
    crate::gen::odometer(&vec![radix; n], |d| v.push(d.to_vec()));
    v
}

fn gauss_specs() -> Vec<GSpec> {
    let mut v = vec![];
    for s in 1..=2usize {
        let rows = substochastic_rows(s, 2);
        // all S-tuples of rows / of distributions
        let row_tuples = tuples(rows.len(), s);
        let dist_tuples = tuples(GAUSS_DISTS.len(), s);
        for rt in &row_tuples {
            let trans: Vec<u8> = rt.iter().flat_map(|&i| rows[i].clone()).collect();
            for init in &rows {
                for dt in &dist_tuples {
                    v.push(GSpec { s, den: 2, trans: trans.clone(), init: init.clone(), dists: dt.iter().map(|&i| GAUSS_DISTS[i]).collect() });
                }
            }
        }
    }
    v
}

fn describe_gauss(kind: &str, g: &GSpec, obs: &[f64]) -> Value {
    json!({
        "kind": kind, "states": g.s, "den": g.den, "trans": rows(&g.trans, g.s), "init": g.init,
        "dists_mean_sd": g.dists.iter().map(|d| vec![d.0, d.1]).collect::<Vec<_>>(), "obs": obs,
    })
}

fn undescribe_gauss(case: &Value) -> Option<(GSpec, Vec<f64>)> {
    let s = case["states"].as_u64()? as usize;
    let den = case["den"].as_u64()? as u32;
    let trans: Vec<u8> = case["trans"].as_array()?.iter().flat_map(u8s).collect();
    let init = u8s(&case["init"]);
    let dists: Vec<(f64, f64)> = case["dists_mean_sd"].as_array()?.iter().filter_map(|d| Some((d[0].as_f64()?, d[1].as_f64()?))).collect();
    let obs: Vec<f64> = case["obs"].as_array()?.iter().filter_map(|x| x.as_f64()).collect();
    if s == 0 || den == 0 || trans.len() != s * s || init.len() != s || dists.len() != s || dists.iter().any(|d| !(d.1 > 0.0)) {
        return None;
    }
    Some((GSpec { s, den, trans, init, dists }, obs))
}

fn run_gauss(tier: Tier, ctx: &mut Ctx) {
    let obs = gauss_obs(gauss_tmax(tier));
    for g in gauss_specs() {
        if ctx.res.capped {
            return;
        }
        let models = build_gauss(&g);
        ctx.case(|| describe_gauss("gauss-model", &g, &[]), |cc| check_gauss_model(&g, &models, cc));
        for o in &obs {
            ctx.case(|| describe_gauss("gauss", &g, o), |cc| check_gauss(&g, &models, o, cc));
        }
    }
}

fn unit_table(tier: Tier) -> Vec<(Family, usize)> {
    let mut v = vec![];
    for f in families(tier) {
        for sh in 0..f.shards {
            v.push((*f, sh));
        }
    }
    v
}

impl Prop for C14Prop {
    fn id(&self) -> &'static str {
        "C14"
    }
    fn level(&self) -> &'static str {
        "exploration"
    }
    fn rule(&self) -> &'static str {
        "Complete sweep, per family (S states, M symbols, lattice denominator d, length bound T): every model whose transition rows, emission rows and initial vector are sub-stochastic vectors of multiples of 1/d (zero rows and zero vectors included), combined with 'no end vector' and with every end vector of multiples of 1/d (families marked 'few': a fixed handful), times every observation sequence of length 1..T; one case = one (model, observation sequence) pair, each enumerated once. Models without end vector are run on both discrete_emission::Model and discrete_emission_opt_end::Model. Non-trivial: at least two state paths have positive joint probability with the observations. Plus a long-sequence family (14 fixed models x 4 observation shapes x lengths 64..1000/3000, every length 300..345 and 700..760 in the thorough tier) checked against a log-space recursion; non-trivial there: T >= 300 and the sequence is possible. Entry-point families (appended units): (a) constructor routes — every model of the listed route families is also built through with_prob and new of both discrete model types (end = None / has_end_state = false with all end probabilities 1 for models without end vector) and the same case function runs on each of these models for every observation sequence; one extra case per model compares the objects (== the with_float model, has_end_state(), num_states(), states() and transitions()); (b) every shape (rows and columns of A, rows of B, length of pi in 0..=D, columns of B in 0..=2) through all eight discrete constructors and all (A, number of distributions, pi) shapes through the three continuous-emission constructors: Ok exactly for consistent shapes, otherwise Err(InvalidDimension) naming the given numbers, never a panic (non-trivial: inconsistent shape); StateIter::new(n) and StateTransitionIter::new(n) for n = 0..=2D+2; (c) univariate_continuous_emission::GaussianModel: all models with 1-2 states over the halves lattice, three normal distributions, every observation sequence over four real values up to the length bound, all three constructors, same path-enumeration oracle with the normal density as emission factor."
    }
    fn assumptions(&self) -> Vec<&'static str> {
        vec![
            "oracle: enumeration of all S^T state paths in linear f64; all lattice values are dyadic and the bounds keep every product and partial sum exactly representable, so the oracle itself is exact",
            "joint(path) = pi * prod a * prod b * end(last state); end == 1 when the model has no end vector",
            "viterbi: reported probability = joint of the returned path = maximum over all paths, relative 1e-9 (only log-space additions are involved); which of several co-optimal paths is returned is not constrained",
            "forward/backward: equal to the path sum within relative 1.005^(T+1)-1 (one approximate log-sum-exp per observation plus the final one; 0.5 % is the documented bound of the fast exponential); likelihood >= Viterbi probability within the same tolerance",
            "impossible observation sequences (path sum exactly 0) must give exactly ln p = -inf from all three functions",
            "the statement quantifies over real-valued matrices; what is decided is its restriction to the dyadic lattices listed in the bounds",
            "end probabilities are not required to complement the transition row sums (the library does not require it either)",
            "with_prob / new are required to be equivalent routes to with_float: same answers under the same oracle, and the model objects compare equal (all three convert a probability p with the same LogProb::from(Prob(p)))",
            "transitions(): only what the rustdoc promises is demanded — every ordered pair of states of the model appears exactly once; items that name a state index >= num_states() are counted in the evidence (extra counter) but not judged",
            "states(): every state exactly once (order not constrained)",
            "InvalidDimension: the error must carry the dimensions it names (its Display text presents them as N_0, N_1 of A, N and M of B, N of pi); the continuous model reports the number of distributions as both N and M of B; the length of an explicit end vector is not checked by the library and not varied here",
            "Gaussian family: outside the statement (it names the discrete models), kept as a small additional family; oracle products are not exact there but their rounding (~1e-15) is far inside the tolerances; densities are computed by the check's own formula exp(-z^2/2)/(sd*sqrt(2 pi))",
        ]
    }
    fn bounds(&self, tier: Tier) -> Value {
        let fams: Vec<Value> = families(tier)
            .iter()
            .map(|f| {
                let sp = Space::new(*f);
                json!({
                    "family": f.name, "states": f.s, "symbols": f.m,
                    "lattice": format!("multiples of 1/{}", f.den),
                    "emission_lattice": format!("multiples of {}/{}", f.em_step, f.den),
                    "observation_lengths": format!("1..={}", f.tmax),
                    "end_vectors": match f.ends { Ends::Full => "none + all lattice vectors", Ends::Few => "none + 5 fixed vectors (few)" },
                    "models": sp.models(), "observation_sequences": sp.obs.len(),
                    "cases": sp.models() * sp.obs.len() as u64,
                })
            })
            .collect();
        let route_fams: Vec<Value> = route_families(tier)
            .iter()
            .map(|f| {
                let sp = Space::new(*f);
                json!({
                    "family": f.name, "states": f.s, "symbols": f.m, "lattice": format!("multiples of 1/{}", f.den),
                    "observation_lengths": format!("1..={}", f.tmax),
                    "end_vectors": match f.ends { Ends::Full => "none + all lattice vectors", Ends::Few => "none + 5 fixed vectors (few)" },
                    "routes": "models without end vector: discrete_emission::{with_prob,new}, discrete_emission_opt_end::{with_prob(None), new(.., ones, false)}; with end vector: discrete_emission_opt_end::{with_prob(Some), new(.., end, true)}",
                    "models": sp.models(), "cases": sp.models() * (sp.obs.len() as u64 + 1),
                })
            })
            .collect();
        let d = shape_dim(tier);
        json!({ "families": fams,
            "constructor_routes": route_fams,
            "dimension_shapes": {"A_rows, A_cols, B_rows, pi_len": format!("0..={}", d), "B_cols": "0..=2", "discrete_constructors": 8, "continuous_constructors": 3, "iterator_constructors_n": format!("0..={}", 2 * d + 2)},
            "gaussian": {"states": "1..=2", "lattice": "multiples of 1/2", "distributions_mean_sd": GAUSS_DISTS, "observation_values": GAUSS_OBS, "observation_lengths": format!("1..={}", gauss_tmax(tier)), "models": gauss_specs().len(), "constructors": ["with_float", "with_prob", "new"]},
            "many_states": {"ring models (states, start state)": format!("{:?}", many_params(tier)), "end_vector": "none / only every third state may end", "observation_lengths": tier.pick("1,2,9,24", "1,2,3,9,24,60"), "oracle": "as long_sequences"},
            "long_sequences": {"models": long_specs().len(), "lengths": long_lengths(tier), "observation_shapes": "all 0, all 1, alternating, half/half", "oracle": "log-space forward and max-plus recursion with libm exp/ln"} })
    }
    fn units(&self, tier: Tier) -> Vec<String> {
        let mut v: Vec<String> = unit_table(tier).iter().map(|(f, sh)| format!("{}-{}", f.name, sh)).collect();
        v.push("long-sequences".into());
        v.extend((0..ROUTE_SHARDS).map(|i| format!("constructor-routes-{}", i)));
        v.push("dimensions-and-iterators".into());
        v.push("gaussian-emissions".into());
        v.push("many-states".into());
        v
    }
    fn run_unit(&self, tier: Tier, unit: usize, ctx: &mut Ctx) {
        let table = unit_table(tier);
        if unit >= table.len() {
            // appended units: long sequences, then the entry-point families
            return match unit - table.len() {
                0 => run_long(tier, ctx),
                k if k <= ROUTE_SHARDS => run_routes(tier, k - 1, ctx),
                k if k == ROUTE_SHARDS + 1 => run_shapes(tier, ctx),
                k if k == ROUTE_SHARDS + 2 => run_gauss(tier, ctx),
                k if k == ROUTE_SHARDS + 3 => run_many(tier, ctx),
                _ => {}
            };
        }
        let (fam, sh) = table[unit];
        run_family(fam, sh, ctx);
    }
    fn replay(&self, case: &Value, ctx: &mut Ctx) {
        if case["kind"] == "long" {
            let si = case["spec_index"].as_u64().unwrap_or(0) as usize;
            let t = case["t"].as_u64().unwrap_or(1) as usize;
            let shape = case["shape"].as_u64().unwrap_or(0) as usize;
            let specs = long_specs();
            let spec = &specs[si.min(specs.len() - 1)];
            let obs = long_obs(shape, t);
            ctx.case(|| case.clone(), |cc| check_long(spec, &obs, cc));
            return;
        }
        let us = |k: &str| case[k].as_u64().unwrap_or(0) as usize;
        if case["kind"] == "many-states" {
            let (s, start, t, shape) = (us("s").clamp(1, 2000), us("start"), us("t").clamp(1, 5000), us("shape"));
            let spec = many_spec(s, start % s, case["with_end"].as_bool().unwrap_or(false));
            let obs: Vec<usize> = long_obs(shape, t).iter().map(|&o| (o + start) % 2).collect();
            return ctx.case(|| case.clone(), |cc| check_long(&spec, &obs, cc));
        }
        match case["kind"].as_str().unwrap_or("") {
            "iter-ctor" => return ctx.case(|| case.clone(), |cc| check_iter_ctor(us("n").min(64), cc)),
            "shape" => return ctx.case(|| case.clone(), |cc| check_shape(us("a0").min(16), us("a1").min(16), us("bn").min(16), us("bm").min(16), us("pin").min(16), cc)),
            "gauss-shape" => return ctx.case(|| case.clone(), |cc| check_gauss_shape(us("a0").min(16), us("a1").min(16), us("bn").min(16), us("pin").min(16), cc)),
            "gauss" | "gauss-model" => {
                return match undescribe_gauss(case) {
                    Some((g, obs)) => {
                        let models = build_gauss(&g);
                        if case["kind"] == "gauss-model" {
                            ctx.case(|| case.clone(), |cc| check_gauss_model(&g, &models, cc))
                        } else if obs.is_empty() {
                            ctx.case(|| case.clone(), |cc| cc.violation("C14/replay/malformed-case", "no observations"))
                        } else {
                            ctx.case(|| case.clone(), |cc| check_gauss(&g, &models, &obs, cc))
                        }
                    }
                    None => ctx.case(|| case.clone(), |cc| cc.violation("C14/replay/malformed-case", "case description cannot be decoded")),
                };
            }
            "hmm-model" => {
                // same fields as "hmm", without observations
                let mut with_obs = case.clone();
                with_obs["obs"] = json!([0]);
                return match undescribe(&with_obs) {
                    Some((spec, _)) => {
                        let routes = build_routes(&spec);
                        ctx.case(|| case.clone(), |cc| check_model(&spec, &routes, cc))
                    }
                    None => ctx.case(|| case.clone(), |cc| cc.violation("C14/replay/malformed-case", "case description cannot be decoded")),
                };
            }
            "hmm-routes" => {
                return match undescribe(case) {
                    Some((spec, obs)) => {
                        let routes = build_routes(&spec);
                        ctx.case(|| case.clone(), |cc| check_routes(&spec, &routes, &obs, cc))
                    }
                    None => ctx.case(|| case.clone(), |cc| cc.violation("C14/replay/malformed-case", "case description cannot be decoded")),
                };
            }
            _ => {}
        }
        match undescribe(case) {
            Some((spec, obs)) => {
                let built = build(&spec);
                ctx.case(|| case.clone(), |cc| check(&spec, &built, &obs, cc));
            }
            None => ctx.case(
                || case.clone(),
                |cc| cc.violation("C14/replay/malformed-case", "case description cannot be decoded"),
            ),
        }
    }
}
