//! C17 — rank/select and wavelet-matrix queries equal naive counting.
//! K1 sweep.  One case = one (bit vector, superblock factor k) pair, inside which *every*
//! i in 0..=n+1 (rank_1, rank_0, get) and *every* j in 0..=n+1 (select_1, select_0) is queried;
//! resp. one text, inside which every (symbol, position) pair is queried on the wavelet matrix.
//!
//! Families of bit vectors
//!   small : every bit vector of length 1..=L
//!   bytes : 9 bytes drawn from a set of byte patterns, last byte cut to t bits (65..72 bits)
//!   runs  : c superblock-sized chunks (32k bits each) of six shapes + a short tail, so that
//!           superblocks with equal prefix rank (the First/Some markers of the binary search) and
//!           superblock boundaries are hit for every k, also k = 3 and above.

use super::Prop;
use crate::ctx::{guard, show, unshow, CaseCtx, Ctx, Tier};
use crate::gen;
use bio::data_structures::rank_select::RankSelect;
use bio::data_structures::wavelet_matrix::WaveletMatrix;
use bv::{BitVec, Bits, BitsMut};
use serde_json::{json, Value};
use std::cell::Cell;

pub struct C17Prop;
pub static C17: C17Prop = C17Prop;

// ------------------------------------------------------------------------------------ helpers

/// at most one violation per key and case (a broken rank would otherwise fire n times)
struct Once {
    seen: Vec<&'static str>,
}

impl Once {
    fn new() -> Once {
        Once { seen: Vec::new() }
    }
    fn hit(&mut self, cc: &mut CaseCtx, key: &'static str, detail: impl FnOnce() -> String) {
        if !self.seen.contains(&key) {
            self.seen.push(key);
            cc.violation(key, detail());
        }
    }
}

#[inline]
fn mix(acc: u64, v: u64) -> u64 {
    (acc ^ v).wrapping_mul(0x100_0000_01b3).rotate_left(23) ^ 0x9e37_79b9_7f4a_7c15
}

#[inline]
fn opt(v: Option<u64>) -> u64 {
    match v {
        Some(x) => x,
        None => u64::MAX - 1,
    }
}

fn bits_to_string(plain: &[bool]) -> String {
    plain.iter().map(|&b| if b { '1' } else { '0' }).collect()
}

fn string_to_bits(s: &str) -> Vec<bool> {
    s.bytes().filter(|c| *c == b'0' || *c == b'1').map(|c| c == b'1').collect()
}

// --------------------------------------------------------------------------------- RankSelect

/// `build` = how the BitVec is constructed (the logical content is the same):
/// 0: all-false vector, ones set; 1: all-true vector (storage padding bits set), zeros cleared;
/// 2: all-true vector of n+5 bits truncated to n (set bits behind the logical end), zeros cleared
///
/// `alias`: also call the documented aliases `rank()` / `select()` next to every `rank_1` /
/// `select_1` query and read `bits()` bit by bit (off only in the part of the bytes family with
/// k > 1, where it would add a third to the cost of the whole check for no new vector shape)
fn check_rs(plain: &[bool], k: usize, build: u8, alias: bool, cc: &mut CaseCtx) {
    let n = plain.len();
    debug_assert!(n >= 1 && k >= 1);
    let bits: BitVec<u8> = match build {
        0 => {
            let mut b: BitVec<u8> = BitVec::new_fill(false, n as u64);
            for (i, &x) in plain.iter().enumerate() {
                if x {
                    b.set_bit(i as u64, true);
                }
            }
            b
        }
        _ => {
            let mut b: BitVec<u8> = if build == 1 {
                BitVec::new_fill(true, n as u64)
            } else {
                let mut t: BitVec<u8> = BitVec::new_fill(true, n as u64 + 5);
                t.truncate(n as u64);
                t
            };
            for (i, &x) in plain.iter().enumerate() {
                if !x {
                    b.set_bit(i as u64, false);
                }
            }
            b
        }
    };
    // the vector spans more than one superblock (rank adds a stored prefix count, select's binary
    // search has to choose), or the last byte is partial (select_0 must ignore the padding zeros)
    cc.set_nontrivial(n > 32 * k || n % 8 != 0);
    let stage = Cell::new("new");
    let mut acc = 0u64;
    let mut once = Once::new();
    let r = guard(|| {
        let rs = RankSelect::new(bits, k);
        let nn = n as u64;
        // accessors give back the constructor arguments
        stage.set("k");
        if rs.k() != k {
            once.hit(cc, "C17/k/differs-from-constructor-argument", || format!("new(.., {}).k() = {}", k, rs.k()));
        }
        stage.set("bits");
        if rs.bits().len() != nn {
            once.hit(cc, "C17/bits/differs-from-constructor-argument", || {
                format!("bits().len() = {}, the vector handed to new() has {} bits", rs.bits().len(), n)
            });
        }
        let (mut ones, mut zeros) = (0u64, 0u64);
        for i in 0..n {
            let iu = i as u64;
            if plain[i] {
                ones += 1
            } else {
                zeros += 1
            }
            stage.set("get");
            if rs.get(iu) != plain[i] {
                once.hit(cc, "C17/get/wrong-bit", || format!("get({}) = {}", i, !plain[i]));
            }
            stage.set("rank_1");
            let r1 = rs.rank_1(iu);
            if r1 != Some(ones) {
                once.hit(cc, "C17/rank_1/wrong-count", || {
                    format!("rank_1({}) = {:?}, {} one bits in 0..={}", i, r1, ones, i)
                });
            }
            stage.set("rank_0");
            let r0 = rs.rank_0(iu);
            if r0 != Some(zeros) {
                once.hit(cc, "C17/rank_0/wrong-count", || {
                    format!("rank_0({}) = {:?}, {} zero bits in 0..={}", i, r0, zeros, i)
                });
            }
            acc = mix(acc, opt(r1));
            if alias {
                // rank() is documented as an alias of rank_1()
                stage.set("rank");
                let ra = rs.rank(iu);
                if ra != r1 {
                    once.hit(cc, "C17/rank/differs-from-rank_1", || format!("rank({}) = {:?}, rank_1({}) = {:?}", i, ra, i, r1));
                }
                stage.set("bits");
                if iu < rs.bits().len() && rs.bits().get_bit(iu) != plain[i] {
                    once.hit(cc, "C17/bits/differs-from-constructor-argument", || {
                        format!("bits().get_bit({}) = {}, the vector handed to new() has {} there", i, !plain[i], plain[i])
                    });
                }
            }
            // the j-th one/zero bit is at i
            if plain[i] {
                stage.set("select_1");
                let s = rs.select_1(ones);
                acc = mix(acc, opt(s));
                if alias {
                    // select() is documented as an alias of select_1()
                    stage.set("select");
                    let sa = rs.select(ones);
                    if sa != s {
                        once.hit(cc, "C17/select/differs-from-select_1", || {
                            format!("select({}) = {:?}, select_1({}) = {:?}", ones, sa, ones, s)
                        });
                    }
                }
                if s != Some(iu) {
                    once.hit(cc, "C17/select_1/wrong-position", || {
                        format!("select_1({}) = {:?}, the {}-th one bit is at {}", ones, s, ones, i)
                    });
                }
                // mutually inverse, on the subject's own answers
                if let Some(p) = s {
                    stage.set("rank_1");
                    if p >= nn || rs.rank_1(p) != Some(ones) || !rs.get(p) {
                        once.hit(cc, "C17/rank-select/not-inverse", || {
                            format!("select_1({}) = {} but rank_1({}) = {:?}, bit = {}", ones, p, p, if p < nn { rs.rank_1(p) } else { None }, p < nn && rs.get(p))
                        });
                    }
                }
            } else {
                stage.set("select_0");
                let s = rs.select_0(zeros);
                acc = mix(acc, opt(s));
                if s != Some(iu) {
                    once.hit(cc, "C17/select_0/wrong-position", || {
                        format!("select_0({}) = {:?}, the {}-th zero bit is at {}", zeros, s, zeros, i)
                    });
                }
                if let Some(p) = s {
                    stage.set("rank_0");
                    if p >= nn || rs.rank_0(p) != Some(zeros) || rs.get(p) {
                        once.hit(cc, "C17/rank-select/not-inverse", || {
                            format!("select_0({}) = {} but rank_0({}) = {:?}, bit = {}", zeros, p, p, if p < nn { rs.rank_0(p) } else { None }, p < nn && rs.get(p))
                        });
                    }
                }
            }
        }
        // None beyond the end
        for i in [nn, nn + 1, u64::MAX] {
            stage.set("rank_1");
            let r1 = rs.rank_1(i);
            if r1.is_some() {
                once.hit(cc, "C17/rank_1/some-beyond-end", || format!("n = {}, rank_1({}) = {:?}", n, i, r1));
            }
            stage.set("rank_0");
            let r0 = rs.rank_0(i);
            if r0.is_some() {
                once.hit(cc, "C17/rank_0/some-beyond-end", || format!("n = {}, rank_0({}) = {:?}", n, i, r0));
            }
            if alias {
                stage.set("rank");
                let ra = rs.rank(i);
                if ra != r1 {
                    once.hit(cc, "C17/rank/differs-from-rank_1", || format!("n = {}, rank({}) = {:?}, rank_1({}) = {:?}", n, i, ra, i, r1));
                }
            }
        }
        // None for j = 0 and for every j above the count, up to n+1
        stage.set("select_1");
        let s = rs.select_1(0);
        if s.is_some() {
            once.hit(cc, "C17/select_1/some-for-rank-zero", || format!("select_1(0) = {:?}", s));
        }
        if alias {
            stage.set("select");
            let sa = rs.select(0);
            if sa != s {
                once.hit(cc, "C17/select/differs-from-select_1", || format!("select(0) = {:?}, select_1(0) = {:?}", sa, s));
            }
        }
        for j in (ones + 1..=nn + 1).chain(std::iter::once(u64::MAX)) {
            stage.set("select_1");
            let s = rs.select_1(j);
            if s.is_some() {
                once.hit(cc, "C17/select_1/some-beyond-count", || {
                    format!("{} one bits, select_1({}) = {:?}", ones, j, s)
                });
            }
            if alias {
                stage.set("select");
                let sa = rs.select(j);
                if sa != s {
                    once.hit(cc, "C17/select/differs-from-select_1", || {
                        format!("{} one bits, select({}) = {:?}, select_1({}) = {:?}", ones, j, sa, j, s)
                    });
                }
            }
        }
        stage.set("select_0");
        let s = rs.select_0(0);
        if s.is_some() {
            once.hit(cc, "C17/select_0/some-for-rank-zero", || format!("select_0(0) = {:?}", s));
        }
        for j in (zeros + 1..=nn + 1).chain(std::iter::once(u64::MAX)) {
            let s = rs.select_0(j);
            if s.is_some() {
                once.hit(cc, "C17/select_0/some-beyond-count", || {
                    format!("{} zero bits (n = {}), select_0({}) = {:?}", zeros, n, j, s)
                });
            }
        }
    });
    if let Err(msg) = r {
        cc.violation(format!("C17/{}/panic", stage.get()), format!("n = {}, k = {}: {}", n, k, msg));
    }
    cc.outcome(&acc);
}

/// case description; "alias" is only written when the alias queries are off (the default, also
/// for replay files written before the field existed, is on)
fn rs_desc(plain: &[bool], k: usize, build: u8, alias: bool) -> Value {
    let mut d = json!({"kind": "rankselect", "bits": bits_to_string(plain), "k": k});
    if build != 0 {
        d["build"] = json!(build);
    }
    if !alias {
        d["alias"] = json!(false);
    }
    d
}

fn rs_case(ctx: &mut Ctx, plain: &[bool], k: usize, alias: bool) {
    ctx.case(|| rs_desc(plain, k, 0, alias), |cc| check_rs(plain, k, 0, alias, cc));
    // other ways of constructing the same vector leave set bits in the storage padding
    let n = plain.len();
    if n % 8 != 0 && (n <= 13 || (n > 60 && n <= 80 && plain[n - 1])) {
        for build in [1u8, 2] {
            ctx.case(|| rs_desc(plain, k, build, alias), |cc| check_rs(plain, k, build, alias, cc));
        }
    }
}

fn small_max(tier: Tier) -> usize {
    tier.pick(18, 21)
}
const SMALL_KS: [usize; 2] = [1, 3];

fn small_family(tier: Tier, shard: usize, nshards: usize, ctx: &mut Ctx) {
    let mut plain: Vec<bool> = Vec::with_capacity(32);
    for len in 1..=small_max(tier) {
        let mut v = shard as u64;
        while v < (1u64 << len) {
            plain.clear();
            plain.extend((0..len).map(|i| (v >> i) & 1 == 1));
            for &k in &SMALL_KS {
                rs_case(ctx, &plain, k, true);
            }
            v += nshards as u64;
        }
        if ctx.res.capped {
            break;
        }
    }
}

const NBYTES: usize = 9;
fn byte_patterns(tier: Tier) -> &'static [u8] {
    tier.pick(&[0x00, 0xFF, 0x01, 0x80], &[0x00, 0xFF, 0x01, 0x80, 0x5A])
}
fn byte_tails(tier: Tier) -> &'static [usize] {
    tier.pick(&[1, 2, 3, 4, 5, 6, 7, 8], &[1, 2, 3, 4, 5, 6, 7, 8])
}
const BYTE_KS: [usize; 3] = [1, 2, 3];

fn bytes_family(tier: Tier, shard: usize, nshards: usize, ctx: &mut Ctx) {
    let pats = byte_patterns(tier);
    let total = (pats.len() as u64).pow(NBYTES as u32);
    let mut plain: Vec<bool> = Vec::with_capacity(NBYTES * 8);
    let mut idx = shard as u64;
    while idx < total {
        let mut bytes = [0u8; NBYTES];
        let mut x = idx;
        for b in bytes.iter_mut() {
            *b = pats[(x % pats.len() as u64) as usize];
            x /= pats.len() as u64;
        }
        for &tail in byte_tails(tier) {
            let n = (NBYTES - 1) * 8 + tail;
            plain.clear();
            plain.extend((0..n).map(|i| (bytes[i / 8] >> (i % 8)) & 1 == 1));
            for &k in &BYTE_KS {
                rs_case(ctx, &plain, k, k == 1);
            }
        }
        if ctx.res.capped {
            break;
        }
        idx += nshards as u64;
    }
}

fn run_chunks_max(tier: Tier) -> usize {
    tier.pick(5, 6)
}
fn run_ks(tier: Tier) -> &'static [usize] {
    tier.pick(&[1, 2, 3], &[1, 2, 3, 4, 7])
}
const CHUNK_SHAPES: usize = 6;

fn push_chunk(plain: &mut Vec<bool>, shape: usize, s: usize) {
    for i in 0..s {
        plain.push(match shape {
            0 => false,
            1 => true,
            2 => i == 0,
            3 => i == s - 1,
            4 => i != 0,
            _ => i != s - 1,
        });
    }
}

/// the tails of the runs family: (bits, fill) with fill 0 = zeros, 1 = ones, 2 = 0101..
fn run_tails(s: usize) -> Vec<(usize, usize)> {
    let mut v = vec![(0, 0), (1, 0), (1, 1)];
    for t in [7, 9, s - 1] {
        for f in 0..3 {
            v.push((t, f));
        }
    }
    v
}

fn runs_family(tier: Tier, shard: usize, nshards: usize, ctx: &mut Ctx) {
    let mut plain: Vec<bool> = Vec::new();
    let mut idx = 0usize;
    for c in 0..=run_chunks_max(tier) {
        let radices = vec![CHUNK_SHAPES; c];
        let mut tuples: Vec<Vec<usize>> = vec![];
        if c == 0 {
            tuples.push(vec![]);
        } else {
            gen::odometer(&radices, |d| tuples.push(d.to_vec()));
        }
        for shapes in &tuples {
            idx += 1;
            if idx % nshards != shard {
                continue;
            }
            for &k in run_ks(tier) {
                let s = 32 * k;
                for (t, fill) in run_tails(s) {
                    if c == 0 && t == 0 {
                        continue; // n = 0 is outside the property
                    }
                    plain.clear();
                    for &sh in shapes {
                        push_chunk(&mut plain, sh, s);
                    }
                    for i in 0..t {
                        plain.push(match fill {
                            0 => false,
                            1 => true,
                            _ => i % 2 == 1,
                        });
                    }
                    rs_case(ctx, &plain, k, true);
                }
            }
            if ctx.res.capped {
                return;
            }
        }
    }
}

/// many superblocks: 31..100 chunks (select switches search strategy with the number of
/// superblocks), chunk shapes alternating between every ordered pair of the six shapes
fn many_superblocks_family(tier: Tier, shard: usize, nshards: usize, ctx: &mut Ctx) {
    let mut plain: Vec<bool> = Vec::new();
    let mut idx = 0usize;
    let counts: &[usize] = tier.pick(&[31, 32, 33, 34, 65], &[31, 32, 33, 34, 40, 64, 65, 100, 129]);
    for &chunks in counts {
        for sa in 0..CHUNK_SHAPES {
            for sb in 0..CHUNK_SHAPES {
                idx += 1;
                if idx % nshards != shard {
                    continue;
                }
                for &k in tier.pick(&[1usize][..], &[1usize, 2][..]) {
                    let s = 32 * k;
                    for (t, fill) in [(0usize, 0usize), (9, 2), (s - 1, 1)] {
                        plain.clear();
                        for c in 0..chunks {
                            // period 2, with a third shape every seventh chunk
                            let sh = if c % 7 == 6 { (sa + sb + 1) % CHUNK_SHAPES } else if c % 2 == 0 { sa } else { sb };
                            push_chunk(&mut plain, sh, s);
                        }
                        for i in 0..t {
                            plain.push(match fill {
                                0 => false,
                                1 => true,
                                _ => i % 2 == 1,
                            });
                        }
                        rs_case(ctx, &plain, k, false);
                    }
                }
                if ctx.res.capped {
                    return;
                }
            }
        }
    }
}

/// large superblock factors: a superblock of 32k bits holds more than 255 one-bits once k >= 8,
/// so per-superblock partial counts no longer fit a byte
const BIG_KS: [usize; 6] = [8, 9, 16, 33, 64, 100];

fn bigk_family(tier: Tier, shard: usize, nshards: usize, ctx: &mut Ctx) {
    let mut plain: Vec<bool> = Vec::new();
    let mut idx = 0usize;
    let cmax = tier.pick(2, 3);
    for c in 0..=cmax {
        let radices = vec![CHUNK_SHAPES; c];
        let mut tuples: Vec<Vec<usize>> = vec![];
        if c == 0 {
            tuples.push(vec![]);
        } else {
            gen::odometer(&radices, |d| tuples.push(d.to_vec()));
        }
        for shapes in &tuples {
            for &k in &BIG_KS {
                idx += 1;
                if idx % nshards != shard {
                    continue;
                }
                let s = 32 * k;
                for (t, fill) in run_tails(s) {
                    if c == 0 && t == 0 {
                        continue;
                    }
                    plain.clear();
                    for &sh in shapes {
                        push_chunk(&mut plain, sh, s);
                    }
                    for i in 0..t {
                        plain.push(match fill {
                            0 => false,
                            1 => true,
                            _ => i % 2 == 1,
                        });
                    }
                    rs_case(ctx, &plain, k, true);
                }
            }
            if ctx.res.capped {
                return;
            }
        }
    }
}

// ------------------------------------------------------------------------------ WaveletMatrix

const WM_SYMS: &[u8; 6] = b"ACGTN$";

fn check_wm(text: &[u8], cc: &mut CaseCtx) {
    let n = text.len();
    let distinct = WM_SYMS.iter().filter(|c| text.contains(c)).count();
    // at least two levels of the matrix really partition, or the level bit vectors are not
    // constant and span more than one 32-bit superblock
    cc.set_nontrivial(distinct >= 3 || (n > 32 && distinct >= 2));
    let stage = Cell::new("new");
    let mut acc = 0u64;
    let mut once = Once::new();
    let r = guard(|| {
        let wm = WaveletMatrix::new(text);
        stage.set("rank");
        for &c in WM_SYMS.iter() {
            let mut cnt = 0u64;
            for p in 0..n {
                if text[p] == c {
                    cnt += 1;
                }
                let got = wm.rank(c, p as u64);
                acc = mix(acc, got);
                if got != cnt {
                    once.hit(cc, "C17/wavelet/rank/wrong-count", || {
                        format!("rank('{}', {}) = {}, naive count {}", c as char, p, got, cnt)
                    });
                }
            }
        }
    });
    if let Err(msg) = r {
        cc.violation(format!("C17/wavelet/{}/panic", stage.get()), msg);
    }
    cc.outcome(&acc);
}

fn wm_case(ctx: &mut Ctx, text: &[u8]) {
    ctx.case(|| json!({"kind": "wavelet", "text": show(text)}), |cc| check_wm(text, cc));
}

fn is_primitive(t: &[u8]) -> bool {
    let n = t.len();
    !(1..n).any(|d| n % d == 0 && (0..n).all(|i| t[i] == t[i % d]))
}

fn wm_max(tier: Tier) -> usize {
    tier.pick(7, 9)
}
fn wm_extend_to(tier: Tier) -> usize {
    tier.pick(70, 100)
}

fn wavelet_family(tier: Tier, shard: usize, nshards: usize, ctx: &mut Ctx) {
    let target = wm_extend_to(tier);
    let mut ext: Vec<u8> = Vec::with_capacity(target + 16);
    for len in 1..=wm_max(tier) {
        let total = 6u64.pow(len as u32);
        let mut idx = shard as u64;
        while idx < total {
            let t = gen::nth_string(WM_SYMS, len, idx);
            wm_case(ctx, &t);
            // the periodic extension u^m of a primitive u determines u, so the extended cases are
            // pairwise distinct (and distinct from the short ones, being longer)
            if is_primitive(&t) {
                ext.clear();
                while ext.len() < target {
                    ext.extend_from_slice(&t);
                }
                wm_case(ctx, &ext);
            }
            idx += nshards as u64;
        }
        if ctx.res.capped {
            break;
        }
    }
}

// --------------------------------------------------------------------------------------- Prop

const SMALL_SHARDS: usize = 2;
const BYTES_SHARDS: usize = 28;
const RUNS_SHARDS: usize = 12;
const WM_SHARDS: usize = 16;

impl Prop for C17Prop {
    fn id(&self) -> &'static str {
        "C17"
    }
    fn level(&self) -> &'static str {
        "exploration"
    }
    fn rule(&self) -> &'static str {
        "One case = one (bit vector, k) pair: RankSelect::new on it, then get/rank_1/rank_0 for every i in 0..=n+1 and u64::MAX and select_1/select_0 for every j in 0..=n+1 and u64::MAX against naive counting, plus rank(select(j)) = j on the subject's own answers; the documented aliases rank()/select() are called next to every rank_1/select_1 query (same i, same j, including the out-of-range ones) and must return the same value, k() must return the constructor argument and bits() a vector of the same length and content as the one handed to new() (alias queries and the bit-by-bit reading of bits() are left out in the k = 2, 3 cases of the 9-byte family). Vectors: every vector of length 1..=L; every 9-byte vector over a set of byte patterns with the last byte cut to t bits (65..72 bits); every sequence of up to C superblock-sized chunks of six shapes (zeros, ones, only-first, only-last, all-but-first, all-but-last) followed by one of 12 tails, for each k (small k with up to C chunks; k in {8,9,16,33,64,100} with up to 2/3 chunks, where a superblock holds more than 255 one-bits). Vectors whose length is not a multiple of 8 (short ones and some 65-72-bit ones) are additionally built from an all-true vector and from a truncated longer vector, which leaves set bits in the storage padding. Wavelet matrix: one case = one text over {A,C,G,T,N,$} (every text of length 1..=W, and for every primitive one its periodic extension to at least E symbols), every symbol x every position. All tuples are points of a product space, enumerated once. Non-trivial: the vector spans more than one superblock (n > 32k) or its last byte is partial; wavelet: the text has >= 3 distinct symbols, or >= 2 and more than 32 symbols."
    }
    fn assumptions(&self) -> Vec<&'static str> {
        vec![
            "oracle: running one/zero counters over a Vec<bool> / byte text",
            "n >= 1 and k >= 1 only (quantifier of the statement); the empty vector is not queried",
            "wavelet texts over the upper-case symbols A,C,G,T,N,$ only; positions p < |text| only",
            "subject built with overflow checks and debug assertions on",
        ]
    }
    fn bounds(&self, tier: Tier) -> Value {
        json!({
            "small": {"length": format!("1..={}", small_max(tier)), "k": "1,3", "vectors": "all"},
            "bytes": {"bytes": NBYTES, "patterns": byte_patterns(tier).iter().map(|b| format!("0x{:02X}", b)).collect::<Vec<_>>(),
                      "last_byte_bits": byte_tails(tier), "k": "1,2,3", "bits": "65..=72"},
            "runs": {"chunks": format!("0..={} of 32k bits, 6 shapes each", run_chunks_max(tier)),
                     "tails": "0 | 1 bit (0,1) | 7, 9, 32k-1 bits (zeros, ones, 0101..)", "k": run_ks(tier)},
            "big_k": {"k": BIG_KS, "chunks": format!("0..={}", tier.pick(2, 3))},
            "many_superblocks": {"chunks": tier.pick("31,32,33,34,65", "31,32,33,34,40,64,65,100,129"), "shapes": "every ordered pair of the 6 chunk shapes alternating, a third shape every 7th chunk", "k": tier.pick("1", "1,2"), "tails": "0 | 9 bits 0101.. | 32k-1 ones"},
            "queries": "every i in 0..=n+1 and u64::MAX; every j in 0..=n+1 and u64::MAX",
            "aliases_and_accessors": "k() and bits().len() in every case; rank(i) for every i queried with rank_1, select(j) for every j queried with select_1, bits() bit by bit in every case of the small, runs and big_k families and in the k = 1 cases of the bytes family",
            "wavelet": {"alphabet": "A,C,G,T,N,$", "text_len": format!("1..={}", wm_max(tier)),
                        "periodic_extension_to_at_least": wm_extend_to(tier), "symbols": "all 6", "positions": "all"}
        })
    }
    fn units(&self, _tier: Tier) -> Vec<String> {
        let mut v: Vec<String> = (0..SMALL_SHARDS).map(|i| format!("small-{}", i)).collect();
        v.extend((0..BYTES_SHARDS).map(|i| format!("bytes-{}", i)));
        v.extend((0..RUNS_SHARDS).map(|i| format!("runs-{}", i)));
        v.extend((0..WM_SHARDS).map(|i| format!("wavelet-{}", i)));
        v
    }
    fn run_unit(&self, tier: Tier, unit: usize, ctx: &mut Ctx) {
        let mut u = unit;
        if u < SMALL_SHARDS {
            return small_family(tier, u, SMALL_SHARDS, ctx);
        }
        u -= SMALL_SHARDS;
        if u < BYTES_SHARDS {
            return bytes_family(tier, u, BYTES_SHARDS, ctx);
        }
        u -= BYTES_SHARDS;
        if u < RUNS_SHARDS {
            runs_family(tier, u, RUNS_SHARDS, ctx);
            bigk_family(tier, u, RUNS_SHARDS, ctx);
            return many_superblocks_family(tier, u, RUNS_SHARDS, ctx);
        }
        u -= RUNS_SHARDS;
        if u < WM_SHARDS {
            wavelet_family(tier, u, WM_SHARDS, ctx);
        }
    }
    fn replay(&self, case: &Value, ctx: &mut Ctx) {
        if case["kind"] == "wavelet" {
            let t = unshow(case["text"].as_str().unwrap_or(""));
            ctx.case(|| case.clone(), |cc| check_wm(&t, cc));
        } else {
            let plain = string_to_bits(case["bits"].as_str().unwrap_or(""));
            let k = case["k"].as_u64().unwrap_or(1) as usize;
            let build = case["build"].as_u64().unwrap_or(0) as u8;
            let alias = case["alias"].as_bool().unwrap_or(true);
            ctx.case(|| case.clone(), |cc| check_rs(&plain, k, build, alias, cc));
        }
    }
}
