//! C11 — FASTA/FASTQ round trip, layout independence, truncation safety.
//! K3: the readers run over an instrumented `Read` whose answer sizes are enumerated (uniform
//! schedules, all schedules with <= 2 short leading answers), every BufReader capacity of a small
//! set, every truncation offset, and every byte string over a hostile 8-symbol alphabet up to a
//! length bound.

use super::Prop;
use crate::ctx::{guard, show, unshow, CaseCtx, Ctx, Tier};
use crate::env::{one_deviation, two_deviations, uniform_family, Env, Schedule};
use bio::io::fasta::FastaRead;
use bio::io::fastq::FastqRead;
use bio::io::{fasta, fastq, fastx};
use serde::{Deserialize, Serialize};
use serde_json::{json, Value};
use std::io::BufReader;

pub struct C11Prop;
pub static C11: C11Prop = C11Prop;

#[derive(Clone, Debug, PartialEq, Eq, Hash, Serialize, Deserialize)]
pub struct Rec {
    id: String,
    desc: Option<String>,
    seq: String,
    qual: String,
}

const IDS: [&str; 6] = ["a", "id1", "@x", ">y", "+", "\u{e9}\u{4e2d}"];
const DESCS: [Option<&str>; 10] = [
    None,
    Some("d"),
    Some("two words"),
    Some(" lead"),
    Some("@ + >"),
    Some("x\ty"),
    // non-ASCII text incl. multi-byte white space (valid UTF-8, no line breaks)
    Some("caf\u{e9}\u{a0}\u{2003}x"),
    Some("\u{3000}wide"),
    // the two below are inside the literal quantifier ("description without line breaks") and
    // are the trailing-blank class of the known finding
    Some(""),
    Some("d "),
];
const SEQS: [&str; 6] = ["A", "ACGT", "ACGTACGTAC", "NNNNNNN", "acgtn", "RYKMSW"];
const QUAL_FIRST: [u8; 5] = [b'I', b'@', b'+', b'>', b'!'];

fn record_alphabet() -> Vec<Rec> {
    let mut v = vec![];
    for id in IDS {
        for d in DESCS {
            for s in SEQS {
                for q in QUAL_FIRST {
                    let mut qual = vec![b'5'; s.len()];
                    qual[0] = q;
                    if s.len() > 2 {
                        qual[s.len() - 1] = b'@';
                    }
                    v.push(Rec {
                        id: id.to_string(),
                        desc: d.map(|x| x.to_string()),
                        seq: s.to_string(),
                        qual: String::from_utf8(qual).unwrap(),
                    });
                }
            }
        }
    }
    v
}

#[derive(Clone, Copy, Debug, PartialEq, Eq, Serialize, Deserialize)]
enum Format {
    Fastq,
    Fasta,
}

#[derive(Clone, Copy, Debug, PartialEq, Eq, Serialize, Deserialize)]
enum Variant {
    /// bytes exactly as the writer produced them
    AsWritten,
    /// every LF replaced by CRLF
    Crlf,
    /// sequence (and quality) lines re-wrapped to this width by the check
    Rewrap(usize),
    /// re-wrapped, then every LF replaced by CRLF
    CrlfRewrap(usize),
}

#[derive(Clone, Copy, Debug, PartialEq, Eq, Serialize, Deserialize)]
enum Api {
    /// `reader.records()` iterator
    Records,
    /// `reader.read(&mut record)` loop re-using one Record
    ReadInto,
    /// `fastx::EitherRecords`
    Either,
}

#[derive(Clone, Debug, Serialize, Deserialize)]
struct Layout {
    format: Format,
    /// FASTA writer line wrap
    wrap: Option<usize>,
    variant: Variant,
    cap: usize,
    sched: Schedule,
    api: Api,
    /// read() calls that fail with ErrorKind::Interrupted (std: "retry"); only used for the
    /// sniffer-versus-plain-parser clause
    #[serde(default)]
    interrupts: Vec<usize>,
}

fn write_bytes(list: &[Rec], format: Format, wrap: Option<usize>, small_writer_buf: bool) -> Vec<u8> {
    let mut out = vec![];
    match format {
        Format::Fastq => {
            let mut w = if small_writer_buf {
                fastq::Writer::with_capacity(1, &mut out)
            } else {
                fastq::Writer::new(&mut out)
            };
            for (i, r) in list.iter().enumerate() {
                if i % 2 == 0 {
                    w.write(&r.id, r.desc.as_deref(), r.seq.as_bytes(), r.qual.as_bytes()).unwrap();
                } else {
                    let rec = fastq::Record::with_attrs(&r.id, r.desc.as_deref(), r.seq.as_bytes(), r.qual.as_bytes());
                    w.write_record(&rec).unwrap();
                }
            }
            w.flush().unwrap();
        }
        Format::Fasta => {
            let mut w = if small_writer_buf {
                fasta::Writer::with_capacity(1, &mut out)
            } else {
                fasta::Writer::new(&mut out)
            };
            w.set_linewrap(wrap);
            for (i, r) in list.iter().enumerate() {
                if i % 2 == 0 {
                    w.write(&r.id, r.desc.as_deref(), r.seq.as_bytes()).unwrap();
                } else {
                    let rec = fasta::Record::with_attrs(&r.id, r.desc.as_deref(), r.seq.as_bytes());
                    w.write_record(&rec).unwrap();
                }
            }
            w.flush().unwrap();
        }
    }
    out
}

/// independent re-wrapping of a written file: header and '+' lines stay, data lines are split
fn rewrap(bytes: &[u8], format: Format, width: usize) -> Vec<u8> {
    let mut out = vec![];
    let lines: Vec<&[u8]> = bytes.split(|&b| b == b'\n').collect();
    let lines = &lines[..lines.len() - 1]; // file ends with LF
    match format {
        Format::Fasta => {
            for l in lines {
                if l.starts_with(b">") {
                    out.extend_from_slice(l);
                    out.push(b'\n');
                } else {
                    for c in l.chunks(width) {
                        out.extend_from_slice(c);
                        out.push(b'\n');
                    }
                }
            }
        }
        Format::Fastq => {
            // writer layout: header, seq, +, qual
            for rec in lines.chunks(4) {
                out.extend_from_slice(rec[0]);
                out.push(b'\n');
                for c in rec[1].chunks(width) {
                    out.extend_from_slice(c);
                    out.push(b'\n');
                }
                out.extend_from_slice(rec[2]);
                out.push(b'\n');
                for c in rec[3].chunks(width) {
                    out.extend_from_slice(c);
                    out.push(b'\n');
                }
            }
        }
    }
    out
}

fn apply_variant(bytes: &[u8], format: Format, v: Variant) -> Vec<u8> {
    match v {
        Variant::AsWritten => bytes.to_vec(),
        Variant::Crlf => {
            let mut o = Vec::with_capacity(bytes.len() + 8);
            for &b in bytes {
                if b == b'\n' {
                    o.push(b'\r');
                }
                o.push(b);
            }
            o
        }
        Variant::Rewrap(w) => rewrap(bytes, format, w),
        Variant::CrlfRewrap(w) => apply_variant(&rewrap(bytes, format, w), format, Variant::Crlf),
    }
}

type Parsed = Vec<Result<Rec, String>>;

fn parse(data: &[u8], format: Format, cap: usize, sched: &Schedule, api: Api, limit: usize, interrupts: &[usize]) -> Result<Parsed, String> {
    guard(|| {
        let env = Env::new(data, sched.clone()).with_interrupts(interrupts);
        let br = BufReader::with_capacity(cap, env);
        let mut out: Parsed = vec![];
        match (format, api) {
            (Format::Fastq, Api::Records) => {
                for r in fastq::Reader::from_bufread(br).records() {
                    out.push(r.map(|r| Rec { id: r.id().to_string(), desc: r.desc().map(|s| s.to_string()), seq: String::from_utf8_lossy(r.seq()).to_string(), qual: String::from_utf8_lossy(r.qual()).to_string() }).map_err(|e| e.to_string()));
                    if out.len() > limit {
                        break;
                    }
                }
            }
            (Format::Fastq, Api::ReadInto) => {
                let mut rd = fastq::Reader::from_bufread(br);
                let mut rec = fastq::Record::new();
                loop {
                    match rd.read(&mut rec) {
                        Ok(()) => {
                            if rec.is_empty() {
                                break;
                            }
                            out.push(Ok(Rec { id: rec.id().to_string(), desc: rec.desc().map(|s| s.to_string()), seq: String::from_utf8_lossy(rec.seq()).to_string(), qual: String::from_utf8_lossy(rec.qual()).to_string() }));
                        }
                        Err(e) => {
                            out.push(Err(e.to_string()));
                            break;
                        }
                    }
                    if out.len() > limit {
                        break;
                    }
                }
            }
            (Format::Fasta, Api::Records) => {
                for r in fasta::Reader::from_bufread(br).records() {
                    out.push(r.map(|r| Rec { id: r.id().to_string(), desc: r.desc().map(|s| s.to_string()), seq: String::from_utf8_lossy(r.seq()).to_string(), qual: String::new() }).map_err(|e| e.to_string()));
                    if out.len() > limit {
                        break;
                    }
                }
            }
            (Format::Fasta, Api::ReadInto) => {
                let mut rd = fasta::Reader::from_bufread(br);
                let mut rec = fasta::Record::new();
                loop {
                    match rd.read(&mut rec) {
                        Ok(()) => {
                            if rec.is_empty() {
                                break;
                            }
                            out.push(Ok(Rec { id: rec.id().to_string(), desc: rec.desc().map(|s| s.to_string()), seq: String::from_utf8_lossy(rec.seq()).to_string(), qual: String::new() }));
                        }
                        Err(e) => {
                            out.push(Err(e.to_string()));
                            break;
                        }
                    }
                    if out.len() > limit {
                        break;
                    }
                }
            }
            (_, Api::Either) => {
                use fastx::Record as _;
                let mut it = fastx::EitherRecords::new(br);
                let want = if format == Format::Fastq { "FASTQ" } else { "FASTA" };
                match it.kind() {
                    Ok(k) => {
                        let got = format!("{:?}", k).to_uppercase();
                        if !got.contains(want) {
                            out.push(Err(format!("sniffer chose {:?} for a {} file", k, want)));
                            return out;
                        }
                    }
                    Err(e) => {
                        out.push(Err(format!("sniffer error: {}", e)));
                        return out;
                    }
                }
                for r in it {
                    out.push(r.map(|r| Rec { id: r.id().to_string(), desc: r.desc().map(|s| s.to_string()), seq: String::from_utf8_lossy(r.seq()).to_string(), qual: r.qual().map(|q| String::from_utf8_lossy(q).to_string()).unwrap_or_default() }).map_err(|e| e.to_string()));
                    if out.len() > limit {
                        break;
                    }
                }
            }
        }
        out
    })
}

fn fname(f: Format) -> &'static str {
    match f {
        Format::Fastq => "fastq",
        Format::Fasta => "fasta",
    }
}

/// expected record after a round trip (FASTA has no qualities)
fn expect(r: &Rec, f: Format) -> Rec {
    let mut e = r.clone();
    if f == Format::Fasta {
        e.qual.clear();
    }
    e
}

/// does `got` differ from `want` only by the description having lost trailing white space
/// (or having become None because nothing else was left)?
fn only_desc_trimmed(got: &Rec, want: &Rec) -> bool {
    if got.id != want.id || got.seq != want.seq || got.qual != want.qual {
        return false;
    }
    match (&want.desc, &got.desc) {
        (Some(w), g) => {
            let t = w.trim_end();
            t.len() != w.len() && ((t.is_empty() && g.is_none()) || g.as_deref() == Some(t)) || (w.is_empty() && g.is_none())
        }
        _ => false,
    }
}

fn roundtrip_check(list: &[Rec], lay: &Layout, cc: &mut CaseCtx) {
    let base = write_bytes(list, lay.format, lay.wrap, lay.cap % 2 == 1);
    let data = apply_variant(&base, lay.format, lay.variant);
    let f = fname(lay.format);
    let splits_line = match &lay.sched {
        Schedule::Uniform(n) => *n < data.len() || lay.cap < data.len(),
        _ => true,
    };
    cc.set_nontrivial(splits_line || lay.variant != Variant::AsWritten || lay.api != Api::Records);
    match parse(&data, lay.format, lay.cap, &lay.sched, lay.api, list.len() + 3, &lay.interrupts) {
        Err(msg) => {
            let key = if msg.contains("no termination") { "no-termination" } else { "panic" };
            cc.violation(format!("C11/{}/roundtrip/{}", f, key), msg);
        }
        Ok(got) => {
            cc.outcome(&got);
            if !lay.interrupts.is_empty() {
                // the statement relates the sniffer to the matching parser: under the very same
                // environment (including reads that ask to be retried) both must yield the same
                let plain = parse(&data, lay.format, lay.cap, &lay.sched, Api::Records, list.len() + 3, &lay.interrupts);
                if plain.as_ref().ok() != Some(&got) {
                    cc.violation(
                        format!("C11/{}/sniffer/differs-from-plain-parser-under-interrupted-read", f),
                        format!("EitherRecords: {:?} ; plain reader on the same stream: {:?}", got, plain),
                    );
                }
                return;
            }
            let want: Parsed = list.iter().map(|r| Ok(expect(r, lay.format))).collect();
            if got == want {
                return;
            }
            // classify
            if got.len() == want.len() {
                let mut all_trim = true;
                let mut any = false;
                for (g, w) in got.iter().zip(&want) {
                    match (g, w) {
                        (Ok(g), Ok(w)) if g == w => {}
                        (Ok(g), Ok(w)) if only_desc_trimmed(g, w) => any = true,
                        _ => all_trim = false,
                    }
                }
                if all_trim && any {
                    cc.violation(
                        format!("C11/{}/desc-trailing-whitespace/desc-trimmed", f),
                        format!("written {:?} read back {:?}", list, got),
                    );
                    return;
                }
            }
            let class = match lay.variant {
                Variant::AsWritten => "roundtrip",
                Variant::Crlf => "crlf",
                Variant::Rewrap(_) => "rewrap",
                Variant::CrlfRewrap(_) => "crlf-rewrap",
            };
            let api = match lay.api {
                Api::Records => "records",
                Api::ReadInto => "read",
                Api::Either => "sniffer",
            };
            cc.violation(
                format!("C11/{}/{}/{}/records-differ", f, class, api),
                format!("bytes {:?} parsed as {:?}, expected {:?}; answers per read(): see schedule", show(&data), got, want),
            );
        }
    }
}

/// cut stream: no panic, terminates, and (FASTQ) every record passing check() is the original
/// record at the same position
fn cut_check(list: &[Rec], format: Format, wrap: Option<usize>, cut: usize, cc: &mut CaseCtx) {
    let base = write_bytes(list, format, wrap, false);
    let data = &base[..cut.min(base.len())];
    let f = fname(format);
    let inside = cut < base.len() && cut > 0 && base[cut - 1] != b'\n';
    cc.set_nontrivial(inside);
    let bound = data.len() + 2;
    let r = guard(|| {
        let mut items = 0usize;
        let mut passing: Vec<(usize, Rec)> = vec![];
        match format {
            Format::Fastq => {
                for (i, r) in fastq::Reader::new(data).records().enumerate() {
                    items += 1;
                    if items > bound {
                        break;
                    }
                    if let Ok(r) = r {
                        if r.check().is_ok() {
                            passing.push((i, Rec { id: r.id().to_string(), desc: r.desc().map(|s| s.to_string()), seq: String::from_utf8_lossy(r.seq()).to_string(), qual: String::from_utf8_lossy(r.qual()).to_string() }));
                        }
                    }
                }
            }
            Format::Fasta => {
                for r in fasta::Reader::new(data).records() {
                    items += 1;
                    if items > bound {
                        break;
                    }
                    let _ = r.map(|r| r.check().is_ok());
                }
                // the sniffer on the same cut stream
                let mut n = 0;
                for _ in fastx::EitherRecords::new(BufReader::new(data)) {
                    n += 1;
                    if n > bound {
                        items = bound + 1;
                        break;
                    }
                }
            }
        }
        (items, passing)
    });
    match r {
        Err(msg) => cc.violation(format!("C11/{}/truncated/panic", f), msg),
        Ok((items, passing)) => {
            cc.outcome(&(items, passing.len()));
            if items > bound {
                cc.violation(format!("C11/{}/truncated/iterator-does-not-terminate", f), format!("more than {} items from {} bytes", bound, data.len()));
                return;
            }
            for (i, rec) in passing {
                let ok = list.get(i).map(|w| *w == rec || only_desc_trimmed(&rec, w)).unwrap_or(false);
                if !ok {
                    cc.violation(
                        format!("C11/{}/truncated/bogus-record-passes-check", f),
                        format!("cut at {} of {:?}: item {} = {:?} passes check() but the original list is {:?}", cut, show(&base), i, rec, list),
                    );
                    return;
                }
            }
        }
    }
}


/// the seekable sniffer on a stream that is NOT positioned at offset 0 (a preamble precedes the
/// records): the kind must be right, the position must be restored to where it was, and the
/// matching parser started there must yield the records
fn seek_sniff_check(list: &[Rec], format: Format, preamble: &[u8], cc: &mut CaseCtx) {
    cc.nontrivial();
    let body = write_bytes(list, format, None, false);
    let mut data = preamble.to_vec();
    data.extend_from_slice(&body);
    let f = fname(format);
    let k = preamble.len() as u64;
    let r = guard(|| {
        use std::io::{Seek, SeekFrom};
        let mut cur = std::io::Cursor::new(&data[..]);
        cur.seek(SeekFrom::Start(k)).unwrap();
        let kind = fastx::get_kind_seek(&mut cur).map(|k| format!("{:?}", k).to_uppercase()).map_err(|e| e.to_string());
        let pos = cur.position();
        let got: Parsed = match format {
            Format::Fastq => fastq::Reader::new(cur).records().take(list.len() + 3).map(|r| r.map(|r| Rec { id: r.id().to_string(), desc: r.desc().map(|s| s.to_string()), seq: String::from_utf8_lossy(r.seq()).to_string(), qual: String::from_utf8_lossy(r.qual()).to_string() }).map_err(|e| e.to_string())).collect(),
            Format::Fasta => fasta::Reader::new(cur).records().take(list.len() + 3).map(|r| r.map(|r| Rec { id: r.id().to_string(), desc: r.desc().map(|s| s.to_string()), seq: String::from_utf8_lossy(r.seq()).to_string(), qual: String::new() }).map_err(|e| e.to_string())).collect(),
        };
        (kind, pos, got)
    });
    match r {
        Err(msg) => cc.violation(format!("C11/{}/seek-sniffer/panic", f), msg),
        Ok((kind, pos, got)) => {
            cc.outcome(&(pos, got.len()));
            let want_kind = if format == Format::Fastq { "FASTQ" } else { "FASTA" };
            if !kind.as_ref().map(|k| k.contains(want_kind)).unwrap_or(false) {
                cc.violation(format!("C11/{}/seek-sniffer/wrong-kind", f), format!("get_kind_seek at offset {} returned {:?}", k, kind));
                return;
            }
            if pos != k {
                cc.violation(format!("C11/{}/seek-sniffer/position-not-restored", f), format!("stream was at offset {}, after get_kind_seek it is at {}", k, pos));
                return;
            }
            let want: Parsed = list.iter().map(|r| Ok(expect(r, format))).collect();
            let same = got.len() == want.len()
                && got.iter().zip(&want).all(|(g, w)| match (g, w) {
                    (Ok(g), Ok(w)) => g == w || only_desc_trimmed(g, w),
                    _ => false,
                });
            if !same {
                cc.violation(format!("C11/{}/seek-sniffer/records-differ", f), format!("after sniffing at offset {}: {:?}, expected {:?}", k, got, want));
            }
        }
    }
}

/// hostile tokens: record markers, line breaks, a letter, a blank, an invalid UTF-8 byte, and two
/// multi-byte UTF-8 white-space characters (U+00A0, U+2003)
const HOSTILE: [&[u8]; 10] = [b">", b"@", b"+", b"\n", b"\r", b"A", b" ", &[0xFF], &[0xC2, 0xA0], &[0xE2, 0x80, 0x83]];

fn arbitrary_check(data: &[u8], cc: &mut CaseCtx) {
    let bound = data.len() + 3;
    cc.set_nontrivial(data.iter().any(|&b| b == b'\n') && data.iter().any(|&b| b == b'>' || b == b'@'));
    let r = guard(|| {
        let mut over = vec![];
        let mut obs: Vec<usize> = vec![];
        let a = fasta::Reader::new(data).records().take(bound + 1).count();
        let b = fastq::Reader::new(data).records().take(bound + 1).count();
        let c = fastx::EitherRecords::new(BufReader::new(data)).take(bound + 1).count();
        // capacity-1 buffered readers walk a different path through read_line
        let d = fasta::Reader::from_bufread(BufReader::with_capacity(1, Env::new(data, Schedule::Uniform(1)))).records().take(bound + 1).count();
        let e = fastq::Reader::from_bufread(BufReader::with_capacity(1, Env::new(data, Schedule::Uniform(1)))).records().take(bound + 1).count();
        for (n, name) in [(a, "fasta"), (b, "fastq"), (c, "fastx"), (d, "fasta-cap1"), (e, "fastq-cap1")] {
            obs.push(n);
            if n > bound {
                over.push(name);
            }
        }
        let mut rd = fasta::Reader::new(data);
        let mut rec = fasta::Record::new();
        for _ in 0..bound {
            let _ = rd.read(&mut rec);
        }
        let mut rd = fastq::Reader::new(data);
        let mut rec = fastq::Record::new();
        for _ in 0..bound {
            let _ = rd.read(&mut rec);
        }
        let _ = fastx::get_kind(data).map(|(_, k)| k);
        let _ = fastx::get_kind_detailed(data);
        let mut cur = std::io::Cursor::new(data);
        let _ = fastx::get_kind_seek(&mut cur);
        (over, obs)
    });
    match r {
        Err(msg) => cc.violation("C11/arbitrary-bytes/panic", msg),
        Ok((over, obs)) => {
            cc.outcome(&obs);
            for name in over {
                cc.violation(format!("C11/arbitrary-bytes/{}/iterator-does-not-terminate", name), format!("{:?}", obs));
            }
        }
    }
}

// ------------------------------------------------------------------ enumeration

fn layouts_for(list: &[Rec], tier: Tier, list_idx: usize, full: bool) -> Vec<Layout> {
    let mut v = vec![];
    let caps = [1usize, 2, 3, 7, 8192];
    for format in [Format::Fastq, Format::Fasta] {
        let wraps: Vec<Option<usize>> = if format == Format::Fasta { vec![None, Some(1), Some(3), Some(4), Some(100), Some(usize::MAX), Some(usize::MAX - 1), Some(usize::MAX / 2 + 1)] } else { vec![None] };
        for wrap in wraps {
            let variants: Vec<Variant> = if wrap.is_none() { vec![Variant::AsWritten, Variant::Crlf, Variant::Rewrap(3), Variant::Rewrap(1), Variant::CrlfRewrap(3), Variant::CrlfRewrap(2)] } else { vec![Variant::AsWritten, Variant::Crlf] };
            for variant in variants {
                // the writer runs inside Ctx::case everywhere else; here only the length is needed to
                // enumerate schedules, so a panicking writer must not take the enumeration down
                let len = guard(|| apply_variant(&write_bytes(list, format, wrap, false), format, variant).len()).unwrap_or(0);
                for cap in caps {
                    for sched in uniform_family() {
                        v.push(Layout { format, wrap, variant, cap, sched, api: Api::Records, interrupts: vec![] });
                    }
                }
                for api in [Api::ReadInto, Api::Either] {
                    for sched in [Schedule::Uniform(usize::MAX), Schedule::Uniform(1)] {
                        v.push(Layout { format, wrap, variant, cap: 8192, sched, api, interrupts: vec![] });
                    }
                }
                if variant == Variant::AsWritten {
                    for ints in [vec![0usize], vec![1], vec![0, 1], vec![2]] {
                        for cap in [1usize, 8192] {
                            v.push(Layout { format, wrap, variant, cap, sched: Schedule::Uniform(3), api: Api::Either, interrupts: ints.clone() });
                        }
                    }
                }
                if full {
                    for sched in one_deviation(len) {
                        v.push(Layout { format, wrap, variant, cap: 8192, sched: sched.clone(), api: Api::Records, interrupts: vec![] });
                    }
                    let d2 = match tier {
                        Tier::Quick => list_idx % 8 == 0 && (wrap.is_none() || wrap == Some(3)),
                        Tier::Thorough => true,
                    };
                    if d2 && variant != Variant::Rewrap(1) && !matches!(variant, Variant::CrlfRewrap(_)) {
                        for sched in two_deviations(len) {
                            v.push(Layout { format, wrap, variant, cap: 8192, sched, api: Api::Records, interrupts: vec![] });
                        }
                    }
                }
            }
        }
    }
    v
}

fn lists(tier: Tier) -> Vec<Vec<Rec>> {
    let recs = record_alphabet();
    let mut v: Vec<Vec<Rec>> = recs.iter().map(|r| vec![r.clone()]).collect();
    let (si, sj) = tier.pick((29, 31), (7, 11));
    for i in (0..recs.len()).step_by(si) {
        for j in (0..recs.len()).step_by(sj) {
            v.push(vec![recs[i].clone(), recs[(j + i) % recs.len()].clone()]);
        }
    }
    for i in (0..recs.len()).step_by(tier.pick(97, 41)) {
        v.push(vec![recs[i].clone(), recs[(i * 7 + 13) % recs.len()].clone(), recs[(i * 3 + 500) % recs.len()].clone()]);
    }
    v
}

const LIST_SHARDS: usize = 40;
const ARB_SHARDS: usize = 8;

fn list_unit(tier: Tier, shard: usize, ctx: &mut Ctx) {
    for (li, list) in lists(tier).iter().enumerate() {
        if li % LIST_SHARDS != shard {
            continue;
        }
        let single = list.len() == 1;
        for lay in layouts_for(list, tier, li, single) {
            ctx.case(|| json!({"kind": "roundtrip", "records": list, "layout": lay}), |cc| roundtrip_check(list, &lay, cc));
        }
        if single || li % 3 == 0 {
            for format in [Format::Fastq, Format::Fasta] {
                for preamble in [&b"#"[..], &b"junk line\n"[..], &b">not@a+record\n\n"[..]] {
                    ctx.case(|| json!({"kind": "seek-sniff", "records": list, "format": format, "preamble": show(preamble)}), |cc| seek_sniff_check(list, format, preamble, cc));
                }
            }
        }
        for (format, wrap) in [(Format::Fastq, None), (Format::Fasta, None), (Format::Fasta, Some(3))] {
            let n = guard(|| write_bytes(list, format, wrap, false).len()).unwrap_or(0);
            for cut in 0..n {
                ctx.case(|| json!({"kind": "cut", "records": list, "format": format, "wrap": wrap, "cut": cut}), |cc| cut_check(list, format, wrap, cut, cc));
            }
        }
        if ctx.res.capped {
            return;
        }
    }
}

fn arbitrary_unit(tier: Tier, shard: usize, ctx: &mut Ctx) {
    let maxlen = tier.pick(5, 6);
    let mut idx = 0u64;
    for len in 0..=maxlen {
        let n = (HOSTILE.len() as u64).pow(len as u32);
        for i in 0..n {
            idx += 1;
            if idx % ARB_SHARDS as u64 != shard as u64 {
                continue;
            }
            let idxs = crate::gen::nth_string(&[0u8, 1, 2, 3, 4, 5, 6, 7, 8, 9], len, i);
            let data: Vec<u8> = idxs.iter().flat_map(|&t| HOSTILE[t as usize].iter().copied()).collect();
            ctx.case(|| json!({"kind": "arbitrary", "bytes": show(&data)}), |cc| arbitrary_check(&data, cc));
        }
    }
}

impl Prop for C11Prop {
    fn id(&self) -> &'static str {
        "C11"
    }
    fn level(&self) -> &'static str {
        "fault_enumeration"
    }
    fn rule(&self) -> &'static str {
        "Record lists (all single records of a 6x10x6x5 alphabet (ids and descriptions include non-ASCII text and multi-byte white space), strided pairs, selected triples) are written by the real writers and read back under every layout of a grid: FASTA line wrap x {as written, CRLF, re-wrapped} x BufReader capacity {1,2,3,7,8192} x read() answer schedule (uniform <=1,<=2,<=3, cycles, unbounded; for single records every schedule with one short leading answer and every schedule with two) x API (records(), read() into a reused Record, EitherRecords); the sniffer additionally against the plain parser on streams whose first reads fail with ErrorKind::Interrupted, and the seekable sniffer on streams positioned behind a preamble; every truncation offset of the written bytes; every string of up to 5/6 tokens over {> @ + LF CR A space 0xFF U+00A0 U+2003} (the last two as multi-byte UTF-8). Each (list, layout) / (list, cut) / byte string is one case. Non-trivial: a read() answer or the buffer capacity splits a line, or the layout is CRLF/re-wrapped, or a non-default API; cuts: the cut falls inside a line; arbitrary: contains a line break and a record marker."
    }
    fn assumptions(&self) -> Vec<&'static str> {
        vec![
            "valid record = id without white space, optional description without line breaks, non-empty sequence of ASCII letters, qualities of equal length (first symbol ranges over I @ + > !)",
            "a reader that issues more than 64+16*len read() calls on len bytes is declared non-terminating; an iterator yielding more than len+2 items likewise",
            "descriptions that are empty or end in white space are in the alphabet; losing exactly that trailing white space is classified under its own finding key",
        ]
    }
    fn bounds(&self, tier: Tier) -> Value {
        json!({
            "records": record_alphabet().len(), "lists": lists(tier).len(),
            "fasta_wraps": "None,1,3,4,100,usize::MAX,usize::MAX-1,usize::MAX/2+1", "variants": "as written, CRLF, re-wrap 3, re-wrap 1, CRLF+re-wrap 3, CRLF+re-wrap 2",
            "bufreader_capacities": [1, 2, 3, 7, 8192],
            "schedules": tier.pick("uniform family (6); all 1-deviation schedules for single records; all 2-deviation schedules for every 8th single record", "uniform family (6); all 1- and 2-deviation schedules for single records"),
            "cuts": "every offset of the FASTQ bytes and of the FASTA bytes (wrap None and 3)",
            "arbitrary_bytes": format!("all strings of <= {} tokens over 10 hostile tokens", tier.pick(5, 6)),
        })
    }
    fn units(&self, _tier: Tier) -> Vec<String> {
        let mut v: Vec<String> = (0..LIST_SHARDS).map(|i| format!("lists-{}", i)).collect();
        v.extend((0..ARB_SHARDS).map(|i| format!("arbitrary-{}", i)));
        v
    }
    fn run_unit(&self, tier: Tier, unit: usize, ctx: &mut Ctx) {
        if unit < LIST_SHARDS {
            list_unit(tier, unit, ctx);
        } else {
            arbitrary_unit(tier, unit - LIST_SHARDS, ctx);
        }
    }
    fn replay(&self, case: &Value, ctx: &mut Ctx) {
        match case["kind"].as_str().unwrap_or("") {
            "roundtrip" => {
                let list: Vec<Rec> = serde_json::from_value(case["records"].clone()).unwrap();
                let lay: Layout = serde_json::from_value(case["layout"].clone()).unwrap();
                ctx.case(|| case.clone(), |cc| roundtrip_check(&list, &lay, cc));
            }
            "seek-sniff" => {
                let list: Vec<Rec> = serde_json::from_value(case["records"].clone()).unwrap();
                let format: Format = serde_json::from_value(case["format"].clone()).unwrap();
                let pre = unshow(case["preamble"].as_str().unwrap());
                ctx.case(|| case.clone(), |cc| seek_sniff_check(&list, format, &pre, cc));
            }
            "cut" => {
                let list: Vec<Rec> = serde_json::from_value(case["records"].clone()).unwrap();
                let format: Format = serde_json::from_value(case["format"].clone()).unwrap();
                let wrap: Option<usize> = serde_json::from_value(case["wrap"].clone()).unwrap();
                let cut = case["cut"].as_u64().unwrap() as usize;
                ctx.case(|| case.clone(), |cc| cut_check(&list, format, wrap, cut, cc));
            }
            "arbitrary" => {
                let data = unshow(case["bytes"].as_str().unwrap());
                ctx.case(|| case.clone(), |cc| arbitrary_check(&data, cc));
            }
            _ => {}
        }
    }
}
