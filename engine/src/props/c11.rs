//! C11 — FASTA/FASTQ round trip, layout independence, truncation safety.
//! K3: the readers run over an instrumented `Read` whose answer sizes are enumerated (uniform
//! schedules, all schedules with <= 2 short leading answers), every BufReader capacity of a small
//! set, every truncation offset, and every byte string over a hostile 8-symbol alphabet up to a
//! length bound.

use super::Prop;
use crate::ctx::{guard, show, unshow, CaseCtx, Ctx, Tier};
use crate::env::{one_deviation, two_deviations, uniform_family, Env, Schedule};
use bio::io::fasta::FastaRead;
use bio::io::fastq::FastqRead;
use bio::io::{fasta, fastq, fastx};
use serde::{Deserialize, Serialize};
use serde_json::{json, Value};
use std::io::BufReader;

pub struct C11Prop;
pub static C11: C11Prop = C11Prop;

#[derive(Clone, Debug, PartialEq, Eq, Hash, Serialize, Deserialize)]
pub struct Rec {
    id: String,
    desc: Option<String>,
    seq: String,
    qual: String,
}

const IDS: [&str; 6] = ["a", "id1", "@x", ">y", "+", "\u{e9}\u{4e2d}"];
const DESCS: [Option<&str>; 10] = [
    None,
    Some("d"),
    Some("two words"),
    Some(" lead"),
    Some("@ + >"),
    Some("x\ty"),
    // non-ASCII text incl. multi-byte white space (valid UTF-8, no line breaks)
    Some("caf\u{e9}\u{a0}\u{2003}x"),
    Some("\u{3000}wide"),
    // the two below are inside the literal quantifier ("description without line breaks") and
    // are the trailing-blank class of the known finding
    Some(""),
    Some("d "),
];
const SEQS: [&str; 6] = ["A", "ACGT", "ACGTACGTAC", "NNNNNNN", "acgtn", "RYKMSW"];
const QUAL_FIRST: [u8; 5] = [b'I', b'@', b'+', b'>', b'!'];

fn record_alphabet() -> Vec<Rec> {
    let mut v = vec![];
    for id in IDS {
        for d in DESCS {
            for s in SEQS {
                for q in QUAL_FIRST {
                    let mut qual = vec![b'5'; s.len()];
                    qual[0] = q;
                    if s.len() > 2 {
                        qual[s.len() - 1] = b'@';
                    }
                    v.push(Rec {
                        id: id.to_string(),
                        desc: d.map(|x| x.to_string()),
                        seq: s.to_string(),
                        qual: String::from_utf8(qual).unwrap(),
                    });
                }
            }
        }
    }
    v
}

#[derive(Clone, Copy, Debug, PartialEq, Eq, Serialize, Deserialize)]
enum Format {
    Fastq,
    Fasta,
}

#[derive(Clone, Copy, Debug, PartialEq, Eq, Serialize, Deserialize)]
enum Variant {
    /// bytes exactly as the writer produced them
    AsWritten,
    /// every LF replaced by CRLF
    Crlf,
    /// sequence (and quality) lines re-wrapped to this width by the check
    Rewrap(usize),
    /// re-wrapped, then every LF replaced by CRLF
    CrlfRewrap(usize),
}

#[derive(Clone, Copy, Debug, PartialEq, Eq, Serialize, Deserialize)]
enum Api {
    /// `reader.records()` iterator
    Records,
    /// `reader.read(&mut record)` loop re-using one Record
    ReadInto,
    /// `fastx::EitherRecords`
    Either,
}

#[derive(Clone, Debug, Serialize, Deserialize)]
struct Layout {
    format: Format,
    /// FASTA writer line wrap
    wrap: Option<usize>,
    variant: Variant,
    cap: usize,
    sched: Schedule,
    api: Api,
    /// read() calls that fail with ErrorKind::Interrupted (std: "retry"); only used for the
    /// sniffer-versus-plain-parser clause
    #[serde(default)]
    interrupts: Vec<usize>,
}

fn write_bytes(list: &[Rec], format: Format, wrap: Option<usize>, small_writer_buf: bool) -> Vec<u8> {
    let mut out = vec![];
    match format {
        Format::Fastq => {
            let mut w = if small_writer_buf {
                fastq::Writer::with_capacity(1, &mut out)
            } else {
                fastq::Writer::new(&mut out)
            };
            for (i, r) in list.iter().enumerate() {
                if i % 2 == 0 {
                    w.write(&r.id, r.desc.as_deref(), r.seq.as_bytes(), r.qual.as_bytes()).unwrap();
                } else {
                    let rec = fastq::Record::with_attrs(&r.id, r.desc.as_deref(), r.seq.as_bytes(), r.qual.as_bytes());
                    w.write_record(&rec).unwrap();
                }
            }
            w.flush().unwrap();
        }
        Format::Fasta => {
            let mut w = if small_writer_buf {
                fasta::Writer::with_capacity(1, &mut out)
            } else {
                fasta::Writer::new(&mut out)
            };
            w.set_linewrap(wrap);
            for (i, r) in list.iter().enumerate() {
                if i % 2 == 0 {
                    w.write(&r.id, r.desc.as_deref(), r.seq.as_bytes()).unwrap();
                } else {
                    let rec = fasta::Record::with_attrs(&r.id, r.desc.as_deref(), r.seq.as_bytes());
                    w.write_record(&rec).unwrap();
                }
            }
            w.flush().unwrap();
        }
    }
    out
}

/// independent re-wrapping of a written file: header and '+' lines stay, data lines are split
fn rewrap(bytes: &[u8], format: Format, width: usize) -> Vec<u8> {
    let mut out = vec![];
    let lines: Vec<&[u8]> = bytes.split(|&b| b == b'\n').collect();
    let lines = &lines[..lines.len() - 1]; // file ends with LF
    match format {
        Format::Fasta => {
            for l in lines {
                if l.starts_with(b">") {
                    out.extend_from_slice(l);
                    out.push(b'\n');
                } else {
                    for c in l.chunks(width) {
                        out.extend_from_slice(c);
                        out.push(b'\n');
                    }
                }
            }
        }
        Format::Fastq => {
            // writer layout: header, seq, +, qual
            for rec in lines.chunks(4) {
                out.extend_from_slice(rec[0]);
                out.push(b'\n');
                for c in rec[1].chunks(width) {
                    out.extend_from_slice(c);
                    out.push(b'\n');
                }
                out.extend_from_slice(rec[2]);
                out.push(b'\n');
                for c in rec[3].chunks(width) {
                    out.extend_from_slice(c);
                    out.push(b'\n');
                }
            }
        }
    }
    out
}

fn apply_variant(bytes: &[u8], format: Format, v: Variant) -> Vec<u8> {
    match v {
        Variant::AsWritten => bytes.to_vec(),
        Variant::Crlf => {
            let mut o = Vec::with_capacity(bytes.len() + 8);
            for &b in bytes {
                if b == b'\n' {
                    o.push(b'\r');
                }
                o.push(b);
            }
            o
        }
        Variant::Rewrap(w) => rewrap(bytes, format, w),
        Variant::CrlfRewrap(w) => apply_variant(&rewrap(bytes, format, w), format, Variant::Crlf),
    }
}

type Parsed = Vec<Result<Rec, String>>;

fn parse(data: &[u8], format: Format, cap: usize, sched: &Schedule, api: Api, limit: usize, interrupts: &[usize]) -> Result<Parsed, String> {
    guard(|| {
        let env = Env::new(data, sched.clone()).with_interrupts(interrupts);
        parse_bufread(BufReader::with_capacity(cap, env), format, api, limit)
    })
}

/// the three reading APIs over any buffered stream (shared by the layout grid and the
/// injected-error cases)
fn parse_bufread<B: std::io::BufRead>(br: B, format: Format, api: Api, limit: usize) -> Parsed {
    {
        let mut out: Parsed = vec![];
        match (format, api) {
            (Format::Fastq, Api::Records) => {
                for r in fastq::Reader::from_bufread(br).records() {
                    out.push(r.map(|r| Rec { id: r.id().to_string(), desc: r.desc().map(|s| s.to_string()), seq: String::from_utf8_lossy(r.seq()).to_string(), qual: String::from_utf8_lossy(r.qual()).to_string() }).map_err(|e| e.to_string()));
                    if out.len() > limit {
                        break;
                    }
                }
            }
            (Format::Fastq, Api::ReadInto) => {
                let mut rd = fastq::Reader::from_bufread(br);
                let mut rec = fastq::Record::new();
                loop {
                    match rd.read(&mut rec) {
                        Ok(()) => {
                            if rec.is_empty() {
                                break;
                            }
                            out.push(Ok(Rec { id: rec.id().to_string(), desc: rec.desc().map(|s| s.to_string()), seq: String::from_utf8_lossy(rec.seq()).to_string(), qual: String::from_utf8_lossy(rec.qual()).to_string() }));
                        }
                        Err(e) => {
                            out.push(Err(e.to_string()));
                            break;
                        }
                    }
                    if out.len() > limit {
                        break;
                    }
                }
            }
            (Format::Fasta, Api::Records) => {
                for r in fasta::Reader::from_bufread(br).records() {
                    out.push(r.map(|r| Rec { id: r.id().to_string(), desc: r.desc().map(|s| s.to_string()), seq: String::from_utf8_lossy(r.seq()).to_string(), qual: String::new() }).map_err(|e| e.to_string()));
                    if out.len() > limit {
                        break;
                    }
                }
            }
            (Format::Fasta, Api::ReadInto) => {
                let mut rd = fasta::Reader::from_bufread(br);
                let mut rec = fasta::Record::new();
                loop {
                    match rd.read(&mut rec) {
                        Ok(()) => {
                            if rec.is_empty() {
                                break;
                            }
                            out.push(Ok(Rec { id: rec.id().to_string(), desc: rec.desc().map(|s| s.to_string()), seq: String::from_utf8_lossy(rec.seq()).to_string(), qual: String::new() }));
                        }
                        Err(e) => {
                            out.push(Err(e.to_string()));
                            break;
                        }
                    }
                    if out.len() > limit {
                        break;
                    }
                }
            }
            (_, Api::Either) => {
                use fastx::Record as _;
                let mut it = fastx::EitherRecords::new(br);
                let want = if format == Format::Fastq { "FASTQ" } else { "FASTA" };
                match it.kind() {
                    Ok(k) => {
                        let got = format!("{:?}", k).to_uppercase();
                        if !got.contains(want) {
                            out.push(Err(format!("sniffer chose {:?} for a {} file", k, want)));
                            return out;
                        }
                    }
                    Err(e) => {
                        out.push(Err(format!("sniffer error: {}", e)));
                        return out;
                    }
                }
                for r in it {
                    out.push(r.map(|r| Rec { id: r.id().to_string(), desc: r.desc().map(|s| s.to_string()), seq: String::from_utf8_lossy(r.seq()).to_string(), qual: r.qual().map(|q| String::from_utf8_lossy(q).to_string()).unwrap_or_default() }).map_err(|e| e.to_string()));
                    if out.len() > limit {
                        break;
                    }
                }
            }
        }
        out
    }
}

fn fname(f: Format) -> &'static str {
    match f {
        Format::Fastq => "fastq",
        Format::Fasta => "fasta",
    }
}

/// expected record after a round trip (FASTA has no qualities)
fn expect(r: &Rec, f: Format) -> Rec {
    let mut e = r.clone();
    if f == Format::Fasta {
        e.qual.clear();
    }
    e
}

/// does `got` differ from `want` only by the description having lost trailing white space
/// (or having become None because nothing else was left)?
fn only_desc_trimmed(got: &Rec, want: &Rec) -> bool {
    if got.id != want.id || got.seq != want.seq || got.qual != want.qual {
        return false;
    }
    match (&want.desc, &got.desc) {
        (Some(w), g) => {
            let t = w.trim_end();
            t.len() != w.len() && ((t.is_empty() && g.is_none()) || g.as_deref() == Some(t)) || (w.is_empty() && g.is_none())
        }
        _ => false,
    }
}

fn roundtrip_check(list: &[Rec], lay: &Layout, cc: &mut CaseCtx) {
    let base = write_bytes(list, lay.format, lay.wrap, lay.cap % 2 == 1);
    let data = apply_variant(&base, lay.format, lay.variant);
    let f = fname(lay.format);
    let splits_line = match &lay.sched {
        Schedule::Uniform(n) => *n < data.len() || lay.cap < data.len(),
        _ => true,
    };
    cc.set_nontrivial(splits_line || lay.variant != Variant::AsWritten || lay.api != Api::Records);
    match parse(&data, lay.format, lay.cap, &lay.sched, lay.api, list.len() + 3, &lay.interrupts) {
        Err(msg) => {
            let key = if msg.contains("no termination") { "no-termination" } else { "panic" };
            cc.violation(format!("C11/{}/roundtrip/{}", f, key), msg);
        }
        Ok(got) => {
            cc.outcome(&got);
            if !lay.interrupts.is_empty() {
                // the statement relates the sniffer to the matching parser: under the very same
                // environment (including reads that ask to be retried) both must yield the same
                let plain = parse(&data, lay.format, lay.cap, &lay.sched, Api::Records, list.len() + 3, &lay.interrupts);
                if plain.as_ref().ok() != Some(&got) {
                    cc.violation(
                        format!("C11/{}/sniffer/differs-from-plain-parser-under-interrupted-read", f),
                        format!("EitherRecords: {:?} ; plain reader on the same stream: {:?}", got, plain),
                    );
                }
                return;
            }
            let want: Parsed = list.iter().map(|r| Ok(expect(r, lay.format))).collect();
            if got == want {
                return;
            }
            // classify
            if got.len() == want.len() {
                let mut all_trim = true;
                let mut any = false;
                for (g, w) in got.iter().zip(&want) {
                    match (g, w) {
                        (Ok(g), Ok(w)) if g == w => {}
                        (Ok(g), Ok(w)) if only_desc_trimmed(g, w) => any = true,
                        _ => all_trim = false,
                    }
                }
                if all_trim && any {
                    cc.violation(
                        format!("C11/{}/desc-trailing-whitespace/desc-trimmed", f),
                        format!("written {:?} read back {:?}", list, got),
                    );
                    return;
                }
            }
            let class = match lay.variant {
                Variant::AsWritten => "roundtrip",
                Variant::Crlf => "crlf",
                Variant::Rewrap(_) => "rewrap",
                Variant::CrlfRewrap(_) => "crlf-rewrap",
            };
            let api = match lay.api {
                Api::Records => "records",
                Api::ReadInto => "read",
                Api::Either => "sniffer",
            };
            cc.violation(
                format!("C11/{}/{}/{}/records-differ", f, class, api),
                format!("bytes {:?} parsed as {:?}, expected {:?}; answers per read(): see schedule", show(&data), got, want),
            );
        }
    }
}

/// cut stream: no panic, terminates, and (FASTQ) every record passing check() is the original
/// record at the same position
fn cut_check(list: &[Rec], format: Format, wrap: Option<usize>, cut: usize, cc: &mut CaseCtx) {
    let base = write_bytes(list, format, wrap, false);
    let data = &base[..cut.min(base.len())];
    let f = fname(format);
    let inside = cut < base.len() && cut > 0 && base[cut - 1] != b'\n';
    cc.set_nontrivial(inside);
    let bound = data.len() + 2;
    let r = guard(|| {
        let mut items = 0usize;
        let mut passing: Vec<(usize, Rec)> = vec![];
        match format {
            Format::Fastq => {
                for (i, r) in fastq::Reader::new(data).records().enumerate() {
                    items += 1;
                    if items > bound {
                        break;
                    }
                    if let Ok(r) = r {
                        if r.check().is_ok() {
                            passing.push((i, Rec { id: r.id().to_string(), desc: r.desc().map(|s| s.to_string()), seq: String::from_utf8_lossy(r.seq()).to_string(), qual: String::from_utf8_lossy(r.qual()).to_string() }));
                        }
                    }
                }
            }
            Format::Fasta => {
                for r in fasta::Reader::new(data).records() {
                    items += 1;
                    if items > bound {
                        break;
                    }
                    let _ = r.map(|r| r.check().is_ok());
                }
                // the sniffer on the same cut stream
                let mut n = 0;
                for _ in fastx::EitherRecords::new(BufReader::new(data)) {
                    n += 1;
                    if n > bound {
                        items = bound + 1;
                        break;
                    }
                }
            }
        }
        (items, passing)
    });
    match r {
        Err(msg) => cc.violation(format!("C11/{}/truncated/panic", f), msg),
        Ok((items, passing)) => {
            cc.outcome(&(items, passing.len()));
            if items > bound {
                cc.violation(format!("C11/{}/truncated/iterator-does-not-terminate", f), format!("more than {} items from {} bytes", bound, data.len()));
                return;
            }
            for (i, rec) in passing {
                let ok = list.get(i).map(|w| *w == rec || only_desc_trimmed(&rec, w)).unwrap_or(false);
                if !ok {
                    cc.violation(
                        format!("C11/{}/truncated/bogus-record-passes-check", f),
                        format!("cut at {} of {:?}: item {} = {:?} passes check() but the original list is {:?}", cut, show(&base), i, rec, list),
                    );
                    return;
                }
            }
        }
    }
}


/// the seekable sniffer on a stream that is NOT positioned at offset 0 (a preamble precedes the
/// records): the kind must be right, the position must be restored to where it was, and the
/// matching parser started there must yield the records
fn seek_sniff_check(list: &[Rec], format: Format, preamble: &[u8], cc: &mut CaseCtx) {
    cc.nontrivial();
    let body = write_bytes(list, format, None, false);
    let mut data = preamble.to_vec();
    data.extend_from_slice(&body);
    let f = fname(format);
    let k = preamble.len() as u64;
    let r = guard(|| {
        use std::io::{Seek, SeekFrom};
        let mut cur = std::io::Cursor::new(&data[..]);
        cur.seek(SeekFrom::Start(k)).unwrap();
        let kind = fastx::get_kind_seek(&mut cur).map(|k| format!("{:?}", k).to_uppercase()).map_err(|e| e.to_string());
        let pos = cur.position();
        let got: Parsed = match format {
            Format::Fastq => fastq::Reader::new(cur).records().take(list.len() + 3).map(|r| r.map(|r| Rec { id: r.id().to_string(), desc: r.desc().map(|s| s.to_string()), seq: String::from_utf8_lossy(r.seq()).to_string(), qual: String::from_utf8_lossy(r.qual()).to_string() }).map_err(|e| e.to_string())).collect(),
            Format::Fasta => fasta::Reader::new(cur).records().take(list.len() + 3).map(|r| r.map(|r| Rec { id: r.id().to_string(), desc: r.desc().map(|s| s.to_string()), seq: String::from_utf8_lossy(r.seq()).to_string(), qual: String::new() }).map_err(|e| e.to_string())).collect(),
        };
        (kind, pos, got)
    });
    match r {
        Err(msg) => cc.violation(format!("C11/{}/seek-sniffer/panic", f), msg),
        Ok((kind, pos, got)) => {
            cc.outcome(&(pos, got.len()));
            let want_kind = if format == Format::Fastq { "FASTQ" } else { "FASTA" };
            if !kind.as_ref().map(|k| k.contains(want_kind)).unwrap_or(false) {
                cc.violation(format!("C11/{}/seek-sniffer/wrong-kind", f), format!("get_kind_seek at offset {} returned {:?}", k, kind));
                return;
            }
            if pos != k {
                cc.violation(format!("C11/{}/seek-sniffer/position-not-restored", f), format!("stream was at offset {}, after get_kind_seek it is at {}", k, pos));
                return;
            }
            let want: Parsed = list.iter().map(|r| Ok(expect(r, format))).collect();
            let same = got.len() == want.len()
                && got.iter().zip(&want).all(|(g, w)| match (g, w) {
                    (Ok(g), Ok(w)) => g == w || only_desc_trimmed(g, w),
                    _ => false,
                });
            if !same {
                cc.violation(format!("C11/{}/seek-sniffer/records-differ", f), format!("after sniffing at offset {}: {:?}, expected {:?}", k, got, want));
            }
        }
    }
}

/// hostile tokens: record markers, line breaks, a letter, a blank, an invalid UTF-8 byte, and two
/// multi-byte UTF-8 white-space characters (U+00A0, U+2003)
const HOSTILE: [&[u8]; 10] = [b">", b"@", b"+", b"\n", b"\r", b"A", b" ", &[0xFF], &[0xC2, 0xA0], &[0xE2, 0x80, 0x83]];

fn arbitrary_check(data: &[u8], cc: &mut CaseCtx) {
    let bound = data.len() + 3;
    cc.set_nontrivial(data.iter().any(|&b| b == b'\n') && data.iter().any(|&b| b == b'>' || b == b'@'));
    let r = guard(|| {
        let mut over = vec![];
        let mut obs: Vec<usize> = vec![];
        let a = fasta::Reader::new(data).records().take(bound + 1).count();
        let b = fastq::Reader::new(data).records().take(bound + 1).count();
        let c = fastx::EitherRecords::new(BufReader::new(data)).take(bound + 1).count();
        // capacity-1 buffered readers walk a different path through read_line
        let d = fasta::Reader::from_bufread(BufReader::with_capacity(1, Env::new(data, Schedule::Uniform(1)))).records().take(bound + 1).count();
        let e = fastq::Reader::from_bufread(BufReader::with_capacity(1, Env::new(data, Schedule::Uniform(1)))).records().take(bound + 1).count();
        for (n, name) in [(a, "fasta"), (b, "fastq"), (c, "fastx"), (d, "fasta-cap1"), (e, "fastq-cap1")] {
            obs.push(n);
            if n > bound {
                over.push(name);
            }
        }
        let mut rd = fasta::Reader::new(data);
        let mut rec = fasta::Record::new();
        for _ in 0..bound {
            let _ = rd.read(&mut rec);
        }
        let mut rd = fastq::Reader::new(data);
        let mut rec = fastq::Record::new();
        for _ in 0..bound {
            let _ = rd.read(&mut rec);
        }
        let _ = fastx::get_kind(data).map(|(_, k)| k);
        let _ = fastx::get_kind_detailed(data);
        let mut cur = std::io::Cursor::new(data);
        let _ = fastx::get_kind_seek(&mut cur);
        (over, obs)
    });
    match r {
        Err(msg) => cc.violation("C11/arbitrary-bytes/panic", msg),
        Ok((over, obs)) => {
            cc.outcome(&obs);
            for name in over {
                cc.violation(format!("C11/arbitrary-bytes/{}/iterator-does-not-terminate", name), format!("{:?}", obs));
            }
        }
    }
}

// ------------------------------------------------------------------ enumeration

fn layouts_for(list: &[Rec], tier: Tier, list_idx: usize, full: bool) -> Vec<Layout> {
    let mut v = vec![];
    let caps = [1usize, 2, 3, 7, 8192];
    for format in [Format::Fastq, Format::Fasta] {
        let wraps: Vec<Option<usize>> = if format == Format::Fasta { vec![None, Some(1), Some(3), Some(4), Some(100), Some(usize::MAX), Some(usize::MAX - 1), Some(usize::MAX / 2 + 1)] } else { vec![None] };
        for wrap in wraps {
            let variants: Vec<Variant> = if wrap.is_none() { vec![Variant::AsWritten, Variant::Crlf, Variant::Rewrap(3), Variant::Rewrap(1), Variant::CrlfRewrap(3), Variant::CrlfRewrap(2)] } else { vec![Variant::AsWritten, Variant::Crlf] };
            for variant in variants {
                // the writer runs inside Ctx::case everywhere else; here only the length is needed to
                // enumerate schedules, so a panicking writer must not take the enumeration down
                let len = guard(|| apply_variant(&write_bytes(list, format, wrap, false), format, variant).len()).unwrap_or(0);
                for cap in caps {
                    for sched in uniform_family() {
                        v.push(Layout { format, wrap, variant, cap, sched, api: Api::Records, interrupts: vec![] });
                    }
                }
                for api in [Api::ReadInto, Api::Either] {
                    for sched in [Schedule::Uniform(usize::MAX), Schedule::Uniform(1)] {
                        v.push(Layout { format, wrap, variant, cap: 8192, sched, api, interrupts: vec![] });
                    }
                }
                if variant == Variant::AsWritten {
                    for ints in [vec![0usize], vec![1], vec![0, 1], vec![2]] {
                        for cap in [1usize, 8192] {
                            v.push(Layout { format, wrap, variant, cap, sched: Schedule::Uniform(3), api: Api::Either, interrupts: ints.clone() });
                        }
                    }
                }
                if full {
                    for sched in one_deviation(len) {
                        v.push(Layout { format, wrap, variant, cap: 8192, sched: sched.clone(), api: Api::Records, interrupts: vec![] });
                    }
                    let d2 = match tier {
                        Tier::Quick => list_idx % 8 == 0 && (wrap.is_none() || wrap == Some(3)),
                        Tier::Thorough => true,
                    };
                    if d2 && variant != Variant::Rewrap(1) && !matches!(variant, Variant::CrlfRewrap(_)) {
                        for sched in two_deviations(len) {
                            v.push(Layout { format, wrap, variant, cap: 8192, sched, api: Api::Records, interrupts: vec![] });
                        }
                    }
                }
            }
        }
    }
    v
}

fn lists(tier: Tier) -> Vec<Vec<Rec>> {
    let recs = record_alphabet();
    let mut v: Vec<Vec<Rec>> = recs.iter().map(|r| vec![r.clone()]).collect();
    let (si, sj) = tier.pick((29, 31), (7, 11));
    for i in (0..recs.len()).step_by(si) {
        for j in (0..recs.len()).step_by(sj) {
            v.push(vec![recs[i].clone(), recs[(j + i) % recs.len()].clone()]);
        }
    }
    for i in (0..recs.len()).step_by(tier.pick(97, 41)) {
        v.push(vec![recs[i].clone(), recs[(i * 7 + 13) % recs.len()].clone(), recs[(i * 3 + 500) % recs.len()].clone()]);
    }
    v
}

const LIST_SHARDS: usize = 40;
const ARB_SHARDS: usize = 8;

fn list_unit(tier: Tier, shard: usize, ctx: &mut Ctx) {
    for (li, list) in lists(tier).iter().enumerate() {
        if li % LIST_SHARDS != shard {
            continue;
        }
        let single = list.len() == 1;
        for lay in layouts_for(list, tier, li, single) {
            ctx.case(|| json!({"kind": "roundtrip", "records": list, "layout": lay}), |cc| roundtrip_check(list, &lay, cc));
        }
        if single || li % 3 == 0 {
            for format in [Format::Fastq, Format::Fasta] {
                for preamble in [&b"#"[..], &b"junk line\n"[..], &b">not@a+record\n\n"[..]] {
                    ctx.case(|| json!({"kind": "seek-sniff", "records": list, "format": format, "preamble": show(preamble)}), |cc| seek_sniff_check(list, format, preamble, cc));
                }
            }
        }
        for (format, wrap) in [(Format::Fastq, None), (Format::Fasta, None), (Format::Fasta, Some(3))] {
            let n = guard(|| write_bytes(list, format, wrap, false).len()).unwrap_or(0);
            for cut in 0..n {
                ctx.case(|| json!({"kind": "cut", "records": list, "format": format, "wrap": wrap, "cut": cut}), |cc| cut_check(list, format, wrap, cut, cc));
            }
        }
        if ctx.res.capped {
            return;
        }
    }
}

fn arbitrary_unit(tier: Tier, shard: usize, ctx: &mut Ctx) {
    let maxlen = tier.pick(5, 6);
    let mut idx = 0u64;
    for len in 0..=maxlen {
        let n = (HOSTILE.len() as u64).pow(len as u32);
        for i in 0..n {
            idx += 1;
            if idx % ARB_SHARDS as u64 != shard as u64 {
                continue;
            }
            let idxs = crate::gen::nth_string(&[0u8, 1, 2, 3, 4, 5, 6, 7, 8, 9], len, i);
            let data: Vec<u8> = idxs.iter().flat_map(|&t| HOSTILE[t as usize].iter().copied()).collect();
            ctx.case(|| json!({"kind": "arbitrary", "bytes": show(&data)}), |cc| arbitrary_check(&data, cc));
        }
    }
}

// ================================================================== entry points, accessors,
// conversions, file paths and injected I/O errors (appended units; everything above is unchanged)

use std::cell::{Cell, RefCell};
use std::io::{self, Read, Write};
use std::path::{Path, PathBuf};

fn rec_of_fasta(r: &fasta::Record) -> Rec {
    Rec { id: r.id().to_string(), desc: r.desc().map(|s| s.to_string()), seq: String::from_utf8_lossy(r.seq()).to_string(), qual: String::new() }
}

fn rec_of_fastq(r: &fastq::Record) -> Rec {
    Rec { id: r.id().to_string(), desc: r.desc().map(|s| s.to_string()), seq: String::from_utf8_lossy(r.seq()).to_string(), qual: String::from_utf8_lossy(r.qual()).to_string() }
}

fn collect_fasta<B: io::BufRead>(rd: fasta::Reader<B>, limit: usize) -> Parsed {
    let mut out: Parsed = vec![];
    for r in rd.records() {
        out.push(r.map(|r| rec_of_fasta(&r)).map_err(|e| e.to_string()));
        if out.len() > limit {
            break;
        }
    }
    out
}

fn collect_fastq<B: io::BufRead>(rd: fastq::Reader<B>, limit: usize) -> Parsed {
    let mut out: Parsed = vec![];
    for r in rd.records() {
        out.push(r.map(|r| rec_of_fastq(&r)).map_err(|e| e.to_string()));
        if out.len() > limit {
            break;
        }
    }
    out
}

fn collect_either<B: io::BufRead>(it: fastx::EitherRecords<B>, limit: usize) -> Parsed {
    use fastx::Record as _;
    let mut out: Parsed = vec![];
    for r in it {
        out.push(r.map(|r| Rec { id: r.id().to_string(), desc: r.desc().map(|s| s.to_string()), seq: String::from_utf8_lossy(r.seq()).to_string(), qual: r.qual().map(|q| String::from_utf8_lossy(q).to_string()).unwrap_or_default() }).map_err(|e| e.to_string()));
        if out.len() > limit {
            break;
        }
    }
    out
}

/// the plain in-memory route every other constructor is compared with: `Reader::new(&bytes[..])`
fn parse_new(data: &[u8], format: Format, limit: usize) -> Parsed {
    match format {
        Format::Fastq => collect_fastq(fastq::Reader::new(data), limit),
        Format::Fasta => collect_fasta(fasta::Reader::new(data), limit),
    }
}

/// write the list the way `write_bytes` does (write / write_record alternating), stop at the
/// first error; one entry per record
fn put_fastq<W: Write>(w: &mut fastq::Writer<W>, list: &[Rec]) -> Vec<io::Result<()>> {
    let mut res = vec![];
    for (i, r) in list.iter().enumerate() {
        let x = if i % 2 == 0 {
            w.write(&r.id, r.desc.as_deref(), r.seq.as_bytes(), r.qual.as_bytes())
        } else {
            w.write_record(&fastq::Record::with_attrs(&r.id, r.desc.as_deref(), r.seq.as_bytes(), r.qual.as_bytes()))
        };
        let stop = x.is_err();
        res.push(x);
        if stop {
            break;
        }
    }
    res
}

fn put_fasta<W: Write>(w: &mut fasta::Writer<W>, list: &[Rec]) -> Vec<io::Result<()>> {
    let mut res = vec![];
    for (i, r) in list.iter().enumerate() {
        let x = if i % 2 == 0 {
            w.write(&r.id, r.desc.as_deref(), r.seq.as_bytes())
        } else {
            w.write_record(&fasta::Record::with_attrs(&r.id, r.desc.as_deref(), r.seq.as_bytes()))
        };
        let stop = x.is_err();
        res.push(x);
        if stop {
            break;
        }
    }
    res
}

fn all_ok(v: &[io::Result<()>]) -> bool {
    v.iter().all(|r| r.is_ok())
}

#[derive(Clone, Copy, Debug, PartialEq, Eq, Serialize, Deserialize)]
enum WriterCtor {
    /// `Writer::with_capacity(cap, sink)`
    WithCapacity,
    /// `Writer::from_bufwriter(BufWriter::with_capacity(cap, sink))`
    FromBufWriter,
}

/// all records through a writer built by `ctor` over `sink`, then flush; the per-record results
/// followed (only if every record was accepted) by the result of flush()
fn drive_writer<W: Write>(sink: W, list: &[Rec], format: Format, wrap: Option<usize>, cap: usize, ctor: WriterCtor) -> Vec<io::Result<()>> {
    match format {
        Format::Fastq => {
            let mut w = match ctor {
                WriterCtor::WithCapacity => fastq::Writer::with_capacity(cap, sink),
                WriterCtor::FromBufWriter => fastq::Writer::from_bufwriter(io::BufWriter::with_capacity(cap, sink)),
            };
            let mut res = put_fastq(&mut w, list);
            if all_ok(&res) {
                res.push(w.flush());
            }
            res
        }
        Format::Fasta => {
            let mut w = match ctor {
                WriterCtor::WithCapacity => fasta::Writer::with_capacity(cap, sink),
                WriterCtor::FromBufWriter => fasta::Writer::from_bufwriter(io::BufWriter::with_capacity(cap, sink)),
            };
            // the constructors' own default (no wrapping) is part of what is compared
            if wrap.is_some() {
                w.set_linewrap(wrap);
            }
            let mut res = put_fasta(&mut w, list);
            if all_ok(&res) {
                res.push(w.flush());
            }
            res
        }
    }
}

// ------------------------------------------------------------------ constructors (fault free)

const CTOR_CAPS: [usize; 5] = [1, 2, 3, 7, 64];

/// `Reader::with_capacity` / `from_bufread` must parse exactly like `Reader::new`;
/// `Writer::with_capacity` / `from_bufwriter` must emit the bytes of `Writer::new`
fn ctor_check(list: &[Rec], format: Format, wrap: Option<usize>, cap: usize, cc: &mut CaseCtx) {
    let f = fname(format);
    let full = write_bytes(list, format, wrap, false);
    cc.set_nontrivial(cap < full.len());
    let limit = list.len() + 3;
    let r = guard(|| {
        let mut viol: Vec<(String, String)> = vec![];
        for ctor in [WriterCtor::WithCapacity, WriterCtor::FromBufWriter] {
            let mut out = vec![];
            let res = drive_writer(&mut out, list, format, wrap, cap, ctor);
            let name = if ctor == WriterCtor::WithCapacity { "with_capacity" } else { "from_bufwriter" };
            if !all_ok(&res) {
                viol.push((format!("C11/{}/writer-{}/error-on-memory-sink", f, name), format!("{:?}", res)));
            } else if out != full {
                viol.push((format!("C11/{}/writer-{}/bytes-differ-from-new", f, name), format!("capacity {}: {:?}, Writer::new: {:?}", cap, show(&out), show(&full))));
            }
        }
        let mem = parse_new(&full, format, limit);
        let mut obs = vec![mem.len()];
        for sched in [Schedule::Uniform(usize::MAX), Schedule::Uniform(1)] {
            let (a, b) = match format {
                Format::Fastq => (
                    collect_fastq(fastq::Reader::with_capacity(cap, Env::new(&full, sched.clone())), limit),
                    collect_fastq(fastq::Reader::from_bufread(BufReader::with_capacity(cap, Env::new(&full, sched.clone()))), limit),
                ),
                Format::Fasta => (
                    collect_fasta(fasta::Reader::with_capacity(cap, Env::new(&full, sched.clone())), limit),
                    collect_fasta(fasta::Reader::from_bufread(BufReader::with_capacity(cap, Env::new(&full, sched.clone()))), limit),
                ),
            };
            obs.push(a.len());
            if a != mem {
                viol.push((format!("C11/{}/reader-with_capacity/records-differ-from-new", f), format!("capacity {} answers {:?}: {:?}, Reader::new: {:?}", cap, sched, a, mem)));
            }
            if b != mem {
                viol.push((format!("C11/{}/reader-from_bufread/records-differ-from-new", f), format!("capacity {} answers {:?}: {:?}, Reader::new: {:?}", cap, sched, b, mem)));
            }
        }
        (obs, viol)
    });
    match r {
        Err(msg) => {
            let sym = if msg.contains("no termination") { "no-termination" } else { "panic" };
            cc.violation(format!("C11/{}/constructors/{}", f, sym), msg)
        }
        Ok((obs, viol)) => {
            cc.outcome(&obs);
            for (k, d) in viol {
                cc.violation(k, d);
            }
        }
    }
}

// ------------------------------------------------------------------ Record API: check(), Display, SequenceRead, fastx conversions

/// records outside the "valid record" class, for the Err branches of check()
fn odd_records() -> Vec<Rec> {
    let mut v = vec![];
    for id in ["", "a", "\u{e9}"] {
        for desc in [None, Some("d")] {
            for seq in ["", "ACGT", "AC\u{e9}T", "\u{4e2d}"] {
                for qual in ["", "IIII", "III", "IIIII", "II\u{e9}", "\u{e9}\u{e9}"] {
                    v.push(Rec { id: id.to_string(), desc: desc.map(|d: &str| d.to_string()), seq: seq.to_string(), qual: qual.to_string() });
                }
            }
        }
    }
    v
}

/// the documented rule of fastq::Record::check: Err iff the id is empty, or sequence or
/// qualities contain a non-ASCII character, or their lengths differ
fn fastq_check_model(r: &Rec) -> bool {
    !r.id.is_empty() && r.seq.is_ascii() && r.qual.is_ascii() && r.seq.len() == r.qual.len()
}

/// fasta::Record::check: Err iff the id is empty or the sequence contains a non-ASCII character
fn fasta_check_model(r: &Rec) -> bool {
    !r.id.is_empty() && r.seq.is_ascii()
}

fn record_api_check(r: &Rec, cc: &mut CaseCtx) {
    use bio_types::sequence::SequenceRead;
    use fastx::Record as FxRecord;
    cc.nontrivial();
    let res = guard(|| {
        let mut viol: Vec<(String, String)> = vec![];
        let fa = fasta::Record::with_attrs(&r.id, r.desc.as_deref(), r.seq.as_bytes());
        let fq = fastq::Record::with_attrs(&r.id, r.desc.as_deref(), r.seq.as_bytes(), r.qual.as_bytes());

        // check()
        let (ca, cq) = (fa.check().map_err(|e| e.to_string()), fq.check().map_err(|e| e.to_string()));
        for (fmt, got, want) in [("fasta", &ca, fasta_check_model(r)), ("fastq", &cq, fastq_check_model(r))] {
            if got.is_ok() && !want {
                viol.push((format!("C11/{}/record-check/accepts-invalid-record", fmt), format!("check() = Ok for {:?}", r)));
            }
            if got.is_err() && want {
                viol.push((format!("C11/{}/record-check/rejects-valid-record", fmt), format!("check() = {:?} for {:?}", got, r)));
            }
        }
        let ea = fastx::EitherRecord::from(fa.clone());
        let eq = fastx::EitherRecord::from(fq.clone());
        if FxRecord::check(&fa).is_ok() != ca.is_ok() || ea.check().is_ok() != ca.is_ok() || FxRecord::check(&fq).is_ok() != cq.is_ok() || eq.check().is_ok() != cq.is_ok() {
            viol.push(("C11/fastx/record-check/differs-from-inherent-check".to_string(), format!("{:?}", r)));
        }

        // Display = what the writer emits for this record
        let mut wa = vec![];
        {
            let mut w = fasta::Writer::new(&mut wa);
            w.write_record(&fa).unwrap();
            w.flush().unwrap();
        }
        let mut wq = vec![];
        {
            let mut w = fastq::Writer::new(&mut wq);
            w.write_record(&fq).unwrap();
            w.flush().unwrap();
        }
        let (da, dq) = (fa.to_string(), format!("{}", fq));
        if da.as_bytes() != &wa[..] {
            viol.push(("C11/fasta/display/differs-from-writer".to_string(), format!("Display {:?}, Writer::write_record {:?}", da, show(&wa))));
        }
        if dq.as_bytes() != &wq[..] {
            viol.push(("C11/fastq/display/differs-from-writer".to_string(), format!("Display {:?}, Writer::write_record {:?}", dq, show(&wq))));
        }

        // SequenceRead against the record's own accessors
        if fq.name() != fq.id().as_bytes() {
            viol.push(("C11/fastq/sequence-read/name-differs-from-id".to_string(), format!("{:?} vs {:?}", show(fq.name()), fq.id())));
        }
        if SequenceRead::len(&fq) != fq.seq().len() {
            viol.push(("C11/fastq/sequence-read/len-differs-from-seq".to_string(), format!("{} vs {}", SequenceRead::len(&fq), fq.seq().len())));
        }
        for i in 0..fq.seq().len() {
            if fq.base(i) != fq.seq()[i] {
                viol.push(("C11/fastq/sequence-read/base-differs-from-seq".to_string(), format!("base({}) = {} for {:?}", i, fq.base(i), r)));
            }
        }
        for i in 0..fq.qual().len() {
            if fq.base_qual(i) != fq.qual()[i] {
                viol.push(("C11/fastq/sequence-read/base_qual-differs-from-qual".to_string(), format!("base_qual({}) = {} for {:?}", i, fq.base_qual(i), r)));
            }
        }

        // fastx: kind, accessors of the enum, conversions
        let kinds = (FxRecord::kind(&fa), FxRecord::kind(&fq), ea.kind(), eq.kind());
        if kinds != (fastx::Kind::FASTA, fastx::Kind::FASTQ, fastx::Kind::FASTA, fastx::Kind::FASTQ) {
            viol.push(("C11/fastx/record-kind/wrong-kind".to_string(), format!("{:?}", kinds)));
        }
        let acc_ok = ea.id() == r.id && eq.id() == r.id && ea.desc() == r.desc.as_deref() && eq.desc() == r.desc.as_deref() && ea.seq() == r.seq.as_bytes() && eq.seq() == r.seq.as_bytes() && ea.qual().is_none() && eq.qual() == Some(fq.qual()) && FxRecord::qual(&fa).is_none() && FxRecord::qual(&fq) == Some(fq.qual());
        if !acc_ok {
            viol.push(("C11/fastx/either-record/accessors-differ".to_string(), format!("{:?} / {:?} built from {:?}", ea, eq, r)));
        }
        if ea.clone().to_fasta() != fa || eq.clone().to_fasta() != fa {
            viol.push(("C11/fastx/to_fasta/fields-differ".to_string(), format!("{:?} / {:?}, expected {:?}", ea.clone().to_fasta(), eq.clone().to_fasta(), fa)));
        }
        let (ia, iq): (fasta::Record, fasta::Record) = (ea.clone().into(), eq.clone().into());
        if ia != fa || iq != fa {
            viol.push(("C11/fastx/into-fasta/fields-differ".to_string(), format!("{:?} / {:?}, expected {:?}", ia, iq, fa)));
        }
        for dflt in [b'I', b'!', b'~'] {
            if eq.clone().to_fastq(dflt) != fq {
                viol.push(("C11/fastx/to_fastq/fastq-record-changed".to_string(), format!("{:?}, expected {:?}", eq.clone().to_fastq(dflt), fq)));
            }
            let want = fastq::Record::with_attrs(&r.id, r.desc.as_deref(), r.seq.as_bytes(), &vec![dflt; r.seq.len()]);
            let got = ea.clone().to_fastq(dflt);
            if got != want {
                let sym = if got.id() == want.id() && got.desc() == want.desc() && got.seq() == want.seq() { "default-qual-wrong" } else { "fields-differ" };
                viol.push((format!("C11/fastx/to_fastq/{}", sym), format!("{:?}, expected {:?}", got, want)));
            }
        }
        ((ca, cq, da.len(), dq.len()), viol)
    });
    match res {
        Err(msg) => cc.violation("C11/record-api/panic", msg),
        Ok((obs, viol)) => {
            cc.outcome(&obs);
            for (k, d) in viol {
                cc.violation(k, d);
            }
        }
    }
}

/// EitherRecords / get_kind* on EMPTY input: kind() reports an error ("Data is empty"), the
/// iterator ends without a record, get_kind* report the failed read as an error
fn fastx_empty_check(cap: usize, kind_first: bool, cc: &mut CaseCtx) {
    cc.nontrivial();
    let res = guard(|| {
        let mut viol: Vec<(String, String)> = vec![];
        let mut it = fastx::EitherRecords::new(BufReader::with_capacity(cap, Env::new(b"", Schedule::Uniform(usize::MAX))));
        let mut kinds = vec![];
        if kind_first {
            kinds.push(it.kind().map(|k| k.to_string()).map_err(|e| format!("{:?}", e.kind())));
        }
        let (mut items, mut oks) = (0usize, 0usize);
        for r in it.by_ref() {
            items += 1;
            if r.is_ok() {
                oks += 1;
            }
            if items > 3 {
                break;
            }
        }
        kinds.push(it.kind().map(|k| k.to_string()).map_err(|e| format!("{:?}", e.kind())));
        if kinds.iter().any(|k| k.is_ok()) {
            viol.push(("C11/fastx/empty-input/kind-not-an-error".to_string(), format!("{:?}", kinds)));
        }
        if oks > 0 {
            viol.push(("C11/fastx/empty-input/record-from-nothing".to_string(), format!("{} records", oks)));
        }
        if items > 3 {
            viol.push(("C11/fastx/empty-input/iterator-does-not-terminate".to_string(), String::new()));
        }
        let g1 = fastx::get_kind(Env::new(b"", Schedule::Uniform(usize::MAX))).map(|(_, k)| k.to_string()).map_err(|e| format!("{:?}", e.kind()));
        let g2 = match fastx::get_kind_detailed(Env::new(b"", Schedule::Uniform(usize::MAX))) {
            Ok((_, k)) => Ok(format!("{:?}", k.map_err(|e| e.kind()))),
            Err((_, e)) => Err(format!("{:?}", e.kind())),
        };
        let g3 = fastx::get_kind_seek(&mut Env::new(b"", Schedule::Uniform(usize::MAX))).map(|k| k.to_string()).map_err(|e| format!("{:?}", e.kind()));
        if g1.is_ok() || g2.is_ok() || g3.is_ok() {
            viol.push(("C11/fastx/empty-input/get_kind-not-an-error".to_string(), format!("get_kind {:?} get_kind_detailed {:?} get_kind_seek {:?}", g1, g2, g3)));
        }
        ((kinds, items, g1, g2, g3), viol)
    });
    match res {
        Err(msg) => {
            let sym = if msg.contains("no termination") { "no-termination" } else { "panic" };
            cc.violation(format!("C11/fastx/empty-input/{}", sym), msg)
        }
        Ok((obs, viol)) => {
            cc.outcome(&obs);
            for (k, d) in viol {
                cc.violation(k, d);
            }
        }
    }
}

/// Display of Kind names the format; the `From` conversions into fastx::Error / fastq::Error keep
/// the error they wrap
fn fastx_misc_check(cc: &mut CaseCtx) {
    cc.nontrivial();
    let res = guard(|| {
        let mut viol: Vec<(String, String)> = vec![];
        let (a, q) = (format!("{}", fastx::Kind::FASTA), fastx::Kind::FASTQ.to_string());
        if !a.eq_ignore_ascii_case("FASTA") || !q.eq_ignore_ascii_case("FASTQ") {
            viol.push(("C11/fastx/kind-display/wrong-name".to_string(), format!("{:?} {:?}", a, q)));
        }
        let e = fastx::Error::from(io::Error::new(io::ErrorKind::Other, "boom"));
        let ok1 = matches!(&e, fastx::Error::IO(x) if x.kind() == io::ErrorKind::Other && x.to_string() == "boom");
        let e = fastx::Error::from(fastq::Error::MissingAt);
        let ok2 = matches!(&e, fastx::Error::FASTQ(fastq::Error::MissingAt));
        let e = fastx::Error::from(fastq::Error::IncompleteRecord);
        let ok3 = matches!(&e, fastx::Error::FASTQ(fastq::Error::IncompleteRecord));
        let e = fastq::Error::from(io::Error::new(io::ErrorKind::Other, "boom"));
        let ok4 = matches!(&e, fastq::Error::ReadError(x) if x.kind() == io::ErrorKind::Other && x.to_string() == "boom");
        if !(ok1 && ok2 && ok3 && ok4) {
            viol.push(("C11/fastx/error-conversion/wrapped-error-changed".to_string(), format!("io->fastx {} MissingAt->fastx {} IncompleteRecord->fastx {} io->fastq {}", ok1, ok2, ok3, ok4)));
        }
        ((a, q), viol)
    });
    match res {
        Err(msg) => cc.violation("C11/fastx/misc/panic", msg),
        Ok((obs, viol)) => {
            cc.outcome(&obs);
            for (k, d) in viol {
                cc.violation(k, d);
            }
        }
    }
}

// ------------------------------------------------------------------ file-path constructors

/// scratch directory of one unit; removed when dropped
struct TempDir(PathBuf);

impl TempDir {
    fn new(tag: &str) -> TempDir {
        let p = std::env::temp_dir().join(format!("bmc-{}-{}", std::process::id(), tag));
        let _ = std::fs::remove_dir_all(&p);
        if let Err(e) = std::fs::create_dir_all(&p) {
            // no verdict is possible without a scratch directory
            panic!("cannot create scratch directory {:?}: {}", p, e);
        }
        TempDir(p)
    }
    fn path(&self) -> &Path {
        &self.0
    }
}

impl Drop for TempDir {
    fn drop(&mut self) {
        let _ = std::fs::remove_dir_all(&self.0);
    }
}

/// Writer::to_file / to_file_with_capacity must leave the bytes of the in-memory writer in the
/// file; Reader::from_file / from_file_with_capacity / EitherRecords::from_file / get_kind_file
/// must see what the in-memory route sees
fn file_check(dir: &Path, list: &[Rec], format: Format, wrap: Option<usize>, cc: &mut CaseCtx) {
    cc.nontrivial();
    let f = fname(format);
    let full = write_bytes(list, format, wrap, false);
    let limit = list.len() + 3;
    let path = dir.join(format!("records.{}", f));
    let res = guard(|| {
        let mut viol: Vec<(String, String)> = vec![];
        // writers; capacity None = to_file.  The first call creates the file, the later ones find
        // the previous output there, which must be replaced, not extended
        let _ = std::fs::remove_file(&path);
        for (round, cap) in [Some(1usize), None, Some(7), Some(64), None, Some(3)].into_iter().enumerate() {
            let name = if cap.is_none() { "to_file" } else { "to_file_with_capacity" };
            if round >= 2 {
                // the path already holds a LONGER file: it must be replaced, not overwritten in
                // place or extended (self-contained: does not depend on earlier cases)
                let mut stale = full.clone();
                stale.extend_from_slice(b"@stale\nACGT\n+\nIIII\n>stale\nACGT\n");
                std::fs::write(&path, &stale).expect("scratch file is writable");
            }
            let written: Result<bool, String> = match format {
                Format::Fastq => match cap {
                    None => fastq::Writer::to_file(&path),
                    Some(c) => fastq::Writer::to_file_with_capacity(c, &path),
                }
                .map(|mut w| {
                    let mut r = put_fastq(&mut w, list);
                    r.push(w.flush());
                    all_ok(&r)
                })
                .map_err(|e| e.to_string()),
                Format::Fasta => match cap {
                    None => fasta::Writer::to_file(&path),
                    Some(c) => fasta::Writer::to_file_with_capacity(c, &path),
                }
                .map(|mut w| {
                    if wrap.is_some() {
                        w.set_linewrap(wrap);
                    }
                    let mut r = put_fasta(&mut w, list);
                    r.push(w.flush());
                    all_ok(&r)
                })
                .map_err(|e| e.to_string()),
            };
            match written {
                Err(e) => viol.push((format!("C11/{}/{}/error-on-valid-path", f, name), e)),
                Ok(false) => viol.push((format!("C11/{}/{}/write-error", f, name), String::new())),
                Ok(true) => {
                    let got = std::fs::read(&path).unwrap_or_default();
                    if got != full {
                        viol.push((format!("C11/{}/{}/bytes-differ-from-memory-writer", f, name), format!("file {:?}, memory {:?}", show(&got), show(&full))));
                    }
                }
            }
        }
        // readers on a file holding exactly the in-memory bytes
        std::fs::write(&path, &full).expect("scratch file is writable");
        let mem = parse_new(&full, format, limit);
        let mut routes: Vec<(&'static str, Result<Parsed, String>)> = vec![];
        match format {
            Format::Fastq => routes.push(("from_file", fastq::Reader::from_file(&path).map(|r| collect_fastq(r, limit)).map_err(|e| e.to_string()))),
            Format::Fasta => {
                routes.push(("from_file", fasta::Reader::from_file(&path).map(|r| collect_fasta(r, limit)).map_err(|e| e.to_string())));
                for c in CTOR_CAPS {
                    routes.push(("from_file_with_capacity", fasta::Reader::from_file_with_capacity(c, &path).map(|r| collect_fasta(r, limit)).map_err(|e| e.to_string())));
                }
            }
        }
        for (name, got) in routes {
            match got {
                Err(e) => viol.push((format!("C11/{}/{}/error-on-existing-file", f, name), e)),
                Ok(got) => {
                    if got != mem {
                        viol.push((format!("C11/{}/{}/records-differ-from-memory-reader", f, name), format!("{:?}, Reader::new: {:?}", got, mem)));
                    }
                }
            }
        }
        // the sniffer through a path
        let want_kind = if format == Format::Fastq { fastx::Kind::FASTQ } else { fastx::Kind::FASTA };
        match fastx::get_kind_file(&path) {
            Ok(k) if k == want_kind => {}
            other => viol.push((format!("C11/{}/get_kind_file/wrong-kind", f), format!("{:?}", other.map_err(|e| e.to_string())))),
        }
        let mem_either = collect_either(fastx::EitherRecords::new(BufReader::new(&full[..])), limit);
        match fastx::EitherRecords::from_file(&path) {
            Err(e) => viol.push((format!("C11/{}/either-from_file/error-on-existing-file", f), e.to_string())),
            Ok(mut it) => {
                match it.kind() {
                    Ok(k) if k == want_kind => {}
                    other => viol.push((format!("C11/{}/either-from_file/wrong-kind", f), format!("{:?}", other.map_err(|e| e.to_string())))),
                }
                let got = collect_either(it, limit);
                if got != mem_either {
                    viol.push((format!("C11/{}/either-from_file/records-differ-from-memory-reader", f), format!("{:?}, EitherRecords::new: {:?}", got, mem_either)));
                }
            }
        }
        let _ = std::fs::remove_file(&path);
        (mem.len(), viol)
    });
    match res {
        Err(msg) => cc.violation(format!("C11/{}/file-constructors/panic", f), msg),
        Ok((obs, viol)) => {
            cc.outcome(&obs);
            for (k, d) in viol {
                cc.violation(k, d);
            }
        }
    }
}

/// a path that does not exist gives Err from every path constructor; an empty file behaves like
/// empty input
fn file_missing_check(dir: &Path, cc: &mut CaseCtx) {
    cc.nontrivial();
    let res = guard(|| {
        let mut viol: Vec<(String, String)> = vec![];
        let missing = dir.join("does-not-exist.fx");
        let _ = std::fs::remove_file(&missing);
        let no_dir = dir.join("no-such-directory").join("out.fx");
        let oks: Vec<(&'static str, bool)> = vec![
            ("fasta/from_file", fasta::Reader::from_file(&missing).is_ok()),
            ("fasta/from_file_with_capacity", fasta::Reader::from_file_with_capacity(7, &missing).is_ok()),
            ("fastq/from_file", fastq::Reader::from_file(&missing).is_ok()),
            ("fastx/either-from_file", fastx::EitherRecords::from_file(&missing).is_ok()),
            ("fastx/get_kind_file", fastx::get_kind_file(&missing).is_ok()),
            ("fasta/to_file", fasta::Writer::to_file(&no_dir).is_ok()),
            ("fasta/to_file_with_capacity", fasta::Writer::to_file_with_capacity(7, &no_dir).is_ok()),
            ("fastq/to_file", fastq::Writer::to_file(&no_dir).is_ok()),
            ("fastq/to_file_with_capacity", fastq::Writer::to_file_with_capacity(7, &no_dir).is_ok()),
        ];
        for (name, ok) in &oks {
            if *ok {
                viol.push((format!("C11/{}/ok-on-missing-path", name), String::new()));
            }
        }
        let empty = dir.join("empty.fx");
        std::fs::write(&empty, b"").expect("scratch file is writable");
        if fastx::get_kind_file(&empty).is_ok() {
            viol.push(("C11/fastx/empty-input/get_kind-not-an-error".to_string(), "get_kind_file on an empty file".to_string()));
        }
        match fastx::EitherRecords::from_file(&empty) {
            Err(e) => viol.push(("C11/fastx/either-from_file/error-on-existing-file".to_string(), e.to_string())),
            Ok(mut it) => {
                if it.kind().is_ok() {
                    viol.push(("C11/fastx/empty-input/kind-not-an-error".to_string(), "EitherRecords::from_file on an empty file".to_string()));
                }
                if it.take(4).any(|r| r.is_ok()) {
                    viol.push(("C11/fastx/empty-input/record-from-nothing".to_string(), "EitherRecords::from_file on an empty file".to_string()));
                }
            }
        }
        let n = [fasta::Reader::from_file(&empty).map(|r| r.records().take(4).count()).unwrap_or(9), fastq::Reader::from_file(&empty).map(|r| r.records().take(4).count()).unwrap_or(9)];
        if n != [0, 0] {
            viol.push(("C11/empty-file/from_file/records-from-nothing".to_string(), format!("{:?}", n)));
        }
        let _ = std::fs::remove_file(&empty);
        (oks, viol)
    });
    match res {
        Err(msg) => cc.violation("C11/file-constructors/missing-path/panic", msg),
        Ok((obs, viol)) => {
            cc.outcome(&obs);
            for (k, d) in viol {
                cc.violation(k, d);
            }
        }
    }
}

// ------------------------------------------------------------------ injected write errors

#[derive(Default)]
struct SinkState {
    data: Vec<u8>,
    calls: usize,
    triggered: bool,
}

/// a sink whose `fail_at`-th write() call (0-based) fails with ErrorKind::Other (and every later
/// one too when `sticky`); every other call accepts at most `chunk` bytes
struct FailSink<'a> {
    st: &'a RefCell<SinkState>,
    fail_at: usize,
    sticky: bool,
    chunk: usize,
    max_calls: usize,
}

impl<'a> Write for FailSink<'a> {
    fn write(&mut self, buf: &[u8]) -> io::Result<usize> {
        let mut st = self.st.borrow_mut();
        let c = st.calls;
        st.calls += 1;
        if c >= self.max_calls {
            drop(st);
            panic!("sink: writer issued more than {} write calls (no termination)", self.max_calls);
        }
        if c == self.fail_at || (self.sticky && c > self.fail_at) {
            st.triggered = true;
            return Err(io::Error::new(io::ErrorKind::Other, "write fault (injected)"));
        }
        let n = buf.len().min(self.chunk.max(1));
        st.data.extend_from_slice(&buf[..n]);
        Ok(n)
    }
    fn flush(&mut self) -> io::Result<()> {
        Ok(())
    }
}

#[derive(Clone, Debug, Serialize, Deserialize)]
struct WriteFault {
    format: Format,
    wrap: Option<usize>,
    cap: usize,
    ctor: WriterCtor,
    /// bytes the sink accepts per write() call
    chunk: usize,
    /// index of the failing write() call; = number of calls of the fault-free run: no fault
    fail_at: usize,
    sticky: bool,
}

struct WriteRun {
    results: Vec<bool>,
    data: Vec<u8>,
    calls: usize,
    triggered: bool,
}

fn run_write_fault(list: &[Rec], wf: &WriteFault, expect_len: usize) -> Result<WriteRun, String> {
    guard(|| {
        let st = RefCell::new(SinkState::default());
        let results: Vec<bool> = {
            let sink = FailSink { st: &st, fail_at: wf.fail_at, sticky: wf.sticky, chunk: wf.chunk, max_calls: 64 + 4 * expect_len };
            // the writer (and its BufWriter, which flushes once more when dropped) dies here
            drive_writer(sink, list, wf.format, wf.wrap, wf.cap, wf.ctor).iter().map(|r| r.is_ok()).collect()
        };
        let st = st.into_inner();
        WriteRun { results, data: st.data, calls: st.calls, triggered: st.triggered }
    })
}

/// number of sink write() calls of the fault-free run (enumeration bound for `fail_at`)
fn write_calls(list: &[Rec], wf: &WriteFault) -> usize {
    let mut w = wf.clone();
    w.fail_at = usize::MAX;
    run_write_fault(list, &w, 4096).map(|r| r.calls).unwrap_or(0)
}

fn write_fault_check(list: &[Rec], wf: &WriteFault, cc: &mut CaseCtx) {
    let f = fname(wf.format);
    let full = write_bytes(list, wf.format, wf.wrap, false);
    match run_write_fault(list, wf, full.len()) {
        Err(msg) => {
            let sym = if msg.contains("no termination") { "no-termination" } else { "panic" };
            cc.violation(format!("C11/{}/write-fault/{}", f, sym), msg)
        }
        Ok(run) => {
            cc.set_nontrivial(run.triggered);
            cc.outcome(&(run.results.clone(), run.data.len(), run.triggered));
            let everything_ok = run.results.iter().all(|&b| b);
            if !full.starts_with(&run.data) {
                cc.violation(format!("C11/{}/write-fault/accepted-bytes-not-a-prefix", f), format!("sink holds {:?}, fault-free output {:?}", show(&run.data), show(&full)));
            } else if everything_ok && run.data != full {
                cc.violation(
                    format!("C11/{}/write-fault/ok-although-bytes-missing", f),
                    format!("every write and flush() returned Ok but the sink accepted only {:?} of {:?}", show(&run.data), show(&full)),
                );
            }
            if !everything_ok && !run.triggered {
                cc.violation(format!("C11/{}/write-fault/error-without-fault", f), format!("results {:?}", run.results));
            }
        }
    }
}

// ------------------------------------------------------------------ injected read errors

/// `Read` over an `Env` whose `fail_at`-th read() call (0-based) fails with ErrorKind::Other (and
/// every later one too when `sticky`); a failing call consumes nothing
struct FaultyRead<'a> {
    env: Env<'a>,
    fail_at: usize,
    sticky: bool,
    calls: &'a Cell<usize>,
    triggered: &'a Cell<bool>,
    max_calls: usize,
}

impl<'a> Read for FaultyRead<'a> {
    fn read(&mut self, buf: &mut [u8]) -> io::Result<usize> {
        let c = self.calls.get();
        self.calls.set(c + 1);
        if c >= self.max_calls {
            panic!("environment: reader issued more than {} read calls (no termination)", self.max_calls);
        }
        if c == self.fail_at || (self.sticky && c > self.fail_at) {
            self.triggered.set(true);
            return Err(io::Error::new(io::ErrorKind::Other, "read fault (injected)"));
        }
        self.env.read(buf)
    }
}

#[derive(Clone, Debug, Serialize, Deserialize)]
struct ReadFault {
    format: Format,
    wrap: Option<usize>,
    cap: usize,
    sched: Schedule,
    api: Api,
    /// index of the failing read() call; = number of calls of the fault-free run: no fault
    fail_at: usize,
    sticky: bool,
}

/// (items, read() calls, fault reached)
fn run_read_fault(data: &[u8], rf: &ReadFault, limit: usize) -> Result<(Parsed, usize, bool), String> {
    guard(|| {
        let calls = Cell::new(0usize);
        let triggered = Cell::new(false);
        let src = FaultyRead { env: Env::new(data, rf.sched.clone()), fail_at: rf.fail_at, sticky: rf.sticky, calls: &calls, triggered: &triggered, max_calls: 128 + 32 * data.len() };
        let got = parse_bufread(BufReader::with_capacity(rf.cap, src), rf.format, rf.api, limit);
        (got, calls.get(), triggered.get())
    })
}

fn read_calls(list: &[Rec], rf: &ReadFault) -> usize {
    let mut r = rf.clone();
    r.fail_at = usize::MAX;
    guard(|| write_bytes(list, rf.format, rf.wrap, false)).ok().and_then(|d| run_read_fault(&d, &r, list.len() + 3).ok()).map(|x| x.1).unwrap_or(0)
}

fn read_fault_check(list: &[Rec], rf: &ReadFault, cc: &mut CaseCtx) {
    let f = fname(rf.format);
    let api = match rf.api {
        Api::Records => "records",
        Api::ReadInto => "read",
        Api::Either => "sniffer",
    };
    let data = write_bytes(list, rf.format, rf.wrap, false);
    let limit = list.len() + 3;
    let mut clean = rf.clone();
    clean.fail_at = usize::MAX;
    let (want, got) = (run_read_fault(&data, &clean, limit), run_read_fault(&data, rf, limit));
    match (want, got) {
        (Err(msg), _) | (_, Err(msg)) => {
            let sym = if msg.contains("no termination") { "no-termination" } else { "panic" };
            cc.violation(format!("C11/{}/read-fault/{}/{}", f, api, sym), msg)
        }
        (Ok((want, _, _)), Ok((got, _, triggered))) => {
            cc.set_nontrivial(triggered);
            let first_err = got.iter().position(|r| r.is_err());
            cc.outcome(&(got.len(), first_err, triggered));
            if want.iter().any(|r| r.is_err()) {
                // the fault-free run itself fails: reported by the round-trip cases
                return;
            }
            if !triggered {
                if got != want {
                    cc.violation(format!("C11/{}/read-fault/{}/differs-without-fault", f, api), format!("{:?}, expected {:?}", got, want));
                }
                return;
            }
            match first_err {
                None => cc.violation(
                    format!("C11/{}/read-fault/{}/error-swallowed", f, api),
                    format!("read() call #{} failed with ErrorKind::Other, the reader reported no error: {:?}", rf.fail_at, got),
                ),
                Some(j) => {
                    if j > want.len() || got[..j] != want[..j] {
                        cc.violation(
                            format!("C11/{}/read-fault/{}/wrong-record-before-error", f, api),
                            format!("read() call #{} failed; items {:?}; fault-free records {:?}", rf.fail_at, got, want),
                        );
                    }
                }
            }
        }
    }
}

// ------------------------------------------------------------------ enumeration of the appended units

const CTOR_SHARDS: usize = 4;
const WFAULT_SHARDS: usize = 4;
const RFAULT_SHARDS: usize = 4;
/// ctor-*, record-api, files, write-fault-*, read-fault-*
const EXT_UNITS: usize = CTOR_SHARDS + 2 + WFAULT_SHARDS + RFAULT_SHARDS;

fn ctor_unit(tier: Tier, shard: usize, ctx: &mut Ctx) {
    for (li, list) in lists(tier).iter().enumerate() {
        if li % CTOR_SHARDS != shard {
            continue;
        }
        for (format, wrap) in [(Format::Fastq, None), (Format::Fasta, None), (Format::Fasta, Some(3))] {
            for cap in CTOR_CAPS {
                ctx.case(|| json!({"kind": "ctor", "records": list, "format": format, "wrap": wrap, "cap": cap}), |cc| ctor_check(list, format, wrap, cap, cc));
            }
        }
        if ctx.res.capped {
            return;
        }
    }
}

fn record_api_unit(ctx: &mut Ctx) {
    let mut recs = record_alphabet();
    recs.extend(odd_records());
    for r in &recs {
        ctx.case(|| json!({"kind": "record-api", "record": r}), |cc| record_api_check(r, cc));
    }
    for cap in [1usize, 2, 8192] {
        for kind_first in [true, false] {
            ctx.case(|| json!({"kind": "fastx-empty", "cap": cap, "kind_first": kind_first}), |cc| fastx_empty_check(cap, kind_first, cc));
        }
    }
    ctx.case(|| json!({"kind": "fastx-misc"}), |cc| fastx_misc_check(cc));
    for len in LONG_RECORD_LENS {
        for (format, wrap) in [(Format::Fastq, None), (Format::Fasta, None), (Format::Fasta, Some(60usize)), (Format::Fasta, Some(65_536))] {
            ctx.case(|| json!({"kind": "long-record", "len": len, "format": format, "wrap": wrap}), |cc| long_record_check(len, format, wrap, cc));
        }
    }
}

/// one record whose sequence is `len` symbols long (around the default buffer size 8192 and
/// around 2^16), followed by two ordinary records: lines longer than every internal buffer, and
/// whatever the reader carries over from the long record to the next one
fn long_record_check(len: usize, format: Format, wrap: Option<usize>, cc: &mut CaseCtx) {
    cc.nontrivial();
    let seq: String = (0..len).map(|i| b"ACGTN"[(i * 7 + i / 5) % 5] as char).collect();
    let qual: String = (0..len).map(|i| (b'!' + (i % 60) as u8) as char).collect();
    let list = vec![
        Rec { id: "long".into(), desc: Some("first record".into()), seq, qual },
        Rec { id: "next".into(), desc: None, seq: "ACGT".into(), qual: "II@I".into() },
        Rec { id: "last".into(), desc: Some("d".into()), seq: "NN".into(), qual: "!~".into() },
    ];
    let r = guard(|| {
        let bytes = write_bytes(&list, format, wrap, false);
        (bytes.len(), parse_new(&bytes, format, list.len() + 3), parse(&bytes, format, 7, &Schedule::Uniform(4096), Api::ReadInto, list.len() + 3, &[]))
    });
    let f = fname(format);
    match r {
        Err(msg) => cc.violation(format!("C11/{}/long-record/panic", f), msg),
        Ok((n, got, got2)) => {
            cc.outcome(&(n, got.len()));
            let want: Parsed = list.iter().map(|r| Ok(expect(r, format))).collect();
            let brief = |p: &Parsed| -> Vec<String> {
                p.iter().map(|x| match x { Ok(r) => format!("Ok(id={} seq_len={} qual_len={})", r.id, r.seq.len(), r.qual.len()), Err(e) => format!("Err({})", e) }).collect()
            };
            if got != want {
                cc.violation(format!("C11/{}/long-record/records-differ", f), format!("sequence of {} symbols, wrap {:?}: read back {:?}", len, wrap, brief(&got)));
            }
            match got2 {
                Err(msg) => cc.violation(format!("C11/{}/long-record/panic", f), msg),
                Ok(g2) => {
                    if g2 != want {
                        cc.violation(format!("C11/{}/long-record/read/records-differ", f), format!("sequence of {} symbols, wrap {:?}, read() through a 7-byte BufReader: {:?}", len, wrap, brief(&g2)));
                    }
                }
            }
        }
    }
}

const LONG_RECORD_LENS: [usize; 9] = [8191, 8192, 8193, 16384, 65535, 65536, 65537, 70_000, 200_000];

/// a spread of singles over the whole alphabet (stride coprime to its radices) plus pairs and a triple
fn few_lists(single_stride: usize, pair_stride: usize) -> Vec<Vec<Rec>> {
    let recs = record_alphabet();
    let n = recs.len();
    let mut v: Vec<Vec<Rec>> = recs.iter().step_by(single_stride).map(|r| vec![r.clone()]).collect();
    for i in (0..n).step_by(pair_stride) {
        v.push(vec![recs[i].clone(), recs[(i * 7 + 13) % n].clone()]);
    }
    v.push(vec![recs[11].clone(), recs[(11 * 7 + 13) % n].clone(), recs[(11 * 3 + 500) % n].clone()]);
    v
}

fn file_unit(tier: Tier, ctx: &mut Ctx) {
    let dir = TempDir::new("C11-files");
    for list in few_lists(tier.pick(77, 13), tier.pick(601, 211)).iter() {
        for (format, wrap) in [(Format::Fastq, None), (Format::Fasta, None), (Format::Fasta, Some(3))] {
            ctx.case(|| json!({"kind": "file", "records": list, "format": format, "wrap": wrap}), |cc| file_check(dir.path(), list, format, wrap, cc));
        }
    }
    ctx.case(|| json!({"kind": "file-missing"}), |cc| file_missing_check(dir.path(), cc));
}

fn fault_lists(tier: Tier) -> Vec<Vec<Rec>> {
    few_lists(tier.pick(23, 7), tier.pick(229, 97))
}

fn wfault_unit(tier: Tier, shard: usize, ctx: &mut Ctx) {
    for (li, list) in fault_lists(tier).iter().enumerate() {
        if li % WFAULT_SHARDS != shard {
            continue;
        }
        for (format, wrap) in [(Format::Fastq, None), (Format::Fasta, None), (Format::Fasta, Some(3)), (Format::Fasta, Some(1))] {
            for cap in CTOR_CAPS {
                for ctor in [WriterCtor::FromBufWriter, WriterCtor::WithCapacity] {
                    for chunk in [usize::MAX, 1] {
                        let mut wf = WriteFault { format, wrap, cap, ctor, chunk, fail_at: 0, sticky: false };
                        let n = write_calls(list, &wf);
                        for fail_at in 0..=n {
                            for sticky in [false, true] {
                                if fail_at == n && sticky {
                                    continue; // no fault either way: the same case
                                }
                                wf.fail_at = fail_at;
                                wf.sticky = sticky;
                                ctx.case(|| json!({"kind": "write-fault", "records": list, "fault": wf}), |cc| write_fault_check(list, &wf, cc));
                            }
                        }
                    }
                }
            }
        }
        if ctx.res.capped {
            return;
        }
    }
}

fn rfault_unit(tier: Tier, shard: usize, ctx: &mut Ctx) {
    for (li, list) in fault_lists(tier).iter().enumerate() {
        if li % RFAULT_SHARDS != shard {
            continue;
        }
        for (format, wrap) in [(Format::Fastq, None), (Format::Fasta, None), (Format::Fasta, Some(3))] {
            for cap in [1usize, 3, 7, 8192] {
                for sched in [Schedule::Uniform(1), Schedule::Uniform(3), Schedule::Uniform(usize::MAX)] {
                    for api in [Api::Records, Api::ReadInto, Api::Either] {
                        let mut rf = ReadFault { format, wrap, cap, sched: sched.clone(), api, fail_at: 0, sticky: false };
                        let n = read_calls(list, &rf);
                        for fail_at in 0..=n {
                            for sticky in [false, true] {
                                if fail_at == n && sticky {
                                    continue;
                                }
                                rf.fail_at = fail_at;
                                rf.sticky = sticky;
                                ctx.case(|| json!({"kind": "read-fault", "records": list, "fault": rf}), |cc| read_fault_check(list, &rf, cc));
                            }
                        }
                    }
                }
            }
        }
        if ctx.res.capped {
            return;
        }
    }
}

fn ext_unit_names() -> Vec<String> {
    let mut v: Vec<String> = (0..CTOR_SHARDS).map(|i| format!("ctor-{}", i)).collect();
    v.push("record-api".to_string());
    v.push("files".to_string());
    v.extend((0..WFAULT_SHARDS).map(|i| format!("write-fault-{}", i)));
    v.extend((0..RFAULT_SHARDS).map(|i| format!("read-fault-{}", i)));
    debug_assert_eq!(v.len(), EXT_UNITS);
    v
}

fn run_ext_unit(tier: Tier, u: usize, ctx: &mut Ctx) {
    if u < CTOR_SHARDS {
        ctor_unit(tier, u, ctx);
    } else if u == CTOR_SHARDS {
        record_api_unit(ctx);
    } else if u == CTOR_SHARDS + 1 {
        file_unit(tier, ctx);
    } else if u < CTOR_SHARDS + 2 + WFAULT_SHARDS {
        wfault_unit(tier, u - CTOR_SHARDS - 2, ctx);
    } else {
        rfault_unit(tier, u - CTOR_SHARDS - 2 - WFAULT_SHARDS, ctx);
    }
}

/// replay of the appended case kinds; false if `case` is not one of them
fn replay_ext(case: &Value, ctx: &mut Ctx) -> bool {
    let list = || -> Vec<Rec> { serde_json::from_value(case["records"].clone()).unwrap_or_default() };
    match case["kind"].as_str().unwrap_or("") {
        "ctor" => {
            let list = list();
            let format: Format = serde_json::from_value(case["format"].clone()).unwrap();
            let wrap: Option<usize> = serde_json::from_value(case["wrap"].clone()).unwrap();
            let cap = case["cap"].as_u64().unwrap() as usize;
            ctx.case(|| case.clone(), |cc| ctor_check(&list, format, wrap, cap, cc));
        }
        "record-api" => {
            let r: Rec = serde_json::from_value(case["record"].clone()).unwrap();
            ctx.case(|| case.clone(), |cc| record_api_check(&r, cc));
        }
        "fastx-empty" => {
            let cap = case["cap"].as_u64().unwrap() as usize;
            let kind_first = case["kind_first"].as_bool().unwrap();
            ctx.case(|| case.clone(), |cc| fastx_empty_check(cap, kind_first, cc));
        }
        "fastx-misc" => ctx.case(|| case.clone(), |cc| fastx_misc_check(cc)),
        "long-record" => {
            let len = (case["len"].as_u64().unwrap_or(1) as usize).clamp(1, 5_000_000);
            let format: Format = serde_json::from_value(case["format"].clone()).unwrap();
            let wrap: Option<usize> = serde_json::from_value(case["wrap"].clone()).unwrap();
            ctx.case(|| case.clone(), |cc| long_record_check(len, format, wrap, cc));
        }
        "file" => {
            let list = list();
            let format: Format = serde_json::from_value(case["format"].clone()).unwrap();
            let wrap: Option<usize> = serde_json::from_value(case["wrap"].clone()).unwrap();
            let dir = TempDir::new("C11-replay");
            ctx.case(|| case.clone(), |cc| file_check(dir.path(), &list, format, wrap, cc));
        }
        "file-missing" => {
            let dir = TempDir::new("C11-replay");
            ctx.case(|| case.clone(), |cc| file_missing_check(dir.path(), cc));
        }
        "write-fault" => {
            let list = list();
            let wf: WriteFault = serde_json::from_value(case["fault"].clone()).unwrap();
            ctx.case(|| case.clone(), |cc| write_fault_check(&list, &wf, cc));
        }
        "read-fault" => {
            let list = list();
            let rf: ReadFault = serde_json::from_value(case["fault"].clone()).unwrap();
            ctx.case(|| case.clone(), |cc| read_fault_check(&list, &rf, cc));
        }
        _ => return false,
    }
    true
}

impl Prop for C11Prop {
    fn id(&self) -> &'static str {
        "C11"
    }
    fn level(&self) -> &'static str {
        "fault_enumeration"
    }
    fn rule(&self) -> &'static str {
        "Record lists (all single records of a 6x10x6x5 alphabet (ids and descriptions include non-ASCII text and multi-byte white space), strided pairs, selected triples) are written by the real writers and read back under every layout of a grid: FASTA line wrap x {as written, CRLF, re-wrapped} x BufReader capacity {1,2,3,7,8192} x read() answer schedule (uniform <=1,<=2,<=3, cycles, unbounded; for single records every schedule with one short leading answer and every schedule with two) x API (records(), read() into a reused Record, EitherRecords); the sniffer additionally against the plain parser on streams whose first reads fail with ErrorKind::Interrupted, and the seekable sniffer on streams positioned behind a preamble; every truncation offset of the written bytes; every string of up to 5/6 tokens over {> @ + LF CR A space 0xFF U+00A0 U+2003} (the last two as multi-byte UTF-8). Each (list, layout) / (list, cut) / byte string is one case. Non-trivial: a read() answer or the buffer capacity splits a line, or the layout is CRLF/re-wrapped, or a non-default API; cuts: the cut falls inside a line; arbitrary: contains a line break and a record marker. Appended units: (ctor) every list x format x BufReader/BufWriter capacity {1,2,3,7,64}: Reader::with_capacity and Reader::from_bufread against Reader::new, Writer::with_capacity and Writer::from_bufwriter against Writer::new (non-trivial: capacity < file length); (record-api) every record of the alphabet plus 144 records outside the valid class: check() against the documented rule, Display against the writer, SequenceRead against the accessors, fastx kind/accessors/to_fasta/into/to_fastq(default_qual in I ! ~); EitherRecords and get_kind* on empty input; Kind Display and error conversions; (files) a spread of lists through the path constructors in a scratch directory against the in-memory route, missing paths, an empty file; (write-fault) a spread of lists x format/wrap x BufWriter capacity {1,2,3,7,64} x {with_capacity, from_bufwriter} x sink accepting all / one byte per call x every index k of the failing write() call up to the call count of the fault-free run x {fails once, fails from then on}; (read-fault) the same lists x capacity {1,3,7,8192} x answers {1,3,unbounded} x API x every index k of the failing read() call x {once, from then on}. Non-trivial there: the injected fault was reached."
    }
    fn assumptions(&self) -> Vec<&'static str> {
        vec![
            "valid record = id without white space, optional description without line breaks, non-empty sequence of ASCII letters, qualities of equal length (first symbol ranges over I @ + > !)",
            "a reader that issues more than 64+16*len read() calls on len bytes is declared non-terminating; an iterator yielding more than len+2 items likewise",
            "descriptions that are empty or end in white space are in the alphabet; losing exactly that trailing white space is classified under its own finding key",
            "injected errors have ErrorKind::Other (never Interrupted); a faulted run is driven the way a caller would: writing stops at the first Err, and of the reader's items only those up to and including the first Err are judged",
            "after a write error the writer is dropped (std's BufWriter then tries to flush once more); the bytes the sink holds afterwards must still be a prefix of the fault-free output",
            "path constructors are exercised in a per-process scratch directory under std::env::temp_dir()",
        ]
    }
    fn bounds(&self, tier: Tier) -> Value {
        json!({
            "records": record_alphabet().len(), "lists": lists(tier).len(),
            "fasta_wraps": "None,1,3,4,100,usize::MAX,usize::MAX-1,usize::MAX/2+1", "variants": "as written, CRLF, re-wrap 3, re-wrap 1, CRLF+re-wrap 3, CRLF+re-wrap 2",
            "bufreader_capacities": [1, 2, 3, 7, 8192],
            "schedules": tier.pick("uniform family (6); all 1-deviation schedules for single records; all 2-deviation schedules for every 8th single record", "uniform family (6); all 1- and 2-deviation schedules for single records"),
            "cuts": "every offset of the FASTQ bytes and of the FASTA bytes (wrap None and 3)",
            "arbitrary_bytes": format!("all strings of <= {} tokens over 10 hostile tokens", tier.pick(5, 6)),
            "constructor_capacities": CTOR_CAPS, "record_api_records": record_alphabet().len() + odd_records().len(),
            "file_lists": few_lists(tier.pick(77, 13), tier.pick(601, 211)).len(), "fault_lists": fault_lists(tier).len(),
            "write_faults": "every failing write() call index of the fault-free run, once / from then on, sink chunk unbounded / 1, BufWriter capacity 1,2,3,7,64, both constructors",
            "read_faults": "every failing read() call index of the fault-free run, once / from then on, BufReader capacity 1,3,7,8192, answers 1,3,unbounded, records()/read()/EitherRecords",
        })
    }
    fn units(&self, _tier: Tier) -> Vec<String> {
        let mut v: Vec<String> = (0..LIST_SHARDS).map(|i| format!("lists-{}", i)).collect();
        v.extend((0..ARB_SHARDS).map(|i| format!("arbitrary-{}", i)));
        v.extend(ext_unit_names());
        v
    }
    fn run_unit(&self, tier: Tier, unit: usize, ctx: &mut Ctx) {
        if unit < LIST_SHARDS {
            list_unit(tier, unit, ctx);
        } else if unit < LIST_SHARDS + ARB_SHARDS {
            arbitrary_unit(tier, unit - LIST_SHARDS, ctx);
        } else {
            run_ext_unit(tier, unit - LIST_SHARDS - ARB_SHARDS, ctx);
        }
    }
    fn replay(&self, case: &Value, ctx: &mut Ctx) {
        if replay_ext(case, ctx) {
            return;
        }
        match case["kind"].as_str().unwrap_or("") {
            "roundtrip" => {
                let list: Vec<Rec> = serde_json::from_value(case["records"].clone()).unwrap();
                let lay: Layout = serde_json::from_value(case["layout"].clone()).unwrap();
                ctx.case(|| case.clone(), |cc| roundtrip_check(&list, &lay, cc));
            }
            "seek-sniff" => {
                let list: Vec<Rec> = serde_json::from_value(case["records"].clone()).unwrap();
                let format: Format = serde_json::from_value(case["format"].clone()).unwrap();
                let pre = unshow(case["preamble"].as_str().unwrap());
                ctx.case(|| case.clone(), |cc| seek_sniff_check(&list, format, &pre, cc));
            }
            "cut" => {
                let list: Vec<Rec> = serde_json::from_value(case["records"].clone()).unwrap();
                let format: Format = serde_json::from_value(case["format"].clone()).unwrap();
                let wrap: Option<usize> = serde_json::from_value(case["wrap"].clone()).unwrap();
                let cut = case["cut"].as_u64().unwrap() as usize;
                ctx.case(|| case.clone(), |cc| cut_check(&list, format, wrap, cut, cc));
            }
            "arbitrary" => {
                let data = unshow(case["bytes"].as_str().unwrap());
                ctx.case(|| case.clone(), |cc| arbitrary_check(&data, cc));
            }
            _ => {}
        }
    }
}
