//! C01 — pairwise::Aligner: optimal score, valid path, history-free.
//! K1: complete sweep of (x, y) × scoring grid on aligners that are reused across the whole sweep
//! (each answer is also compared with a fresh aligner's), K2: explicit call histories on one object.

use super::Prop;
use crate::bfs;
use crate::ctx::{guard, show, unshow, CaseCtx, Ctx, Tier};
use crate::gen;
use crate::oracles::align::{ops_string, validate, ClipOps, RangeTable, Scheme, Subst};
use bio::alignment::pairwise::{Aligner, MatchParams, Scoring, MIN_SCORE};
use bio::alignment::{Alignment, AlignmentMode};
use serde::{Deserialize, Serialize};
use serde_json::{json, Value};

pub struct C01Prop;
pub static C01: C01Prop = C01Prop;

pub const CLIP_VALUES: [i32; 4] = [MIN_SCORE, 0, -1, -4];
const GAP_OPEN: [i32; 3] = [0, -1, -3];
const GAP_EXTEND: [i32; 3] = [0, -1, -2];

pub fn clip_quadruple(idx: usize) -> [i32; 4] {
    [
        CLIP_VALUES[idx / 64 % 4],
        CLIP_VALUES[idx / 16 % 4],
        CLIP_VALUES[idx / 4 % 4],
        CLIP_VALUES[idx % 4],
    ]
}

fn scoring_of(s: &Scheme) -> Scoring<impl Fn(u8, u8) -> i32 + Clone> {
    let sub = s.subst;
    Scoring {
        gap_open: s.gap_open,
        gap_extend: s.gap_extend,
        match_fn: move |a: u8, b: u8| sub.score(a, b),
        match_scores: sub.match_scores(),
        xclip_prefix: s.xclip_prefix,
        xclip_suffix: s.xclip_suffix,
        yclip_prefix: s.yclip_prefix,
        yclip_suffix: s.yclip_suffix,
    }
}

#[derive(Clone, Copy, Debug, PartialEq, Eq, Hash, Serialize, Deserialize)]
pub enum Mode {
    Custom,
    Global,
    Semiglobal,
    Local,
}

impl Mode {
    pub fn name(self) -> &'static str {
        match self {
            Mode::Custom => "custom",
            Mode::Global => "global",
            Mode::Semiglobal => "semiglobal",
            Mode::Local => "local",
        }
    }
    /// the clip penalties the mode stands for (None: the aligner's own)
    pub fn clips(self) -> Option<[i32; 4]> {
        match self {
            Mode::Custom => None,
            Mode::Global => Some([MIN_SCORE; 4]),
            Mode::Semiglobal => Some([MIN_SCORE, MIN_SCORE, 0, 0]),
            Mode::Local => Some([0; 4]),
        }
    }
    pub fn expected_mode(self) -> AlignmentMode {
        match self {
            Mode::Custom => AlignmentMode::Custom,
            Mode::Global => AlignmentMode::Global,
            Mode::Semiglobal => AlignmentMode::Semiglobal,
            Mode::Local => AlignmentMode::Local,
        }
    }
}

/// All oracle checks on one returned alignment.  Ok(()) when fine, otherwise (symptom, detail);
/// the caller turns the symptom into a finding key.
pub fn check_alignment(
    al: &Alignment,
    x: &[u8],
    y: &[u8],
    scheme: &Scheme,
    mode: Mode,
    opt: i64,
    must_be_optimal: bool,
    tolerate_zero_len_clips: bool,
    cc: &mut CaseCtx,
) -> Result<(), (String, String)> {
    let (nontrivial, r) = check_alignment_core(al, x, y, scheme, mode, opt, must_be_optimal, tolerate_zero_len_clips);
    cc.set_nontrivial(nontrivial);
    cc.outcome(&(al.score, &al.operations, al.xstart, al.ystart));
    r
}

/// the same checks without a CaseCtx (used inside forked children)
pub fn check_alignment_pure(
    al: &Alignment,
    x: &[u8],
    y: &[u8],
    scheme: &Scheme,
    mode: Mode,
    opt: i64,
    must_be_optimal: bool,
    tolerate_zero_len_clips: bool,
) -> Result<(), (String, String)> {
    check_alignment_core(al, x, y, scheme, mode, opt, must_be_optimal, tolerate_zero_len_clips).1
}

fn check_alignment_core(
    al: &Alignment,
    x: &[u8],
    y: &[u8],
    scheme: &Scheme,
    mode: Mode,
    opt: i64,
    must_be_optimal: bool,
    tolerate_zero_len_clips: bool,
) -> (bool, Result<(), (String, String)>) {
    let mut nontrivial = false;
    let r = (|| -> Result<(), (String, String)> {
    let eff = match mode.clips() {
        Some(c) => scheme.with_clips(c),
        None => *scheme,
    };
    // global() does not filter clip operations (none can occur); the two other standard modes do
    let clip_ops = if mode == Mode::Custom || mode == Mode::Global {
        ClipOps::Explicit
    } else {
        ClipOps::Filtered
    };
    if al.mode != mode.expected_mode() {
        return Err(("mode-field".into(), format!("mode field is {:?}", al.mode)));
    }
    let pc = match validate(al, x, y, &eff, clip_ops, tolerate_zero_len_clips) {
        Ok(pc) => pc,
        Err(e) => return Err(("invalid-path".into(), format!("{} :: {}", e, ops_string(al)))),
    };
    nontrivial = !x.is_empty() && !y.is_empty() && (pc.has_gap || pc.has_clip);
    let (m, n) = (x.len(), y.len());
    match mode {
        Mode::Global => {
            if al.xstart != 0 || al.ystart != 0 || al.xend != m || al.yend != n || pc.has_clip {
                return Err(("not-end-to-end".into(), ops_string(al)));
            }
        }
        Mode::Semiglobal => {
            if al.xstart != 0 || al.xend != m {
                return Err(("x-not-fully-aligned".into(), ops_string(al)));
            }
        }
        Mode::Local => {
            if al.score < 0 {
                return Err(("negative-score".into(), ops_string(al)));
            }
        }
        Mode::Custom => {}
    }
    if pc.strict != al.score as i64 {
        // classify one shape precisely: a gap run that continues across a suffix clip and was
        // charged exactly one surplus gap_open
        let one_open = pc.strict - al.score as i64 == -(eff.gap_open as i64) && eff.gap_open < 0;
        let filtered = clip_ops == ClipOps::Filtered;
        let sub = if one_open && (pc.ins_run_split_by_clip || (filtered && pc.ins_run_at_clipped_yend)) {
            "ins-run-split-at-yclip/score-below-path"
        } else if one_open && (pc.del_run_split_by_clip || (filtered && pc.del_run_at_clipped_xend)) {
            "del-run-split-at-xclip/score-below-path"
        } else if pc.has_zero_len_clip && pc.strict > al.score as i64 {
            // the traceback went through a zero-length suffix clip and produced a path that is
            // better than the score the DP reports for it
            "zero-length-clip-in-path/score-below-path"
        } else {
            "score-differs-from-path"
        };
        return Err((
            sub.into(),
            format!(
                "reported {} but the returned path scores {} (optimum {}) :: {}",
                al.score,
                pc.strict,
                opt,
                ops_string(al)
            ),
        ));
    }
    if al.score as i64 > opt {
        return Err(("above-optimum".into(), format!("reported {} optimum {} :: {}", al.score, opt, ops_string(al))));
    }
    if must_be_optimal && (al.score as i64) < opt {
        return Err(("suboptimal".into(), format!("reported {} optimum {} :: {}", al.score, opt, ops_string(al))));
    }
    Ok(())
    })();
    (nontrivial, r)
}

/// C01 wrapper: report under `C01/<mode>/<symptom>`; returns whether the alignment was fine
fn check_c01(
    al: &Alignment,
    x: &[u8],
    y: &[u8],
    scheme: &Scheme,
    mode: Mode,
    opt: i64,
    cc: &mut CaseCtx,
) -> bool {
    match check_alignment(al, x, y, scheme, mode, opt, true, false, cc) {
        Ok(()) => true,
        Err((symptom, detail)) => {
            cc.violation(format!("C01/{}/{}", mode.name(), symptom), detail);
            false
        }
    }
}

pub fn call_mode<F: bio::alignment::pairwise::MatchFunc>(
    a: &mut Aligner<F>,
    mode: Mode,
    x: &[u8],
    y: &[u8],
) -> Alignment {
    match mode {
        Mode::Custom => a.custom(x, y),
        Mode::Global => a.global(x, y),
        Mode::Semiglobal => a.semiglobal(x, y),
        Mode::Local => a.local(x, y),
    }
}

// ------------------------------------------------------------------ sweep units

#[derive(Clone, Debug, Serialize, Deserialize)]
struct SweepCfg {
    alpha: String,  // abstract alphabet "ab" / "abc"
    maxlen: usize,
    emb: [u8; 3],
    subst_kind: u8,
    gap_open: i32,
    gap_extend: i32,
}

fn sweep_cfgs(tier: Tier) -> Vec<SweepCfg> {
    let mut v = vec![];
    let plain = [b'a', b'b', b'c'];
    let (bin_len, tern_len) = tier.pick((4, 2), (6, 3));
    for kind in 0..4u8 {
        for &go in &GAP_OPEN {
            for &ge in &GAP_EXTEND {
                v.push(SweepCfg { alpha: "ab".into(), maxlen: bin_len, emb: plain, subst_kind: kind, gap_open: go, gap_extend: ge });
            }
        }
    }
    for kind in [0u8, 3] {
        for &go in &[0, -3] {
            for &ge in &[0, -1] {
                v.push(SweepCfg { alpha: "abc".into(), maxlen: tern_len, emb: plain, subst_kind: kind, gap_open: go, gap_extend: ge });
            }
        }
    }
    // byte embeddings of {a,b}: the aligner must not care about byte values
    for emb in [[0x00u8, 0xFF, 0x80], [0x7F, 0x80, 0x01]] {
        for kind in [1u8, 3] {
            v.push(SweepCfg { alpha: "ab".into(), maxlen: 3, emb, subst_kind: kind, gap_open: -1, gap_extend: -1 });
        }
    }
    // one deeper binary sweep on eight schemes
    for kind in [0u8, 1] {
        for &go in &[0, -3] {
            for &ge in &[0, -1] {
                v.push(SweepCfg { alpha: "ab".into(), maxlen: bin_len + 1, emb: plain, subst_kind: kind, gap_open: go, gap_extend: ge });
            }
        }
    }
    v
}

fn base_scheme(c: &SweepCfg) -> Scheme {
    Scheme {
        subst: Subst { kind: c.subst_kind, emb: c.emb },
        gap_open: c.gap_open,
        gap_extend: c.gap_extend,
        xclip_prefix: MIN_SCORE,
        xclip_suffix: MIN_SCORE,
        yclip_prefix: MIN_SCORE,
        yclip_suffix: MIN_SCORE,
    }
}

fn case_desc(kind: &str, scheme: &Scheme, mode: Mode, x: &[u8], y: &[u8]) -> Value {
    json!({"kind": kind, "scheme": scheme, "mode": mode, "x": show(x), "y": show(y)})
}

/// the standard modes are exercised on the aligners with these clip-quadruple indices
fn runs_modes(clip_idx: usize) -> bool {
    clip_idx % 37 == 0
}

fn new_aligner(scheme: &Scheme, clip_idx: usize, cfg_parity: usize) -> Aligner<impl Fn(u8, u8) -> i32 + Clone> {
    let sc = scoring_of(scheme);
    // spread the constructors over the grid
    match (clip_idx + cfg_parity) % 3 {
        0 => Aligner::with_scoring(sc),
        1 => Aligner::with_capacity_and_scoring(0, 0, sc),
        _ => Aligner::with_capacity_and_scoring(6, 3, sc),
    }
}

/// Runs the sweep of one configuration. When `only` is Some((pair_limit, clip_idx)) the function
/// replays the history of one reused aligner up to and including pair index `pair_limit`.
fn sweep(cfg: &SweepCfg, cfg_idx: usize, ctx: &mut Ctx, only: Option<(usize, usize)>) {
    let base = base_scheme(cfg);
    let abstract_strs = gen::strings(cfg.alpha.as_bytes(), 0, cfg.maxlen);
    let strs: Vec<Vec<u8>> = abstract_strs.iter().map(|s| gen::embed(s, b"abc", &cfg.emb)).collect();
    let clip_idxs: Vec<usize> = match only {
        Some((_, c)) => vec![c],
        None => (0..256).collect(),
    };
    let schemes: Vec<Scheme> = clip_idxs.iter().map(|&ci| base.with_clips(clip_quadruple(ci))).collect();
    let mut aligners: Vec<_> = clip_idxs
        .iter()
        .zip(&schemes)
        .map(|(&ci, s)| new_aligner(s, ci, cfg_idx))
        .collect();
    // `new`/`with_capacity` constructors (all clips forbidden) for the scheme with clip index 0
    let mut pair_idx = 0usize;
    for x in &strs {
        for y in &strs {
            if let Some((limit, _)) = only {
                if pair_idx > limit {
                    return;
                }
            }
            let table = RangeTable::new(x, y, &base.subst, base.gap_open, base.gap_extend);
            for (k, &ci) in clip_idxs.iter().enumerate() {
                let scheme = schemes[k];
                let opt = table.optimum(scheme.clips());
                let replay_hist = json!({"kind": "sweep-history", "cfg": cfg, "cfg_idx": cfg_idx, "pair_limit": pair_idx, "clip_idx": ci});
                // --- custom on the reused aligner, compared with the oracle and with a fresh aligner
                let mut first_custom: Option<Alignment> = None;
                {
                    let aligner = &mut aligners[k];
                    let mut rebuilt = None;
                    ctx.case(
                        || case_desc("call", &scheme, Mode::Custom, x, y),
                        |cc| match guard(|| aligner.custom(x, y)) {
                            Err(msg) => {
                                cc.violation("C01/custom/panic", msg);
                                rebuilt = Some(new_aligner(&scheme, ci, cfg_idx));
                            }
                            Ok(al) => {
                                let ok = check_c01(&al, x, y, &scheme, Mode::Custom, opt, cc);
                                let fresh = guard(|| Aligner::with_scoring(scoring_of(&scheme)).custom(x, y));
                                if fresh.as_ref().ok() != Some(&al) {
                                    if ok {
                                        // the reused aligner is right by the oracle but differs from a fresh one
                                        cc.violation_with_case("C01/reuse/result-depends-on-history", format!("reused: {} fresh: {:?}", ops_string(&al), fresh.as_ref().map(ops_string)), replay_hist.clone());
                                    } else {
                                        cc.violation_with_case("C01/reuse/wrong-only-after-history", format!("fresh aligner returns {:?}", fresh.as_ref().map(ops_string)), replay_hist.clone());
                                    }
                                }
                                first_custom = Some(al);
                            }
                        },
                    );
                    if let Some(r) = rebuilt {
                        aligners[k] = r;
                    }
                }
                // --- standard modes on the same object, then custom again (clips must be restored)
                if runs_modes(ci) {
                    for mode in [Mode::Global, Mode::Semiglobal, Mode::Local] {
                        let mopt = table.optimum(mode.clips().unwrap());
                        let aligner = &mut aligners[k];
                        let mut rebuilt = None;
                        ctx.case(
                            || case_desc("call", &scheme, mode, x, y),
                            |cc| match guard(|| call_mode(aligner, mode, x, y)) {
                                Err(msg) => {
                                    cc.violation(format!("C01/{}/panic", mode.name()), msg);
                                    rebuilt = Some(new_aligner(&scheme, ci, cfg_idx));
                                }
                                Ok(al) => {
                                    check_c01(&al, x, y, &scheme, mode, mopt, cc);
                                }
                            },
                        );
                        if let Some(r) = rebuilt {
                            aligners[k] = r;
                        }
                    }
                    let aligner = &mut aligners[k];
                    ctx.case(
                        || json!({"kind": "custom-after-modes", "scheme": scheme, "x": show(x), "y": show(y)}),
                        |cc| {
                            let again = guard(|| aligner.custom(x, y));
                            cc.nontrivial();
                            cc.outcome(&again.as_ref().map(|a| a.score).ok());
                            if again.as_ref().ok() != first_custom.as_ref() {
                                cc.violation(
                                    "C01/reuse/clips-not-restored-after-standard-mode",
                                    format!("custom before: {:?} after global+semiglobal+local: {:?}", first_custom.as_ref().map(ops_string), again.as_ref().map(ops_string)),
                                );
                            }
                        },
                    );
                }
            }
            pair_idx += 1;
            if ctx.res.capped {
                return;
            }
        }
    }
}

/// single call on a fresh aligner (replay of "call" cases)
fn single_call(scheme: &Scheme, mode: Mode, x: &[u8], y: &[u8], cc: &mut CaseCtx) {
    let eff = match mode.clips() {
        Some(c) => c,
        None => scheme.clips(),
    };
    let opt = RangeTable::new(x, y, &scheme.subst, scheme.gap_open, scheme.gap_extend).optimum(eff);
    match guard(|| call_mode(&mut Aligner::with_scoring(scoring_of(scheme)), mode, x, y)) {
        Err(msg) => cc.violation(format!("C01/{}/panic", mode.name()), msg),
        Ok(al) => {
            check_c01(&al, x, y, scheme, mode, opt, cc);
        }
    }
}

// ------------------------------------------------------------------ K2: call histories on one object

#[derive(Clone, Debug, Serialize, Deserialize)]
struct Call {
    mode: Mode,
    x: String,
    y: String,
}

fn history_inputs() -> Vec<(Vec<u8>, Vec<u8>)> {
    // longer pairs first (they leave residue in the rolling columns and the traceback matrix),
    // then every pair over {a,b}^<=2
    let mut v = vec![
        (b"abbabab".to_vec(), b"babbaa".to_vec()),
        (b"bab".to_vec(), b"abbababba".to_vec()),
        (b"aab".to_vec(), b"ab".to_vec()),
    ];
    let small = gen::strings(b"ab", 0, 2);
    for x in &small {
        for y in &small {
            v.push((x.clone(), y.clone()));
        }
    }
    v
}

fn history_schemes() -> Vec<(i32, i32, i32, i32, [i32; 4])> {
    // (match, mismatch, open, extend, clips)
    vec![
        (1, -1, -1, -1, [MIN_SCORE; 4]),
        (1, -1, -1, -1, [0, 0, 0, 0]),
        (2, -3, -2, 0, [-1, MIN_SCORE, 0, -4]),
        (2, -3, 0, -1, [MIN_SCORE, -1, -4, 0]),
        (1, -1, -3, -1, [-4, -4, -1, -1]),
        (0, -1, -1, 0, [0, MIN_SCORE, MIN_SCORE, 0]),
        (1, -1, 0, 0, [-1, 0, MIN_SCORE, -1]),
        (2, -3, -3, -2, [0, -1, 0, -1]),
    ]
}

fn mp_aligner(s: &(i32, i32, i32, i32, [i32; 4]), ctor: usize) -> Aligner<MatchParams> {
    let sc = Scoring {
        gap_open: s.2,
        gap_extend: s.3,
        match_fn: MatchParams::new(s.0, s.1),
        match_scores: Some((s.0, s.1)),
        xclip_prefix: s.4[0],
        xclip_suffix: s.4[1],
        yclip_prefix: s.4[2],
        yclip_suffix: s.4[3],
    };
    match ctor {
        0 => Aligner::with_scoring(sc),
        1 => Aligner::with_capacity_and_scoring(0, 0, sc),
        _ => Aligner::with_capacity_and_scoring(2, 9, sc),
    }
}

fn mp_scheme(s: &(i32, i32, i32, i32, [i32; 4])) -> Scheme {
    let kind = match (s.0, s.1) {
        (1, -1) => 0,
        (2, -3) => 1,
        _ => 2,
    };
    Scheme {
        subst: Subst { kind, emb: [b'a', b'b', b'c'] },
        gap_open: s.2,
        gap_extend: s.3,
        xclip_prefix: s.4[0],
        xclip_suffix: s.4[1],
        yclip_prefix: s.4[2],
        yclip_suffix: s.4[3],
    }
}

fn history_step(
    state: &Aligner<MatchParams>,
    call: &Call,
    sidx: usize,
    cc: &mut CaseCtx,
) -> Option<Aligner<MatchParams>> {
    let s = history_schemes()[sidx];
    let scheme = mp_scheme(&s);
    let (x, y) = (unshow(&call.x), unshow(&call.y));
    let mut a = state.clone();
    let got = guard(|| call_mode(&mut a, call.mode, &x, &y));
    let fresh = guard(|| call_mode(&mut mp_aligner(&s, 0), call.mode, &x, &y));
    cc.nontrivial();
    match (&got, &fresh) {
        (Ok(g), Ok(f)) => {
            cc.outcome(&(g.score, &g.operations));
            if g != f {
                cc.violation(
                    "C01/reuse/result-depends-on-history",
                    format!("reused aligner: {} fresh aligner: {}", ops_string(g), ops_string(f)),
                );
                return None;
            }
            let eff = call.mode.clips().unwrap_or(scheme.clips());
            let opt = RangeTable::new(&x, &y, &scheme.subst, scheme.gap_open, scheme.gap_extend).optimum(eff);
            if !check_c01(g, &x, &y, &scheme, call.mode, opt, cc) {
                return None;
            }
            Some(a)
        }
        (Err(m), _) => {
            cc.violation(format!("C01/{}/panic", call.mode.name()), m.clone());
            None
        }
        (_, Err(m)) => {
            cc.violation(format!("C01/{}/panic", call.mode.name()), m.clone());
            None
        }
    }
}

fn history_unit(sidx: usize, ctor: usize, tier: Tier, ctx: &mut Ctx) {
    let depth = tier.pick(3, 4);
    let s = history_schemes()[sidx];
    let inputs = history_inputs();
    let calls: Vec<Call> = inputs
        .iter()
        .flat_map(|(x, y)| {
            [Mode::Custom, Mode::Global, Mode::Semiglobal, Mode::Local]
                .into_iter()
                .map(move |mode| Call { mode, x: show(x), y: show(y) })
        })
        .collect();
    bfs::explore(
        ctx,
        vec![(mp_aligner(&s, ctor), json!({"c01_history_scheme": sidx, "ctor": ctor}))],
        depth,
        |_| calls.clone(),
        |st, op, cc| history_step(st, op, sidx, cc),
        |st| st.clone(),
        |o| serde_json::to_value(o).unwrap(),
        json!({"depth": depth}),
    );
}


// ------------------------------------------------------------------ public constructors and builders

/// The documented construction routes other than a `Scoring` struct literal.
#[derive(Clone, Copy, Debug, PartialEq, Eq, Serialize, Deserialize)]
enum Route {
    /// Aligner::new(open, extend, fn): every clip forbidden
    AlignerNew,
    /// Aligner::with_capacity(m, n, open, extend, fn): every clip forbidden
    AlignerWithCapacity,
    /// Scoring::new(open, extend, fn).xclip_prefix(a).xclip_suffix(b).yclip_prefix(c).yclip_suffix(d)
    ScoringNewFour,
    /// Scoring::from_scores(open, extend, m, mm) + the four setters in the opposite order
    FromScoresFourReversed,
    /// Scoring::from_scores(..).xclip(a).yclip(c): prefix and suffix penalty set together
    FromScoresPairs,
    /// Scoring::new(..).yclip(c).xclip(a) then the two suffix setters override
    ScoringNewPairsThenSuffix,
    /// struct literal whose `match_scores` field (an undocumented hint, used by the banded
    /// aligner's band heuristic only) does not describe `match_fn`: the documented model is
    /// defined by `match_fn` ("function that returns the score for substitutions")
    LiteralForeignHint,
}

const ROUTES: [Route; 7] = [
    Route::AlignerNew,
    Route::AlignerWithCapacity,
    Route::ScoringNewFour,
    Route::FromScoresFourReversed,
    Route::FromScoresPairs,
    Route::ScoringNewPairsThenSuffix,
    Route::LiteralForeignHint,
];

impl Route {
    fn name(self) -> &'static str {
        match self {
            Route::AlignerNew => "Aligner::new",
            Route::AlignerWithCapacity => "Aligner::with_capacity",
            Route::ScoringNewFour => "Scoring::new+four-setters",
            Route::FromScoresFourReversed => "Scoring::from_scores+four-setters",
            Route::FromScoresPairs => "Scoring::from_scores+xclip+yclip",
            Route::ScoringNewPairsThenSuffix => "Scoring::new+yclip+xclip+suffix-setters",
            Route::LiteralForeignHint => "Scoring-literal+foreign-match_scores",
        }
    }
    /// can this route express the clip quadruple?
    fn expressible(self, c: [i32; 4]) -> bool {
        match self {
            Route::AlignerNew | Route::AlignerWithCapacity => c == [MIN_SCORE; 4],
            Route::FromScoresPairs => c[0] == c[1] && c[2] == c[3],
            _ => true,
        }
    }
    fn needs_match_params(self) -> bool {
        matches!(self, Route::FromScoresFourReversed | Route::FromScoresPairs)
    }
}

/// (match, mismatch) of the MatchParams substitution kinds
fn mp_of_kind(kind: u8) -> Option<(i32, i32)> {
    match kind {
        0 => Some((1, -1)),
        1 => Some((2, -3)),
        2 => Some((0, -1)),
        _ => None,
    }
}

/// custom(x, y) on an aligner built through `route`; Err = panic message
fn call_via_route(route: Route, s: &Scheme, x: &[u8], y: &[u8]) -> Result<Alignment, String> {
    let sub = s.subst;
    let f = move |a: u8, b: u8| sub.score(a, b);
    let (go, ge) = (s.gap_open, s.gap_extend);
    let c = s.clips();
    guard(move || match route {
        Route::AlignerNew => Aligner::new(go, ge, f).custom(x, y),
        Route::AlignerWithCapacity => Aligner::with_capacity(x.len() / 2, y.len() + 1, go, ge, f).custom(x, y),
        Route::ScoringNewFour => {
            let sc = Scoring::new(go, ge, f).xclip_prefix(c[0]).xclip_suffix(c[1]).yclip_prefix(c[2]).yclip_suffix(c[3]);
            Aligner::with_scoring(sc).custom(x, y)
        }
        Route::FromScoresFourReversed => {
            let (m, mm) = mp_of_kind(sub.kind).expect("MatchParams kind");
            let sc = Scoring::from_scores(go, ge, m, mm).yclip_suffix(c[3]).yclip_prefix(c[2]).xclip_suffix(c[1]).xclip_prefix(c[0]);
            Aligner::with_scoring(sc).custom(x, y)
        }
        Route::FromScoresPairs => {
            let (m, mm) = mp_of_kind(sub.kind).expect("MatchParams kind");
            let sc = Scoring::from_scores(go, ge, m, mm).xclip(c[0]).yclip(c[2]);
            Aligner::with_scoring(sc).custom(x, y)
        }
        Route::ScoringNewPairsThenSuffix => {
            let sc = Scoring::new(go, ge, f).yclip(c[2]).xclip(c[0]).xclip_suffix(c[1]).yclip_suffix(c[3]);
            Aligner::with_scoring(sc).custom(x, y)
        }
        Route::LiteralForeignHint => {
            let sc = Scoring {
                gap_open: go,
                gap_extend: ge,
                match_fn: f,
                match_scores: foreign_hint(sub.kind),
                xclip_prefix: c[0],
                xclip_suffix: c[1],
                yclip_prefix: c[2],
                yclip_suffix: c[3],
            };
            Aligner::with_scoring(sc).custom(x, y)
        }
    })
}

/// a (match, mismatch) pair that is NOT the one `match_fn` of this kind implements
fn foreign_hint(kind: u8) -> Option<(i32, i32)> {
    match kind {
        0 => Some((2, -3)),
        1 => Some((1, -1)),
        2 => Some((5, -4)),
        _ => Some((1, -1)),
    }
}

/// the `Scoring` value a route produces must carry exactly the requested penalties (public fields)
fn scoring_fields_via_route(route: Route, s: &Scheme) -> Result<Option<(i32, i32, [i32; 4])>, String> {
    let sub = s.subst;
    let f = move |a: u8, b: u8| sub.score(a, b);
    let (go, ge) = (s.gap_open, s.gap_extend);
    let c = s.clips();
    guard(move || match route {
        Route::AlignerNew | Route::AlignerWithCapacity | Route::LiteralForeignHint => None,
        Route::ScoringNewFour => {
            let sc = Scoring::new(go, ge, f).xclip_prefix(c[0]).xclip_suffix(c[1]).yclip_prefix(c[2]).yclip_suffix(c[3]);
            Some((sc.gap_open, sc.gap_extend, [sc.xclip_prefix, sc.xclip_suffix, sc.yclip_prefix, sc.yclip_suffix]))
        }
        Route::FromScoresFourReversed => {
            let (m, mm) = mp_of_kind(sub.kind).expect("MatchParams kind");
            let sc = Scoring::from_scores(go, ge, m, mm).yclip_suffix(c[3]).yclip_prefix(c[2]).xclip_suffix(c[1]).xclip_prefix(c[0]);
            Some((sc.gap_open, sc.gap_extend, [sc.xclip_prefix, sc.xclip_suffix, sc.yclip_prefix, sc.yclip_suffix]))
        }
        Route::FromScoresPairs => {
            let (m, mm) = mp_of_kind(sub.kind).expect("MatchParams kind");
            let sc = Scoring::from_scores(go, ge, m, mm).xclip(c[0]).yclip(c[2]);
            Some((sc.gap_open, sc.gap_extend, [sc.xclip_prefix, sc.xclip_suffix, sc.yclip_prefix, sc.yclip_suffix]))
        }
        Route::ScoringNewPairsThenSuffix => {
            let sc = Scoring::new(go, ge, f).yclip(c[2]).xclip(c[0]).xclip_suffix(c[1]).yclip_suffix(c[3]);
            Some((sc.gap_open, sc.gap_extend, [sc.xclip_prefix, sc.xclip_suffix, sc.yclip_prefix, sc.yclip_suffix]))
        }
    })
}

fn route_case(route: Route, scheme: &Scheme, x: &[u8], y: &[u8], opt: i64, cc: &mut CaseCtx) {
    match scoring_fields_via_route(route, scheme) {
        Err(msg) => {
            cc.violation(format!("C01/constructor/{}/panic", route.name()), msg);
            return;
        }
        Ok(Some(got)) => {
            let want = (scheme.gap_open, scheme.gap_extend, scheme.clips());
            if got != want {
                cc.violation(
                    format!("C01/constructor/{}/scoring-fields-differ", route.name()),
                    format!("requested (open, extend, [xp, xs, yp, ys]) = {:?}, built {:?}", want, got),
                );
                return;
            }
        }
        Ok(None) => {}
    }
    match call_via_route(route, scheme, x, y) {
        Err(msg) => cc.violation(format!("C01/constructor/{}/panic", route.name()), msg),
        Ok(al) => {
            // same oracle as everywhere else; a constructor that drops or swaps a penalty shows up
            // as a non-optimal / invalid answer for the requested scheme
            match check_alignment(&al, x, y, scheme, Mode::Custom, opt, true, false, cc) {
                Ok(()) => {}
                Err((symptom, detail)) => cc.violation(format!("C01/constructor/{}/{}", route.name(), symptom), detail),
            }
        }
    }
}

const N_BUILDER_UNITS: usize = 12;

fn builder_gaps(tier: Tier) -> Vec<(i32, i32)> {
    tier.pick(vec![(0, -1), (-1, -1), (-3, 0)], GAP_OPEN.iter().flat_map(|&o| GAP_EXTEND.iter().map(move |&e| (o, e))).collect())
}

/// every construction route x every scheme it can express x every pair over {a,b}^<=3
fn builders_unit(tier: Tier, shard: usize, ctx: &mut Ctx) {
    let strs = gen::strings(b"ab", 0, 3);
    let mut idx = 0usize;
    for kind in 0..4u8 {
        for &(go, ge) in &builder_gaps(tier) {
            for route in ROUTES {
                if route.needs_match_params() && mp_of_kind(kind).is_none() {
                    continue;
                }
                idx += 1;
                if idx % N_BUILDER_UNITS != shard {
                    continue;
                }
                let base = Scheme {
                    subst: Subst { kind, emb: [b'a', b'b', b'c'] },
                    gap_open: go,
                    gap_extend: ge,
                    xclip_prefix: MIN_SCORE,
                    xclip_suffix: MIN_SCORE,
                    yclip_prefix: MIN_SCORE,
                    yclip_suffix: MIN_SCORE,
                };
                for x in &strs {
                    for y in &strs {
                        let table = RangeTable::new(x, y, &base.subst, go, ge);
                        for ci in 0..256 {
                            let clips = clip_quadruple(ci);
                            if !route.expressible(clips) {
                                continue;
                            }
                            let scheme = base.with_clips(clips);
                            let opt = table.optimum(clips);
                            ctx.case(
                                || json!({"kind": "constructor", "route": route, "scheme": scheme, "x": show(x), "y": show(y)}),
                                |cc| route_case(route, &scheme, x, y, opt, cc),
                            );
                        }
                    }
                    if ctx.res.capped {
                        return;
                    }
                }
            }
        }
    }
}


// ------------------------------------------------------------------ sequences beyond the default capacity

/// O(mn) oracle for the documented model: three-state Gotoh in which an alignment may start at
/// any cell (paying the prefix clips of the skipped ends) and stop at any cell (paying the
/// suffix clips).  Equals RangeTable::optimum — asserted on every small pair at unit start.
pub fn linear_optimum(x: &[u8], y: &[u8], s: &Scheme) -> i64 {
    const NEG: i64 = i64::MIN / 4;
    let (m, n) = (x.len(), y.len());
    let (go, ge) = (s.gap_open as i64, s.gap_extend as i64);
    let c = s.clips();
    let forbidden = |p: i32| p <= MIN_SCORE / 2;
    let pen = |p: i32| if forbidden(p) { NEG } else { p as i64 };
    let start = |i: usize, j: usize| -> i64 {
        let a = if i > 0 { pen(c[0]) } else { 0 };
        let b = if j > 0 { pen(c[2]) } else { 0 };
        if a == NEG || b == NEG { NEG } else { a + b }
    };
    let end = |i: usize, j: usize| -> i64 {
        let a = if i < m { pen(c[1]) } else { 0 };
        let b = if j < n { pen(c[3]) } else { 0 };
        if a == NEG || b == NEG { NEG } else { a + b }
    };
    let w = n + 1;
    let mut mm = vec![NEG; (m + 1) * w];
    let mut ii = vec![NEG; (m + 1) * w];
    let mut dd = vec![NEG; (m + 1) * w];
    let mut best = NEG;
    for i in 0..=m {
        for j in 0..=n {
            let k = i * w + j;
            // a fresh start here (state "M" with nothing aligned yet)
            let mut mv = start(i, j);
            if i > 0 && j > 0 {
                let d = (i - 1) * w + j - 1;
                let prev = mm[d].max(ii[d]).max(dd[d]);
                if prev > NEG {
                    mv = mv.max(prev + s.subst.score(x[i - 1], y[j - 1]) as i64);
                }
            }
            mm[k] = mv;
            if i > 0 {
                let up = (i - 1) * w + j;
                let open = mm[up].max(dd[up]);
                let a = if ii[up] > NEG { ii[up] + ge } else { NEG };
                let b = if open > NEG { open + go + ge } else { NEG };
                ii[k] = a.max(b);
            }
            if j > 0 {
                let left = i * w + j - 1;
                let open = mm[left].max(ii[left]);
                let a = if dd[left] > NEG { dd[left] + ge } else { NEG };
                let b = if open > NEG { open + go + ge } else { NEG };
                dd[k] = a.max(b);
            }
            let here = mm[k].max(ii[k]).max(dd[k]);
            let e = end(i, j);
            if here > NEG && e > NEG {
                best = best.max(here + e);
            }
        }
    }
    best
}

/// deterministic sequence of length `n` over {a,b,c}
pub fn lcg_seq(seed: u64, n: usize) -> Vec<u8> {
    let mut x = seed.wrapping_mul(6364136223846793005).wrapping_add(1442695040888963407);
    (0..n)
        .map(|_| {
            x = x.wrapping_mul(6364136223846793005).wrapping_add(1442695040888963407);
            b"abc"[((x >> 33) % 3) as usize]
        })
        .collect()
}

/// y = x with every 17th symbol substituted, every 31st deleted and a block inserted, cut/padded to n
pub fn mutated_copy(x: &[u8], n: usize, seed: u64) -> Vec<u8> {
    let mut y = vec![];
    for (i, &b) in x.iter().enumerate() {
        if i % 31 == 30 {
            continue;
        }
        y.push(if i % 17 == 16 { if b == b'a' { b'b' } else { b'a' } } else { b });
        if i == x.len() / 2 {
            y.extend_from_slice(b"ccacc");
        }
    }
    let pad = lcg_seq(seed ^ 0x9e37, n);
    let mut k = 0;
    while y.len() < n {
        y.push(pad[k]);
        k += 1;
    }
    y.truncate(n);
    y
}

/// (|x|, |y|): around the aligners' default capacity (200) and around 256
pub const LONG_SIZES: [(usize, usize); 10] = [(199, 201), (200, 200), (201, 199), (255, 257), (256, 256), (257, 255), (300, 3), (2, 300), (70_000, 7), (7, 70_000)];
pub const LONG_CLIPS: [[i32; 4]; 5] = [[MIN_SCORE; 4], [0; 4], [MIN_SCORE, MIN_SCORE, 0, 0], [-4, MIN_SCORE, 0, -1], [0, -1, MIN_SCORE, -4]];

fn long_case(si: usize, kind: u8, go: i32, ge: i32, ci: usize, mode: Mode, ctor: usize, cc: &mut CaseCtx) {
    let (m, n) = LONG_SIZES[si];
    let x = lcg_seq(si as u64 + 1, m);
    let y = mutated_copy(&x, n, si as u64 + 77);
    let c = LONG_CLIPS[ci];
    let scheme = Scheme { subst: Subst { kind, emb: [b'a', b'b', b'c'] }, gap_open: go, gap_extend: ge, xclip_prefix: c[0], xclip_suffix: c[1], yclip_prefix: c[2], yclip_suffix: c[3] };
    let eff = match mode.clips() {
        Some(cl) => scheme.with_clips(cl),
        None => scheme,
    };
    let opt = linear_optimum(&x, &y, &eff);
    let got = guard(|| {
        let sc = scoring_of(&scheme);
        let mut a = match ctor {
            0 => Aligner::with_scoring(sc),
            1 => Aligner::with_capacity_and_scoring(0, 0, sc),
            _ => Aligner::with_capacity_and_scoring(m, n, sc),
        };
        // a short call first: the long one must grow every internal buffer of a used object
        let _ = call_mode(&mut a, mode, b"ab", b"ba");
        call_mode(&mut a, mode, &x, &y)
    });
    match got {
        Err(msg) => cc.violation(format!("C01/{}/long-sequences/panic", mode.name()), msg),
        Ok(al) => {
            if let Err((symptom, detail)) = check_alignment(&al, &x, &y, &scheme, mode, opt, true, false, cc) {
                cc.violation(format!("C01/{}/long-sequences/{}", mode.name(), symptom), detail.chars().take(400).collect::<String>());
            }
            cc.set_nontrivial(true);
        }
    }
}

fn long_unit(tier: Tier, shard: usize, ctx: &mut Ctx) {
    // the linear oracle must agree with the sub-range oracle wherever the latter is feasible; a
    // disagreement is a bug of this check (machinery error), never a verdict
    if shard == 0 {
        let strs = gen::strings(b"ab", 0, 3);
        for kind in [0u8, 3] {
            for (go, ge) in [(0, -1), (-3, 0), (-1, -1)] {
                for x in &strs {
                    for y in &strs {
                        let table = RangeTable::new(x, y, &Subst { kind, emb: [b'a', b'b', b'c'] }, go, ge);
                        for ci in 0..256 {
                            let c = clip_quadruple(ci);
                            let s = Scheme { subst: Subst { kind, emb: [b'a', b'b', b'c'] }, gap_open: go, gap_extend: ge, xclip_prefix: c[0], xclip_suffix: c[1], yclip_prefix: c[2], yclip_suffix: c[3] };
                            assert_eq!(linear_optimum(x, y, &s), table.optimum(c), "oracle self-check failed: {:?} {:?} {:?}", show(x), show(y), s);
                        }
                    }
                }
            }
        }
    }
    let mut idx = 0usize;
    for si in 0..LONG_SIZES.len() {
        for kind in tier.pick(vec![0u8, 3], vec![0u8, 1, 3]) {
            for (go, ge) in tier.pick(vec![(-1, -1), (-3, 0)], vec![(0, -1), (-1, -1), (-3, 0), (-3, -2)]) {
                for ci in 0..LONG_CLIPS.len() {
                    for mode in [Mode::Custom, Mode::Global, Mode::Semiglobal, Mode::Local] {
                        if mode != Mode::Custom && ci != 3 {
                            continue; // the standard modes ignore the clips: one setting
                        }
                        idx += 1;
                        if idx % N_LONG_UNITS != shard {
                            continue;
                        }
                        let ctor = idx % 3;
                        ctx.case(
                            || json!({"kind": "long", "size": si, "subst": kind, "gap_open": go, "gap_extend": ge, "clips": ci, "mode": mode, "ctor": ctor}),
                            |cc| long_case(si, kind, go, ge, ci, mode, ctor, cc),
                        );
                    }
                }
            }
        }
    }
}

const N_LONG_UNITS: usize = 4;

// ------------------------------------------------------------------ Prop

const N_HISTORY_CTORS: usize = 3;

impl Prop for C01Prop {
    fn id(&self) -> &'static str {
        "C01"
    }
    fn level(&self) -> &'static str {
        "exploration"
    }
    fn rule(&self) -> &'static str {
        "Complete sweep: every pair (x,y) over the unit's alphabet up to the length bound x every scoring scheme of the grid (substitution function x gap_open x gap_extend x 4^4 clip penalties), custom mode on an aligner object that is reused across the whole sweep of its scheme and compared with a fresh aligner on every call; global/semiglobal/local (+ custom again) on every 37th clip scheme; plus K2 call histories (depth 3/4) of (mode, x, y) on one object; plus every public construction route (Aligner::new/with_capacity, Scoring::new/from_scores + clip setters) x every scheme it can express x every pair over {a,b}^<=3, checked on the built Scoring's public fields and with the same optimum/path oracle; plus sequences around the default capacity (200) and around 256 symbols in every mode against an O(mn) oracle. Each (scheme, mode, x, y[, history]) is enumerated once. Non-trivial: both sequences non-empty and the returned alignment contains a gap or a clipped end (history cases: all)."
    }
    fn assumptions(&self) -> Vec<&'static str> {
        vec![
            "oracle: max over all sub-ranges of a three-state Gotoh DP (i64) + penalties of non-empty clipped ends; penalties <= MIN_SCORE/2 mean 'forbidden'",
            "tolerated: which co-optimal alignment is returned; position of one sequence's clip operation relative to the other sequence's operations",
            "recomputed score is strict: a maximal run of Ins (or Del) costs open + len*extend, clip operations do not interrupt a run",
        ]
    }
    fn bounds(&self, tier: Tier) -> Value {
        json!({
            "sweep_configurations": sweep_cfgs(tier).len(),
            "binary_len": tier.pick("<=4 (<=5 for eight schemes)", "<=6 (<=7 for eight schemes)"),
            "ternary_len": tier.pick("<=2", "<=3"),
            "substitution": "(+1,-1) (+2,-3) (0,-1) asymmetric table",
            "gap_open": GAP_OPEN, "gap_extend": GAP_EXTEND,
            "clip_penalties": "{MIN_SCORE,0,-1,-4}^4 (all 256)",
            "byte_embeddings": ["a,b", "0x00,0xFF", "0x7F,0x80"],
            "constructors": "with_scoring, with_capacity_and_scoring(0,0), with_capacity_and_scoring(m,n); constructor units: Aligner::new, Aligner::with_capacity, Scoring::new / Scoring::from_scores followed by xclip/yclip/xclip_prefix/xclip_suffix/yclip_prefix/yclip_suffix in four orders, a struct literal whose match_scores hint does not describe match_fn, each on every scheme the route can express x every pair over {a,b}^<=3",
            "long_sequences": "(|x|,|y|) in (199,201) (200,200) (201,199) (255,257) (256,256) (257,255) (300,3) (2,300) (70000,7) (7,70000; clipped ends longer than 2^16): pseudo-random x over {a,b,c}, y a mutated copy; 2/3 substitution kinds x 2/4 gap pairs x 5 clip settings (custom) + the three standard modes; the long call follows a short one on the same object; O(mn) oracle validated against the sub-range oracle on every pair over {a,b}^<=3 x 256 clip settings",
            "history_depth": tier.pick(3, 4), "history_alphabet": "4 modes x 52 input pairs (3 long + all of {a,b}^<=2 squared), 8 schemes x 3 constructors; BFS stops early when no new object state appears",
        })
    }
    fn units(&self, tier: Tier) -> Vec<String> {
        let mut v: Vec<String> = sweep_cfgs(tier)
            .iter()
            .enumerate()
            .map(|(i, c)| format!("sweep-{}-{}^{}-k{}-o{}-e{}", i, c.alpha, c.maxlen, c.subst_kind, c.gap_open, c.gap_extend))
            .collect();
        for s in 0..history_schemes().len() {
            for c in 0..N_HISTORY_CTORS {
                v.push(format!("history-s{}-c{}", s, c));
            }
        }
        for i in 0..N_BUILDER_UNITS {
            v.push(format!("constructors-{}", i));
        }
        for i in 0..N_LONG_UNITS {
            v.push(format!("long-sequences-{}", i));
        }
        v
    }
    fn run_unit(&self, tier: Tier, unit: usize, ctx: &mut Ctx) {
        let cfgs = sweep_cfgs(tier);
        if unit < cfgs.len() {
            sweep(&cfgs[unit], unit, ctx, None);
        } else if unit < cfgs.len() + history_schemes().len() * N_HISTORY_CTORS {
            let h = unit - cfgs.len();
            history_unit(h / N_HISTORY_CTORS, h % N_HISTORY_CTORS, tier, ctx);
        } else if unit < cfgs.len() + history_schemes().len() * N_HISTORY_CTORS + N_BUILDER_UNITS {
            builders_unit(tier, unit - cfgs.len() - history_schemes().len() * N_HISTORY_CTORS, ctx);
        } else {
            long_unit(tier, unit - cfgs.len() - history_schemes().len() * N_HISTORY_CTORS - N_BUILDER_UNITS, ctx);
        }
    }
    fn replay(&self, case: &Value, ctx: &mut Ctx) {
        match case["kind"].as_str().unwrap_or("") {
            "call" => {
                let scheme: Scheme = serde_json::from_value(case["scheme"].clone()).unwrap();
                let mode: Mode = serde_json::from_value(case["mode"].clone()).unwrap();
                let (x, y) = (unshow(case["x"].as_str().unwrap()), unshow(case["y"].as_str().unwrap()));
                ctx.case(|| case.clone(), |cc| single_call(&scheme, mode, &x, &y, cc));
            }
            "custom-after-modes" => {
                let scheme: Scheme = serde_json::from_value(case["scheme"].clone()).unwrap();
                let (x, y) = (unshow(case["x"].as_str().unwrap()), unshow(case["y"].as_str().unwrap()));
                ctx.case(
                    || case.clone(),
                    |cc| {
                        let mut a = Aligner::with_scoring(scoring_of(&scheme));
                        let first = guard(|| a.custom(&x, &y));
                        let _ = guard(|| a.global(&x, &y));
                        let _ = guard(|| a.semiglobal(&x, &y));
                        let _ = guard(|| a.local(&x, &y));
                        let again = guard(|| a.custom(&x, &y));
                        if first.as_ref().ok() != again.as_ref().ok() {
                            cc.violation("C01/reuse/clips-not-restored-after-standard-mode", format!("{:?} vs {:?}", first.map(|a| ops_string(&a)), again.map(|a| ops_string(&a))));
                        }
                    },
                );
            }
            "sweep-history" => {
                let cfg: SweepCfg = serde_json::from_value(case["cfg"].clone()).unwrap();
                let cfg_idx = case["cfg_idx"].as_u64().unwrap() as usize;
                let limit = case["pair_limit"].as_u64().unwrap() as usize;
                let ci = case["clip_idx"].as_u64().unwrap() as usize;
                sweep(&cfg, cfg_idx, ctx, Some((limit, ci)));
            }
            "long" => {
                let u = |k: &str| case[k].as_u64().unwrap_or(0) as usize;
                let i = |k: &str| case[k].as_i64().unwrap_or(0) as i32;
                let mode: Mode = serde_json::from_value(case["mode"].clone()).unwrap();
                let (si, ci) = (u("size").min(LONG_SIZES.len() - 1), u("clips").min(LONG_CLIPS.len() - 1));
                ctx.case(|| case.clone(), |cc| long_case(si, u("subst") as u8, i("gap_open"), i("gap_extend"), ci, mode, u("ctor"), cc));
            }
            "constructor" => {
                let scheme: Scheme = serde_json::from_value(case["scheme"].clone()).unwrap();
                let route: Route = serde_json::from_value(case["route"].clone()).unwrap();
                let (x, y) = (unshow(case["x"].as_str().unwrap()), unshow(case["y"].as_str().unwrap()));
                let opt = RangeTable::new(&x, &y, &scheme.subst, scheme.gap_open, scheme.gap_extend).optimum(scheme.clips());
                ctx.case(|| case.clone(), |cc| route_case(route, &scheme, &x, &y, opt, cc));
            }
            "history" => {
                let sidx = case["init"]["c01_history_scheme"].as_u64().unwrap() as usize;
                let ctor = case["init"]["ctor"].as_u64().unwrap() as usize;
                let ops: Vec<Call> = serde_json::from_value(case["ops"].clone()).unwrap();
                ctx.case(
                    || case.clone(),
                    |cc| {
                        let mut st = mp_aligner(&history_schemes()[sidx], ctor);
                        for op in &ops {
                            match history_step(&st, op, sidx, cc) {
                                Some(n) => st = n,
                                None => break,
                            }
                        }
                    },
                );
            }
            _ => {}
        }
    }
}
