//! C20 — ORF finder, DNA/RNA complement, alphabets, rank transform and GC content follow their
//! definitions.  K1 sweeps; the complement clause is a *complete* sweep over all 256 byte values.

use super::Prop;
use crate::ctx::{guard, show, unshow, CaseCtx, Ctx, Tier};
use crate::gen;
use bio::alphabets::{self, dna, protein, rna, Alphabet, RankTransform};
use bio::seq_analysis::gc::{gc3_content, gc_content};
use bio::seq_analysis::orf::{Finder, Orf};
use serde_json::{json, Value};

pub struct C20Prop;
pub static C20: C20Prop = C20Prop;

type Codon = [u8; 3];

// ---------------------------------------------------------------------------------------- ORF

/// (name, sequence alphabet, start codons, stop codons); start and stop sets are disjoint (a
/// codon that is both has no defined "first stop after it").
struct OrfConfig {
    name: &'static str,
    alpha: &'static [u8],
    starts: &'static [Codon],
    stops: &'static [Codon],
    /// maximal sequence length (quick, thorough)
    max_len: (usize, usize),
}

const STD_STOPS: &[Codon] = &[*b"TGA", *b"TAG", *b"TAA"];

const ORF_CONFIGS: &[OrfConfig] = &[
    OrfConfig { name: "ATG|TGA,TAG,TAA", alpha: b"ATG", starts: &[*b"ATG"], stops: STD_STOPS, max_len: (13, 16) },
    OrfConfig { name: "ATG,GTG|TGA,TAG,TAA", alpha: b"ATG", starts: &[*b"ATG", *b"GTG"], stops: STD_STOPS, max_len: (13, 16) },
    OrfConfig { name: "ATG|TAA", alpha: b"ATG", starts: &[*b"ATG"], stops: &[*b"TAA"], max_len: (12, 15) },
    OrfConfig { name: "ATG,TTG,GTG|TAG", alpha: b"ATG", starts: &[*b"ATG", *b"TTG", *b"GTG"], stops: &[*b"TAG"], max_len: (12, 15) },
    OrfConfig { name: "acgt:ATG|TGA,TAG,TAA", alpha: b"ACGT", starts: &[*b"ATG"], stops: STD_STOPS, max_len: (9, 12) },
    OrfConfig { name: "acgt:ATG,CTG|TGA,TAG,TAA", alpha: b"ACGT", starts: &[*b"ATG", *b"CTG"], stops: STD_STOPS, max_len: (9, 12) },
    // arbitrary bytes: the image of config 0 under A->0x00, T->0xFF, G->0x80
    OrfConfig {
        name: "bytes:00FF80|FF8000,FF0080,FF0000",
        alpha: &[0x00, 0xFF, 0x80],
        starts: &[[0x00, 0xFF, 0x80]],
        stops: &[[0xFF, 0x80, 0x00], [0xFF, 0x00, 0x80], [0xFF, 0x00, 0x00]],
        max_len: (11, 13),
    },
    // degenerate configurations: nothing may ever be reported
    OrfConfig { name: "no-start|TGA,TAG,TAA", alpha: b"ATG", starts: &[], stops: STD_STOPS, max_len: (8, 10) },
    OrfConfig { name: "ATG|no-stop", alpha: b"ATG", starts: &[*b"ATG"], stops: &[], max_len: (8, 10) },
];

fn orf_min_lens(tier: Tier) -> &'static [usize] {
    // the huge values: no frame can be that long, nothing may be reported, and the length test
    // must not overflow
    tier.pick(&[0, 3, 4, 6, 7, 10, usize::MAX - 3, usize::MAX], &[0, 1, 2, 3, 4, 5, 6, 7, 9, 10, 12, 13, usize::MAX / 2 + 1, usize::MAX - 3, usize::MAX - 1, usize::MAX])
}

/// every start codon position with the end (exclusive) of the first in-frame stop codon after it
fn orf_candidates(seq: &[u8], starts: &[Codon], stops: &[Codon]) -> Vec<(usize, usize)> {
    let n = seq.len();
    let mut out = vec![];
    for s in 0..n.saturating_sub(2) {
        if !starts.iter().any(|c| c[..] == seq[s..s + 3]) {
            continue;
        }
        let mut e = s + 3;
        while e + 3 <= n {
            if stops.iter().any(|c| c[..] == seq[e..e + 3]) {
                out.push((s, e + 3));
                break;
            }
            e += 3;
        }
    }
    out
}

fn check_orf(seq: &[u8], starts: &[Codon], stops: &[Codon], min_len: usize, cc: &mut CaseCtx) {
    let cands = orf_candidates(seq, starts, stops);
    // definition of the statement: a frame more than two bases longer than the minimum must be
    // reported exactly once; a reported frame must be at least min_len long (frames with
    // min_len <= length <= min_len + 2 may or may not be reported)
    let required: Vec<(usize, usize)> = cands.iter().cloned().filter(|&(s, e)| e - s > min_len.saturating_add(2)).collect();
    let shared_stop = required.iter().enumerate().any(|(i, a)| required[..i].iter().any(|b| b.1 == a.1));
    let two_frames = required.iter().any(|a| a.0 % 3 != required[0].0 % 3);
    cc.set_nontrivial(shared_stop || two_frames);
    let r = guard(|| {
        let sv: Vec<&Codon> = starts.iter().collect();
        let tv: Vec<&Codon> = stops.iter().collect();
        let finder = Finder::new(sv, tv, min_len);
        finder.find_all(seq).collect::<Vec<Orf>>()
    });
    let got = match r {
        Ok(g) => g,
        Err(msg) => {
            cc.violation("C20/orf/panic", msg);
            return;
        }
    };
    let mut obs: Vec<(usize, usize, i8)> = got.iter().map(|o| (o.start, o.end, o.offset)).collect();
    obs.sort();
    cc.outcome(&obs);
    let n = seq.len();
    for o in &got {
        let (s, e) = (o.start, o.end);
        if !(s <= e && e <= n) {
            cc.violation("C20/orf/out-of-range", format!("reported {:?} on a sequence of length {}", o, n));
            continue;
        }
        let len = e - s;
        if len % 3 != 0 || len < 6 {
            cc.violation("C20/orf/length-invalid", format!("reported {:?}: length {}", o, len));
            continue;
        }
        if !starts.iter().any(|c| c[..] == seq[s..s + 3]) {
            cc.violation("C20/orf/not-at-start-codon", format!("reported {:?}: begins with {:?}", o, show(&seq[s..s + 3])));
            continue;
        }
        if !stops.iter().any(|c| c[..] == seq[e - 3..e]) {
            cc.violation("C20/orf/not-ending-in-stop-codon", format!("reported {:?}: ends with {:?}", o, show(&seq[e - 3..e])));
            continue;
        }
        if let Some(p) = (s + 3..e - 3).step_by(3).find(|&p| stops.iter().any(|c| c[..] == seq[p..p + 3])) {
            cc.violation("C20/orf/contains-earlier-stop", format!("reported {:?}: in-frame stop codon at {}", o, p));
            continue;
        }
        if len < min_len {
            cc.violation("C20/orf/shorter-than-min-len", format!("reported {:?}: length {} < min_len {}", o, len, min_len));
        }
        if o.offset as i64 != (s % 3) as i64 {
            cc.violation("C20/orf/wrong-frame-offset", format!("reported {:?}: start mod 3 = {}", o, s % 3));
        }
    }
    for &(s, e) in &required {
        let cnt = got.iter().filter(|o| o.start == s && o.end == e).count();
        if cnt == 0 {
            cc.violation(
                "C20/orf/missing",
                format!("frame {}..{} (length {}, min_len {}) not reported; got {:?}", s, e, e - s, min_len, got),
            );
        } else if cnt > 1 {
            cc.violation("C20/orf/reported-twice", format!("frame {}..{} reported {} times", s, e, cnt));
        }
    }
}

fn orf_unit(tier: Tier, shard: usize, nshards: usize, ctx: &mut Ctx) {
    for cfg in ORF_CONFIGS {
        let max_len = tier.pick(cfg.max_len.0, cfg.max_len.1);
        let a = cfg.alpha.len() as u64;
        for len in 0..=max_len {
            let total = a.pow(len as u32);
            let mut idx = shard as u64;
            while idx < total {
                let seq = gen::nth_string(cfg.alpha, len, idx);
                for &min_len in orf_min_lens(tier) {
                    ctx.case(
                        || {
                            json!({"kind": "orf", "seq": show(&seq), "min_len": min_len,
                               "starts": cfg.starts.iter().map(|c| show(c)).collect::<Vec<_>>(),
                               "stops": cfg.stops.iter().map(|c| show(c)).collect::<Vec<_>>()})
                        },
                        |cc| check_orf(&seq, cfg.starts, cfg.stops, min_len, cc),
                    );
                }
                idx += nshards as u64;
            }
            if ctx.res.capped {
                return;
            }
        }
    }
}

/// Codon-token family: sequences built from the prefix code {ATG, TGA, TAG, TAA, GGG, C} (start
/// codon, the three stop codons, a neutral codon, a one-base frame shift).  The code is a prefix
/// code, so different token sequences give different byte strings; strings already covered by
/// the complete sweeps (configurations 0 and 4) are skipped.  This family is dense in nested
/// starts, shared stops and ORFs in several frames, which the complete sweep reaches only rarely.
const TOKENS: [&[u8]; 6] = [b"ATG", b"TGA", b"TAG", b"TAA", b"GGG", b"C"];
fn token_max(tier: Tier) -> usize {
    tier.pick(7, 9)
}

fn orf_token_family(tier: Tier, shard: usize, nshards: usize, ctx: &mut Ctx) {
    let cfg = &ORF_CONFIGS[0];
    let atg_max = tier.pick(ORF_CONFIGS[0].max_len.0, ORF_CONFIGS[0].max_len.1);
    let acgt_max = tier.pick(ORF_CONFIGS[4].max_len.0, ORF_CONFIGS[4].max_len.1);
    let mut seq: Vec<u8> = Vec::with_capacity(32);
    for ntok in 1..=token_max(tier) {
        let total = (TOKENS.len() as u64).pow(ntok as u32);
        let mut idx = shard as u64;
        while idx < total {
            seq.clear();
            let mut x = idx;
            let mut has_c = false;
            for _ in 0..ntok {
                let t = (x % TOKENS.len() as u64) as usize;
                x /= TOKENS.len() as u64;
                has_c |= t == 5;
                seq.extend_from_slice(TOKENS[t]);
            }
            idx += nshards as u64;
            if seq.len() <= acgt_max || (!has_c && seq.len() <= atg_max) {
                continue; // already a case of the complete sweeps
            }
            for &min_len in orf_min_lens(tier) {
                ctx.case(
                    || {
                        json!({"kind": "orf", "seq": show(&seq), "min_len": min_len,
                           "starts": cfg.starts.iter().map(|c| show(c)).collect::<Vec<_>>(),
                           "stops": cfg.stops.iter().map(|c| show(c)).collect::<Vec<_>>()})
                    },
                    |cc| check_orf(&seq, cfg.starts, cfg.stops, min_len, cc),
                );
            }
        }
        if ctx.res.capped {
            return;
        }
    }
}

// --------------------------------------------------------------------------------- complement

/// IUPAC complement pairs (upper case); `t` is b'T' for DNA and b'U' for RNA.  Every byte that
/// is not one of these letters (in either case) is a non-nucleotide byte and maps to itself.
fn iupac_complement(b: u8, t: u8) -> u8 {
    let pairs: [(u8, u8); 9] = [
        (b'A', t),
        (b'C', b'G'),
        (b'R', b'Y'),
        (b'S', b'S'),
        (b'W', b'W'),
        (b'K', b'M'),
        (b'B', b'V'),
        (b'D', b'H'),
        (b'N', b'N'),
    ];
    let up = b.to_ascii_uppercase();
    let lower = b.is_ascii_lowercase();
    for &(x, y) in &pairs {
        let img = if up == x {
            Some(y)
        } else if up == y {
            Some(x)
        } else {
            None
        };
        if let Some(i) = img {
            return if lower { i.to_ascii_lowercase() } else { i };
        }
    }
    b
}

fn is_nucleotide(b: u8, t: u8) -> bool {
    b.is_ascii_alphabetic() && (b"ACGRYSWKMBDHVN".contains(&b.to_ascii_uppercase()) || b.to_ascii_uppercase() == t)
}

fn lib_complement(which: &str, b: u8) -> u8 {
    if which == "dna" {
        dna::complement(b)
    } else {
        rna::complement(b)
    }
}

fn check_complement(which: &'static str, b: u8, cc: &mut CaseCtx) {
    let t = if which == "dna" { b'T' } else { b'U' };
    cc.set_nontrivial(is_nucleotide(b, t));
    let r = guard(|| {
        let c = lib_complement(which, b);
        (c, lib_complement(which, c))
    });
    let (c, cc2) = match r {
        Ok(x) => x,
        Err(msg) => {
            cc.violation(format!("C20/{}-complement/panic", which), msg);
            return;
        }
    };
    cc.outcome(&(c, is_nucleotide(b, t)));
    if cc2 != b {
        cc.violation(
            format!("C20/{}-complement/not-an-involution", which),
            format!("complement(0x{:02x}) = 0x{:02x}, complement(0x{:02x}) = 0x{:02x}", b, c, c, cc2),
        );
    }
    if !is_nucleotide(b, t) {
        if c != b {
            cc.violation(
                format!("C20/{}-complement/non-nucleotide-changed", which),
                format!("complement(0x{:02x}) = 0x{:02x}", b, c),
            );
        }
        return;
    }
    if c.is_ascii_lowercase() != b.is_ascii_lowercase() || c.is_ascii_uppercase() != b.is_ascii_uppercase() {
        cc.violation(
            format!("C20/{}-complement/case-not-preserved", which),
            format!("complement('{}') = '{}' (0x{:02x})", b as char, show(&[c]), c),
        );
    }
    let want = iupac_complement(b, t);
    if c != want {
        cc.violation(
            format!("C20/{}-complement/not-the-iupac-complement", which),
            format!("complement('{}') = '{}', IUPAC complement is '{}'", b as char, show(&[c]), want as char),
        );
    }
}

fn revcomp_bytes(tier: Tier) -> &'static [u8] {
    tier.pick(
        &[b'A', b'c', b'K', b'm', b'N', b'T', b'u', 0x00, 0xFF, b'-'],
        &[b'A', b'c', b'K', b'm', b'N', b'T', b'u', 0x00, 0xFF, b'-', b'y', b'G'],
    )
}
fn revcomp_max(tier: Tier) -> usize {
    tier.pick(4, 5)
}

fn check_revcomp(which: &'static str, s: &[u8], cc: &mut CaseCtx) {
    let t = if which == "dna" { b'T' } else { b'U' };
    cc.set_nontrivial(s.len() >= 2 && s.iter().any(|&b| is_nucleotide(b, t) && iupac_complement(b, t) != b));
    let r = guard(|| {
        if which == "dna" {
            let a = dna::revcomp(s);
            let b = dna::revcomp(&a);
            (a, b)
        } else {
            let a = rna::revcomp(s);
            let b = rna::revcomp(&a);
            (a, b)
        }
    });
    let (once, twice) = match r {
        Ok(x) => x,
        Err(msg) => {
            cc.violation(format!("C20/{}-revcomp/panic", which), msg);
            return;
        }
    };
    cc.outcome(&once);
    if twice != s {
        cc.violation(
            format!("C20/{}-revcomp/twice-is-not-identity", which),
            format!("revcomp = {:?}, revcomp twice = {:?}", show(&once), show(&twice)),
        );
    }
    let want: Vec<u8> = s.iter().rev().map(|&b| iupac_complement(b, t)).collect();
    if once != want {
        cc.violation(
            format!("C20/{}-revcomp/not-reversed-complement", which),
            format!("revcomp = {:?}, expected {:?}", show(&once), show(&want)),
        );
    }
    // the argument is "anything that iterates over bytes, double-ended": the same answer is due
    // for iterators whose size_hint is not exact (filter, flat_map, chain) and for by-value items
    let routes = guard(|| {
        let keep_all = |_: &&u8| true;
        if which == "dna" {
            vec![
                ("filter", dna::revcomp(s.iter().filter(keep_all))),
                ("flat_map", dna::revcomp(s.chunks(2).flat_map(|c| c.iter()))),
                ("chain", dna::revcomp(s[..s.len() / 2].iter().chain(s[s.len() / 2..].iter()))),
                ("by-value", dna::revcomp(s.to_vec())),
                ("cloned-filter", dna::revcomp(s.iter().cloned().filter(|_| true))),
            ]
        } else {
            vec![
                ("filter", rna::revcomp(s.iter().filter(keep_all))),
                ("flat_map", rna::revcomp(s.chunks(2).flat_map(|c| c.iter()))),
                ("chain", rna::revcomp(s[..s.len() / 2].iter().chain(s[s.len() / 2..].iter()))),
                ("by-value", rna::revcomp(s.to_vec())),
                ("cloned-filter", rna::revcomp(s.iter().cloned().filter(|_| true))),
            ]
        }
    });
    match routes {
        Err(msg) => cc.violation(format!("C20/{}-revcomp/iterator-argument/panic", which), msg),
        Ok(v) => {
            for (route, got) in v {
                if got != want {
                    cc.violation(
                        format!("C20/{}-revcomp/iterator-argument/differs-from-slice", which),
                        format!("revcomp over a {} iterator = {:?}, over the slice {:?}", route, show(&got), show(&want)),
                    );
                }
            }
        }
    }
}

fn complement_unit(tier: Tier, ctx: &mut Ctx) {
    for which in ["dna", "rna"] {
        for b in 0..=255u8 {
            ctx.case(
                || json!({"kind": "complement", "alphabet": which, "byte": b}),
                |cc| check_complement(which, b, cc),
            );
        }
    }
    for which in ["dna", "rna"] {
        for s in gen::strings(revcomp_bytes(tier), 0, revcomp_max(tier)) {
            ctx.case(
                || json!({"kind": "revcomp", "alphabet": which, "seq": show(&s)}),
                |cc| check_revcomp(which, &s, cc),
            );
        }
    }
}

// ---------------------------------------------------------------- alphabets and rank transform

fn alpha_universe(tier: Tier) -> &'static [u8] {
    tier.pick(&[0x00, b'A', b'a', 0x7F, 0x80, 0xFE, 0xFF], &[0x00, 0x01, b'A', b'a', 0x7F, 0x80, 0xFE, 0xFF])
}
fn alpha_text_max(tier: Tier) -> usize {
    tier.pick(5, 5)
}

/// one case = (alphabet given by an explicit symbol list, text): is_word, and transform when the
/// text is a word
fn check_is_word(symbols: &[u8], text: &[u8], cc: &mut CaseCtx) {
    let mut sorted = symbols.to_vec();
    sorted.sort();
    sorted.dedup();
    let want = text.iter().all(|c| sorted.contains(c));
    let members = text.iter().filter(|c| sorted.contains(c)).count();
    cc.set_nontrivial(!text.is_empty() && members > 0 && (members < text.len() || sorted.len() >= 2));
    let r = guard(|| {
        let a = Alphabet::new(symbols);
        let w = a.is_word(text);
        let tr = if want { Some(RankTransform::new(&a).transform(text)) } else { None };
        (w, tr)
    });
    let (w, tr) = match r {
        Ok(x) => x,
        Err(msg) => {
            cc.violation("C20/alphabet/panic", msg);
            return;
        }
    };
    cc.outcome(&(w, &tr));
    if w != want {
        cc.violation(
            "C20/alphabet/is_word-wrong",
            format!("is_word = {}, but {} of {} symbols are members", w, members, text.len()),
        );
    }
    if let Some(tr) = tr {
        let exp: Vec<u8> = text.iter().map(|c| sorted.iter().position(|s| s == c).unwrap() as u8).collect();
        if tr != exp {
            cc.violation("C20/rank-transform/transform-differs", format!("transform = {:?}, expected {:?}", tr, exp));
        }
    }
}

/// one case = one alphabet (explicit symbol list, possibly unordered / with repeats): len,
/// is_empty, max_symbol, membership of each of the 256 single-byte texts, insert()-built twin,
/// rank transform = order-preserving bijection onto 0..|A|
fn check_alphabet(symbols: &[u8], cc: &mut CaseCtx) {
    let mut sorted = symbols.to_vec();
    sorted.sort();
    sorted.dedup();
    cc.set_nontrivial(sorted.len() >= 2);
    let r = guard(|| {
        let a = Alphabet::new(symbols);
        let mut b = Alphabet::new(&b""[..]);
        for &s in symbols.iter().rev() {
            b.insert(s);
        }
        let single: Vec<bool> = (0..=255u8).map(|c| a.is_word(&[c])).collect();
        let rt = RankTransform::new(&a);
        let ranks: Vec<u8> = sorted.iter().map(|&s| rt.get(s)).collect();
        let n_ranks = rt.ranks.len();
        // the alphabet restored from the transform: equal to the original, same members
        let back = rt.alphabet();
        let back_ok = back == a && back.len() == a.len() && (0..=255u8).all(|c| back.is_word(&[c]) == a.is_word(&[c]));
        let back_syms: Vec<usize> = back.symbols.iter().collect();
        // transform() of the text "every symbol, ascending, then descending" (get() per symbol and
        // transform() of a text are separate code paths)
        let mut text = sorted.clone();
        text.extend(sorted.iter().rev());
        let tr = rt.transform(&text);
        (a.len(), a.is_empty(), a.max_symbol(), single, a == b, ranks, n_ranks, back_ok, back_syms, tr)
    });
    let (len, empty, max, single, same, ranks, n_ranks, back_ok, back_syms, tr) = match r {
        Ok(x) => x,
        Err(msg) => {
            cc.violation("C20/alphabet/panic", msg);
            return;
        }
    };
    cc.outcome(&(len, max, &ranks));
    if len != sorted.len() || empty != sorted.is_empty() {
        cc.violation("C20/alphabet/len-wrong", format!("len = {}, is_empty = {}, {} distinct symbols", len, empty, sorted.len()));
    }
    if max != sorted.last().cloned() {
        cc.violation("C20/alphabet/max_symbol-wrong", format!("max_symbol = {:?}, expected {:?}", max, sorted.last()));
    }
    if let Some(c) = (0..=255u8).find(|&c| single[c as usize] != sorted.contains(&c)) {
        cc.violation("C20/alphabet/is_word-wrong", format!("is_word([0x{:02x}]) = {}", c, single[c as usize]));
    }
    if !same {
        cc.violation("C20/alphabet/insert-differs-from-new", "alphabet built by insert() is not equal to the one built by new()");
    }
    if !back_ok || back_syms != sorted.iter().map(|&c| c as usize).collect::<Vec<_>>() {
        cc.violation(
            "C20/rank-transform/alphabet-differs-from-original",
            format!("RankTransform::new(&a).alphabet() has the symbols {:?}, a was built from {:?}", back_syms, sorted),
        );
    }
    let exp: Vec<u8> = (0..sorted.len()).map(|i| i as u8).collect();
    let mut exp_tr = exp.clone();
    exp_tr.extend(exp.iter().rev());
    if tr != exp_tr {
        cc.violation("C20/rank-transform/transform-differs", format!("transform of all symbols ascending+descending = {:?}, expected {:?}", tr, exp_tr));
    }
    if ranks != exp || n_ranks != sorted.len() {
        cc.violation(
            "C20/rank-transform/not-an-order-preserving-bijection",
            format!("ranks of the ascending symbols = {:?} ({} entries in the map), expected 0..{}", ranks, n_ranks, sorted.len()),
        );
    }
}

fn wide_alphabets() -> Vec<Vec<u8>> {
    vec![
        (0..=255u8).collect(),
        (0..=255u8).rev().collect(),
        (128..=255u8).collect(),
        (0..=255u8).filter(|b| b % 2 == 0).collect(),
        (0..=255u8).filter(|b| b % 2 == 1).collect(),
        b"ACGTacgt".to_vec(),
        b"tgcaTGCA".to_vec(),
        b"ACGTNacgtn".to_vec(),
        b"ACGTRYSWKMBDHVNZacgtryswkmbdhvnz".to_vec(),
        b"ARNDCEQGHILKMFPSTWYVarndceqghilkmfpstwyv".to_vec(),
        b"AACCGGTT".to_vec(),
        vec![0xFF, 0x00],
    ]
}

fn alphabet_unit(tier: Tier, shard: usize, nshards: usize, ctx: &mut Ctx) {
    let uni = alpha_universe(tier);
    let texts = gen::strings(uni, 0, alpha_text_max(tier));
    for mask in 0u32..(1u32 << uni.len()) {
        if mask as usize % nshards != shard {
            continue;
        }
        let symbols: Vec<u8> = (0..uni.len()).filter(|i| (mask >> i) & 1 == 1).map(|i| uni[i]).collect();
        ctx.case(
            || json!({"kind": "alphabet", "symbols": show(&symbols)}),
            |cc| check_alphabet(&symbols, cc),
        );
        for t in &texts {
            ctx.case(
                || json!({"kind": "is_word", "symbols": show(&symbols), "text": show(t)}),
                |cc| check_is_word(&symbols, t, cc),
            );
        }
        if ctx.res.capped {
            return;
        }
    }
    if shard == 0 {
        for symbols in wide_alphabets() {
            ctx.case(
                || json!({"kind": "alphabet", "symbols": show(&symbols)}),
                |cc| check_alphabet(&symbols, cc),
            );
        }
    }
}

// ------------------------------------------------------------------------------ set operations

/// 256-bit set model
type Set256 = [bool; 256];

fn set_of(symbols: &[u8]) -> Set256 {
    let mut s = [false; 256];
    for &c in symbols {
        s[c as usize] = true;
    }
    s
}

fn members(s: &Set256) -> Vec<u8> {
    (0..=255u8).filter(|&c| s[c as usize]).collect()
}

/// what is observed of an alphabet returned by a set operation
struct AlphaObs {
    single: Vec<bool>,
    symbols: Vec<usize>,
    len: usize,
    empty: bool,
    max: Option<u8>,
    eq_new: bool,
    text_ok: bool,
}

/// one case = an ordered pair (A, B) of alphabets given by symbol lists: A.intersection(B),
/// A.difference(B), A.union(B) against the 256-bit set model (the pair (B, A) is another case)
fn check_setops(a_syms: &[u8], b_syms: &[u8], cc: &mut CaseCtx) {
    let (sa, sb) = (set_of(a_syms), set_of(b_syms));
    let both = (0..256).filter(|&i| sa[i] && sb[i]).count();
    let only_a = (0..256).filter(|&i| sa[i] && !sb[i]).count();
    let only_b = (0..256).filter(|&i| !sa[i] && sb[i]).count();
    // the three results are pairwise different sets and none of them is an operand
    cc.set_nontrivial(both > 0 && only_a > 0 && only_b > 0);
    let mut hash = vec![];
    for op in ["intersection", "difference", "union"] {
        let mut want = [false; 256];
        for i in 0..256 {
            want[i] = match op {
                "intersection" => sa[i] && sb[i],
                "difference" => sa[i] && !sb[i],
                _ => sa[i] || sb[i],
            };
        }
        let wm = members(&want);
        // a text made of all members is a word; with any non-member appended it is not
        let r = guard(|| {
            let a = Alphabet::new(a_syms);
            let b = Alphabet::new(b_syms);
            let (a0, b0) = (a.clone(), b.clone());
            let res = match op {
                "intersection" => a.intersection(&b),
                "difference" => a.difference(&b),
                _ => a.union(&b),
            };
            let operands_kept = a == a0 && b == b0;
            let mut text_ok = res.is_word(&wm);
            if let Some(x) = (0..=255u8).find(|&c| !want[c as usize]) {
                let mut t = wm.clone();
                t.push(x);
                text_ok &= !res.is_word(&t);
            }
            (
                AlphaObs {
                    single: (0..=255u8).map(|c| res.is_word(&[c])).collect(),
                    symbols: res.symbols.iter().collect(),
                    len: res.len(),
                    empty: res.is_empty(),
                    max: res.max_symbol(),
                    eq_new: res == Alphabet::new(&wm) && Alphabet::new(&wm) == res,
                    text_ok,
                },
                operands_kept,
            )
        });
        let (o, operands_kept) = match r {
            Ok(x) => x,
            Err(msg) => {
                cc.violation(format!("C20/alphabet/{}/panic", op), msg);
                continue;
            }
        };
        hash.push((o.len, o.max));
        let got_members: Vec<u8> = (0..=255u8).filter(|&c| o.single[c as usize]).collect();
        if got_members != wm || !o.text_ok {
            cc.violation(
                format!("C20/alphabet/{}/wrong-members", op),
                format!("is_word accepts the symbols {:?}, the {} of the two sets is {:?}", show(&got_members), op, show(&wm)),
            );
        }
        if o.symbols != wm.iter().map(|&c| c as usize).collect::<Vec<_>>() {
            cc.violation(
                format!("C20/alphabet/{}/wrong-symbols", op),
                format!("symbols = {:?}, the {} of the two sets is {:?}", o.symbols, op, wm),
            );
        }
        if o.len != wm.len() || o.empty != wm.is_empty() {
            cc.violation(
                format!("C20/alphabet/{}/len-wrong", op),
                format!("len = {}, is_empty = {}, the {} has {} symbols", o.len, o.empty, op, wm.len()),
            );
        }
        if o.max != wm.last().cloned() {
            cc.violation(
                format!("C20/alphabet/{}/max_symbol-wrong", op),
                format!("max_symbol = {:?}, expected {:?}", o.max, wm.last()),
            );
        }
        if !o.eq_new {
            cc.violation(
                format!("C20/alphabet/{}/not-equal-to-new", op),
                format!("the result is not equal to Alphabet::new({:?})", show(&wm)),
            );
        }
        if !operands_kept {
            cc.violation(format!("C20/alphabet/{}/operand-changed", op), "an operand compares different after the call");
        }
    }
    cc.outcome(&hash);
}

fn setops_unit(tier: Tier, shard: usize, nshards: usize, ctx: &mut Ctx) {
    let uni = alpha_universe(tier);
    let subset = |mask: u32| -> Vec<u8> { (0..uni.len()).filter(|i| (mask >> i) & 1 == 1).map(|i| uni[i]).collect() };
    for ma in 0u32..(1u32 << uni.len()) {
        if ma as usize % nshards != shard {
            continue;
        }
        let a = subset(ma);
        for mb in 0u32..(1u32 << uni.len()) {
            let b = subset(mb);
            ctx.case(
                || json!({"kind": "setops", "a": show(&a), "b": show(&b)}),
                |cc| check_setops(&a, &b, cc),
            );
        }
        if ctx.res.capped {
            return;
        }
    }
    // every ordered pair of the wide alphabets (symbol lists, so the two orders of all 256 bytes
    // and the list with repeats are different descriptions of the operands)
    let wide = wide_alphabets();
    for (i, a) in wide.iter().enumerate() {
        if i % nshards != shard {
            continue;
        }
        for b in &wide {
            ctx.case(
                || json!({"kind": "setops", "a": show(a), "b": show(b)}),
                |cc| check_setops(a, b, cc),
            );
        }
    }
}

// ------------------------------------------------------------------------- predefined alphabets

/// (name, constructor, required symbols in upper case (both cases are required), symbols whose
/// membership is left open, complement under which the alphabet must be closed)
struct Predefined {
    name: &'static str,
    make: fn() -> Alphabet,
    /// listed as they are required (case-sensitive)
    required: &'static [u8],
    /// membership not demanded either way (letters that some tables add to the IUPAC codes)
    open: &'static [u8],
    /// both cases of an open letter must be treated alike (documented "uppercase and lowercase")
    open_case_closed: bool,
    complement: Option<fn(u8) -> u8>,
}

const PREDEFINED: &[Predefined] = &[
    Predefined { name: "english-ascii-lower", make: alphabets::english_ascii_lower_alphabet, required: b"abcdefghijklmnopqrstuvwxyz", open: b"", open_case_closed: false, complement: None },
    Predefined { name: "english-ascii-upper", make: alphabets::english_ascii_upper_alphabet, required: b"ABCDEFGHIJKLMNOPQRSTUVWXYZ", open: b"", open_case_closed: false, complement: None },
    Predefined { name: "dna", make: dna::alphabet, required: b"ACGTacgt", open: b"", open_case_closed: true, complement: Some(dna::complement) },
    Predefined { name: "dna-n", make: dna::n_alphabet, required: b"ACGTNacgtn", open: b"", open_case_closed: true, complement: Some(dna::complement) },
    Predefined { name: "dna-iupac", make: dna::iupac_alphabet, required: b"ACGTRYSWKMBDHVNacgtryswkmbdhvn", open: b"Zz", open_case_closed: true, complement: Some(dna::complement) },
    Predefined { name: "rna", make: rna::alphabet, required: b"ACGUacgu", open: b"", open_case_closed: true, complement: Some(rna::complement) },
    Predefined { name: "rna-n", make: rna::n_alphabet, required: b"ACGUNacgun", open: b"", open_case_closed: true, complement: Some(rna::complement) },
    Predefined { name: "rna-iupac", make: rna::iupac_alphabet, required: b"ACGURYSWKMBDHVNacguryswkmbdhvn", open: b"Zz", open_case_closed: true, complement: Some(rna::complement) },
    Predefined { name: "protein", make: protein::alphabet, required: b"ARNDCEQGHILKMFPSTWYVarndceqghilkmfpstwyv", open: b"", open_case_closed: false, complement: None },
    Predefined { name: "protein-iupac", make: protein::iupac_alphabet, required: b"ARNDCEQGHILKMFPSTWYVBZXarndceqghilkmfpstwyvbzx", open: b"JOUjou", open_case_closed: false, complement: None },
];

/// one case = one predefined alphabet: membership of all 256 single-byte texts against the symbol
/// list of its documentation, len, closure under the DNA/RNA complement
fn check_predefined(pd: &Predefined, cc: &mut CaseCtx) {
    cc.set_nontrivial(true);
    let r = guard(|| {
        let a = (pd.make)();
        let single: Vec<bool> = (0..=255u8).map(|c| a.is_word(&[c])).collect();
        let image: Option<Vec<u8>> = pd.complement.map(|f| (0..=255u8).filter(|&c| single[c as usize]).map(f).collect());
        (single, a.len(), a.is_word(pd.required), image)
    });
    let (single, len, req_word, image) = match r {
        Ok(x) => x,
        Err(msg) => {
            cc.violation(format!("C20/predefined/{}/panic", pd.name), msg);
            return;
        }
    };
    let got: Vec<u8> = (0..=255u8).filter(|&c| single[c as usize]).collect();
    cc.outcome(&got);
    if let Some(&c) = pd.required.iter().find(|&&c| !single[c as usize]) {
        cc.violation(
            format!("C20/predefined/{}/missing-symbol", pd.name),
            format!("'{}' is not accepted; members: {:?}", c as char, show(&got)),
        );
    } else if !req_word {
        cc.violation(
            format!("C20/predefined/{}/missing-symbol", pd.name),
            format!("the text of all documented symbols {:?} is not a word", show(pd.required)),
        );
    }
    if let Some(&c) = got.iter().find(|c| !pd.required.contains(c) && !pd.open.contains(c)) {
        cc.violation(
            format!("C20/predefined/{}/extra-symbol", pd.name),
            format!("0x{:02x} ({:?}) is accepted; documented symbols: {:?}", c, show(&[c]), show(pd.required)),
        );
    }
    if len != got.len() {
        cc.violation(
            format!("C20/predefined/{}/len-wrong", pd.name),
            format!("len = {}, {} of the 256 single-byte texts are words", len, got.len()),
        );
    }
    if pd.open_case_closed {
        if let Some(&c) = pd.open.iter().find(|&&c| {
            let o = if c.is_ascii_uppercase() { c.to_ascii_lowercase() } else { c.to_ascii_uppercase() };
            single[c as usize] != single[o as usize]
        }) {
            cc.violation(
                format!("C20/predefined/{}/case-not-closed", pd.name),
                format!("only one case of '{}' is accepted", c as char),
            );
        }
    }
    if let Some(mut image) = image {
        image.sort();
        image.dedup();
        if image != got {
            cc.violation(
                format!("C20/predefined/{}/not-closed-under-complement", pd.name),
                format!("members {:?}, complements of the members {:?}", show(&got), show(&image)),
            );
        }
    }
}

fn predefined_unit(ctx: &mut Ctx) {
    for pd in PREDEFINED {
        ctx.case(|| json!({"kind": "predefined", "name": pd.name}), |cc| check_predefined(pd, cc));
    }
}

// ----------------------------------------------------------------------------------------- GC

const GC_SYMS: &[u8; 7] = b"ACGcgNx";
fn gc_max(tier: Tier) -> usize {
    tier.pick(8, 9)
}

fn check_gc(seq: &[u8], cc: &mut CaseCtx) {
    let is_gc = |b: u8| matches!(b, b'G' | b'C' | b'g' | b'c');
    let n = seq.len();
    let cnt = seq.iter().filter(|&&b| is_gc(b)).count();
    // "every third symbol": positions 0, 3, 6, .. (the documented example of gc3_content)
    let third: Vec<u8> = seq.iter().cloned().step_by(3).collect();
    let cnt3 = third.iter().filter(|&&b| is_gc(b)).count();
    cc.set_nontrivial(cnt > 0 && cnt < n);
    let r = guard(|| (gc_content(seq), gc3_content(seq)));
    let (g, g3) = match r {
        Ok(x) => x,
        Err(msg) => {
            cc.violation("C20/gc_content/panic", msg);
            return;
        }
    };
    cc.outcome(&(g.to_bits(), g3.to_bits()));
    // two different counts over the same length differ by at least 1/n >= 0.1; a tolerance of
    // 1e-6 therefore accepts any correctly rounded way of computing the fraction and nothing else
    let want = cnt as f64 / n as f64;
    if !((g as f64 - want).abs() <= 1e-6) {
        cc.violation("C20/gc_content/wrong-fraction", format!("gc_content = {}, {} of {} symbols are G/C", g, cnt, n));
    }
    // the same sequence handed over as iterators that do not know their length in advance
    // (filter / chain / flat_map have a size_hint lower bound that is not the length)
    let r2 = guard(|| {
        let filtered = gc_content(seq.iter().filter(|_| true));
        let (a, b) = seq.split_at(n / 2);
        let chained3 = gc3_content(a.iter().chain(b.iter()).filter(|_| true));
        let flat = gc_content(seq.chunks(2).flat_map(|c| c.iter()));
        (filtered, chained3, flat)
    });
    match r2 {
        Err(msg) => {
            cc.violation("C20/gc_content/panic", format!("iterator input: {}", msg));
            return;
        }
        Ok((f1, c3, f2)) => {
            if f1.to_bits() != g.to_bits() || f2.to_bits() != g.to_bits() || c3.to_bits() != g3.to_bits() {
                cc.violation(
                    "C20/gc_content/depends-on-iterator-kind",
                    format!("slice: gc {} gc3 {}; filter iterator: {}; flat_map iterator: {}; chained gc3: {}", g, g3, f1, f2, c3),
                );
                return;
            }
        }
    }
    let want3 = cnt3 as f64 / third.len() as f64;
    if !((g3 as f64 - want3).abs() <= 1e-6) {
        cc.violation(
            "C20/gc3_content/wrong-fraction",
            format!("gc3_content = {}, {} of the {} symbols at positions 0,3,6,.. are G/C", g3, cnt3, third.len()),
        );
    }
}

fn gc_unit(tier: Tier, shard: usize, nshards: usize, ctx: &mut Ctx) {
    for len in 1..=gc_max(tier) {
        let total = (GC_SYMS.len() as u64).pow(len as u32);
        let mut idx = shard as u64;
        while idx < total {
            let s = gen::nth_string(GC_SYMS, len, idx);
            ctx.case(|| json!({"kind": "gc", "seq": show(&s)}), |cc| check_gc(&s, cc));
            idx += nshards as u64;
        }
        if ctx.res.capped {
            return;
        }
    }
}

// --------------------------------------------------------------------------------------- Prop

const ORF_SHARDS: usize = 31; // coprime to the alphabet sizes 3, 4, 6, so strided shards get unbiased mixes
const ALPHA_SHARDS: usize = 4;
const GC_SHARDS: usize = 4;
const SETOPS_SHARDS: usize = 2;

fn codons(v: &Value) -> Vec<Codon> {
    v.as_array()
        .map(|a| {
            a.iter()
                .map(|c| {
                    let b = unshow(c.as_str().unwrap_or(""));
                    [b[0], b[1], b[2]]
                })
                .collect()
        })
        .unwrap_or_default()
}

impl Prop for C20Prop {
    fn id(&self) -> &'static str {
        "C20"
    }
    fn level(&self) -> &'static str {
        "exploration"
    }
    fn rule(&self) -> &'static str {
        "ORF: one case = (sequence, start set, stop set, min_len), every sequence up to the length bound over the configuration's alphabet, plus every concatenation of up to T tokens of the prefix code {ATG,TGA,TAG,TAA,GGG,C} not already covered, disjoint start/stop sets; the reported list is compared with the definition (each start codon position paired with the first in-frame stop after it). Complement: one case per (DNA|RNA, byte) for ALL 256 bytes - complete, not bounded; revcomp: every string up to 4 (5) over representative bytes. Alphabets: one case per (subset of a byte universe incl. the empty one, text) for is_word/transform and one per subset (plus 12 wide alphabets incl. all 256 bytes) for len/is_empty/max_symbol/all 256 single-byte texts/rank bijection. Set operations: one case per ordered pair (A, B) of subsets of the byte universe (and of the wide alphabets): intersection, difference and union against a 256-bit set model (all 256 single-byte texts, symbols, len, is_empty, max_symbol, equality with Alphabet::new of the model set); RankTransform::alphabet() must give back the alphabet in every alphabet case. Predefined alphabets: one case per constructor (english lower/upper, dna, dna+N, dna IUPAC, rna, rna+N, rna IUPAC, protein, protein IUPAC), all 256 single-byte texts against the documented symbol list, closure under the DNA/RNA complement. GC: one case per sequence over {A,C,G,c,g,N,x}. All points of product spaces, enumerated once. Non-trivial: ORF - two required ORFs share a stop codon or lie in different reading frames; complement - the byte is an IUPAC nucleotide letter; revcomp - length >= 2 with a symbol that changes; is_word - non-empty text containing a member, and a non-member or an alphabet of >= 2 symbols; alphabet - >= 2 symbols; set operations - A-B, B-A and the intersection are all non-empty; predefined - always; GC - both G/C and other symbols present."
    }
    fn assumptions(&self) -> Vec<&'static str> {
        vec![
            "ORF oracle: per start-codon position the first in-frame stop codon; must be reported exactly once iff length > min_len + 2; a reported frame must have length >= min_len; frames with min_len <= length <= min_len+2 may or may not be reported (the statement leaves them open); order of the reported list is not constrained",
            "frame offset of an ORF = start mod 3 (= end mod 3)",
            "start and stop codon sets are disjoint",
            "complement definition: IUPAC pairs A-T(U), C-G, R-Y, K-M, B-V, D-H, S, W, N self-complementary, in both cases; every other byte (incl. U for DNA, T for RNA, Z, X, gap characters, bytes >= 0x80) is a non-nucleotide byte",
            "gc3_content counts positions 0,3,6,.. as in its documented example; fractions compared with tolerance 1e-6 (two different counts differ by >= 1/9)",
            "empty sequences are not passed to gc_content (0/0)",
            "RankTransform::get is only called for members (it documents a panic otherwise)",
            "predefined alphabets: required symbols = the 4/5 bases, the 15 IUPAC nucleotide codes (T resp. U), the 20 amino acids, the 20 amino acids + B, Z, X, a-z, A-Z, each in both cases where the rustdoc says or shows so; membership of Z/z in the nucleotide IUPAC alphabets and of J, O, U (either case) in the protein IUPAC alphabet is left open (tables differ), but Z and z must be treated alike; every other byte must be rejected",
        ]
    }
    fn bounds(&self, tier: Tier) -> Value {
        json!({
            "orf": {
                "configurations": ORF_CONFIGS.iter().map(|c| json!({"starts|stops": c.name, "sequence_alphabet": show(c.alpha),
                      "sequence_len": format!("0..={}", tier.pick(c.max_len.0, c.max_len.1))})).collect::<Vec<_>>(),
                "codon_token_family": {"tokens": "ATG,TGA,TAG,TAA,GGG,C", "token_count": format!("1..={}", token_max(tier)),
                      "starts|stops": ORF_CONFIGS[0].name, "note": "strings already in the complete sweeps are skipped"},
                "min_len": orf_min_lens(tier)},
            "complement": {"bytes": "all 256 byte values, DNA and RNA", "complete": true,
                           "note": "this clause is swept completely (finite domain), it is not a bounded claim"},
            "revcomp": {"bytes": show(revcomp_bytes(tier)), "len": format!("0..={}", revcomp_max(tier)), "alphabets": "dna, rna"},
            "alphabets": {"universe": show(alpha_universe(tier)), "subsets": "all, including the empty set",
                          "text_len": format!("0..={}", alpha_text_max(tier)),
                          "wide": "all 256 bytes (both orders), 0x80..=0xFF, even bytes, odd bytes, DNA, DNA+N, IUPAC DNA, protein, with repeats, {0xFF,0x00}",
                          "single_byte_texts": "all 256 for every alphabet"},
            "gc": {"symbols": "A,C,G,c,g,N,x", "len": format!("1..={}", gc_max(tier))},
            "setops": {"operands": "every ordered pair of subsets of the alphabets universe, every ordered pair of the 12 wide alphabets",
                       "operations": "intersection, difference, union", "observed": "all 256 single-byte texts, symbols, len, is_empty, max_symbol, == Alphabet::new(model)"},
            "predefined": {"alphabets": PREDEFINED.iter().map(|p| p.name).collect::<Vec<_>>(), "single_byte_texts": "all 256", "complete": true}
        })
    }
    fn units(&self, _tier: Tier) -> Vec<String> {
        let mut v: Vec<String> = (0..ORF_SHARDS).map(|i| format!("orf-{}", i)).collect();
        v.push("complement".into());
        v.extend((0..ALPHA_SHARDS).map(|i| format!("alphabet-{}", i)));
        v.extend((0..GC_SHARDS).map(|i| format!("gc-{}", i)));
        v.extend((0..SETOPS_SHARDS).map(|i| format!("setops-{}", i)));
        v.push("predefined".into());
        v
    }
    fn run_unit(&self, tier: Tier, unit: usize, ctx: &mut Ctx) {
        let mut u = unit;
        if u < ORF_SHARDS {
            orf_unit(tier, u, ORF_SHARDS, ctx);
            return orf_token_family(tier, u, ORF_SHARDS, ctx);
        }
        u -= ORF_SHARDS;
        if u == 0 {
            return complement_unit(tier, ctx);
        }
        u -= 1;
        if u < ALPHA_SHARDS {
            return alphabet_unit(tier, u, ALPHA_SHARDS, ctx);
        }
        u -= ALPHA_SHARDS;
        if u < GC_SHARDS {
            return gc_unit(tier, u, GC_SHARDS, ctx);
        }
        u -= GC_SHARDS;
        if u < SETOPS_SHARDS {
            return setops_unit(tier, u, SETOPS_SHARDS, ctx);
        }
        u -= SETOPS_SHARDS;
        if u == 0 {
            predefined_unit(ctx);
        }
    }
    fn replay(&self, case: &Value, ctx: &mut Ctx) {
        let kind = case["kind"].as_str().unwrap_or("");
        let bytes = |k: &str| unshow(case[k].as_str().unwrap_or(""));
        let which: &'static str = if case["alphabet"] == "rna" { "rna" } else { "dna" };
        match kind {
            "orf" => {
                let seq = bytes("seq");
                let starts = codons(&case["starts"]);
                let stops = codons(&case["stops"]);
                let min_len = case["min_len"].as_u64().unwrap_or(0) as usize;
                ctx.case(|| case.clone(), |cc| check_orf(&seq, &starts, &stops, min_len, cc));
            }
            "complement" => {
                let b = case["byte"].as_u64().unwrap_or(0) as u8;
                ctx.case(|| case.clone(), |cc| check_complement(which, b, cc));
            }
            "revcomp" => {
                let s = bytes("seq");
                ctx.case(|| case.clone(), |cc| check_revcomp(which, &s, cc));
            }
            "alphabet" => {
                let s = bytes("symbols");
                ctx.case(|| case.clone(), |cc| check_alphabet(&s, cc));
            }
            "is_word" => {
                let s = bytes("symbols");
                let t = bytes("text");
                ctx.case(|| case.clone(), |cc| check_is_word(&s, &t, cc));
            }
            "gc" => {
                let s = bytes("seq");
                ctx.case(|| case.clone(), |cc| check_gc(&s, cc));
            }
            "setops" => {
                let (a, b) = (bytes("a"), bytes("b"));
                ctx.case(|| case.clone(), |cc| check_setops(&a, &b, cc));
            }
            "predefined" => {
                let name = case["name"].as_str().unwrap_or("");
                if let Some(pd) = PREDEFINED.iter().find(|p| p.name == name) {
                    ctx.case(|| case.clone(), |cc| check_predefined(pd, cc));
                }
            }
            _ => {}
        }
    }
}
