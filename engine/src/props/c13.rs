//! C13 — BED and GFF/GTF records survive write–read; comments skipped; malformed lines are errors.
//! K1 record grids (attribute multimaps x every permutation of the written pairs, so that the
//! verdict never depends on HashMap iteration order) + K3 corruptions (every truncation, every
//! single-byte deletion, every single-byte substitution from a small set) judged by an
//! independent line classifier.

use super::Prop;
use crate::ctx::{guard, show, unshow, CaseCtx, Ctx, Tier};
use crate::gen;
use bio::io::{bed, gff};
use multimap::MultiMap;
use serde::{Deserialize, Serialize};
use serde_json::{json, Value};

pub struct C13Prop;
pub static C13: C13Prop = C13Prop;

// ------------------------------------------------------------------ BED

#[derive(Clone, Debug, PartialEq, Eq, Serialize, Deserialize)]
struct BedRec {
    chrom: String,
    start: u64,
    end: u64,
    aux: Vec<String>,
}

const BED_CHROMS: [&str; 5] = ["chr1", "1", "c h", "\"q\"", ""];
const BED_COORDS: [(u64, u64); 3] = [(0, 0), (1, 5), (u64::MAX - 1, u64::MAX)];
const BED_AUX: [&str; 8] = ["", "name", "0", "+", "a b", "1,2,", "\"", "x\"y"];

fn bed_records(k: usize) -> Vec<BedRec> {
    let mut v = vec![];
    for c in BED_CHROMS {
        for (s, e) in BED_COORDS {
            for a0 in 0..BED_AUX.len() {
                // a record that is entirely empty text would be written as an empty line, which
                // the format itself cannot distinguish from "no record": chrom "" needs k >= 0
                // columns after it, which is always the case (start/end), so it is fine
                let aux: Vec<String> = (0..k).map(|j| BED_AUX[(a0 + j * 3) % BED_AUX.len()].to_string()).collect();
                v.push(BedRec { chrom: c.to_string(), start: s, end: e, aux });
                if k == 0 {
                    break;
                }
            }
        }
    }
    v
}

fn to_bed(r: &BedRec) -> bed::Record {
    let mut b = bed::Record::new();
    b.set_chrom(&r.chrom);
    b.set_start(r.start);
    b.set_end(r.end);
    for a in &r.aux {
        b.push_aux(a);
    }
    b
}

fn from_bed(b: &bed::Record) -> BedRec {
    let mut aux = vec![];
    let mut i = 3;
    while let Some(a) = b.aux(i) {
        aux.push(a.to_string());
        i += 1;
    }
    BedRec { chrom: b.chrom().to_string(), start: b.start(), end: b.end(), aux }
}

/// comment placement: 0 none, 1 before the first record, 2 between records, 3 after the last
fn bed_roundtrip(list: &[BedRec], comments: u8, cc: &mut CaseCtx) {
    cc.set_nontrivial(list.len() > 1 || comments > 0 || list.iter().any(|r| r.aux.iter().any(|a| a.contains('"') || a.is_empty())));
    let r = guard(|| {
        // each record is written through its own writer so that comment lines can be interleaved
        let mut bytes = vec![];
        for (i, rec) in list.iter().enumerate() {
            if (comments == 1 && i == 0) || (comments == 2 && i > 0) {
                bytes.extend_from_slice(b"# a comment\twith a tab\n");
            }
            let mut one = vec![];
            {
                let mut w = bed::Writer::new(&mut one);
                w.write(&to_bed(rec)).map_err(|e| e.to_string())?;
            }
            bytes.extend_from_slice(&one);
        }
        if comments == 3 {
            bytes.extend_from_slice(b"#trailing comment\n");
        }
        // and once more through a single writer: bytes must be the same without comments
        if comments == 0 {
            let mut all = vec![];
            {
                let mut w = bed::Writer::new(&mut all);
                for rec in list {
                    w.write(&to_bed(rec)).map_err(|e| e.to_string())?;
                }
            }
            if all != bytes {
                return Err(format!("one writer produced {:?}, one writer per record {:?}", show(&all), show(&bytes)));
            }
        }
        let mut rd = bed::Reader::new(&bytes[..]);
        let got: Vec<Result<BedRec, String>> = rd.records().take(list.len() + 4).map(|x| x.map(|b| from_bed(&b)).map_err(|e| e.to_string())).collect();
        Ok((bytes, got))
    });
    match r {
        Err(msg) => cc.violation("C13/bed/roundtrip/panic", msg),
        Ok(Err(e)) => cc.violation("C13/bed/writer/error-or-inconsistent-bytes", e),
        Ok(Ok((bytes, got))) => {
            cc.outcome(&bytes);
            let want: Vec<Result<BedRec, String>> = list.iter().cloned().map(Ok).collect();
            if got != want {
                let sym = if comments > 0 && got.len() != want.len() { "comment-line-not-skipped" } else { "records-differ" };
                cc.violation(format!("C13/bed/roundtrip/{}", sym), format!("bytes {:?} read back {:?} expected {:?}", show(&bytes), got, want));
            }
        }
    }
}

// ------------------------------------------------------------------ GFF

#[derive(Clone, Copy, Debug, PartialEq, Eq, Serialize, Deserialize)]
enum Dialect {
    GFF3,
    GFF2,
    GTF2,
}

impl Dialect {
    fn ty(self) -> gff::GffType {
        match self {
            Dialect::GFF3 => gff::GffType::GFF3,
            Dialect::GFF2 => gff::GffType::GFF2,
            Dialect::GTF2 => gff::GffType::GTF2,
        }
    }
    fn name(self) -> &'static str {
        match self {
            Dialect::GFF3 => "gff3",
            Dialect::GFF2 => "gff2",
            Dialect::GTF2 => "gtf2",
        }
    }
    /// (key/value delimiter, pair terminator)
    fn seps(self) -> (char, char) {
        match self {
            Dialect::GFF3 => ('=', ';'),
            _ => (' ', ';'),
        }
    }
}

#[derive(Clone, Debug, PartialEq, Eq, Serialize, Deserialize)]
struct GffRec {
    seqname: String,
    source: String,
    feature: String,
    start: u64,
    end: u64,
    score: String,
    strand: String,
    phase: Option<u8>,
    /// attribute pairs in insertion order
    attrs: Vec<(String, String)>,
}

fn to_gff(r: &GffRec) -> gff::Record {
    let mut g = gff::Record::new();
    *g.seqname_mut() = r.seqname.clone();
    *g.source_mut() = r.source.clone();
    *g.feature_type_mut() = r.feature.clone();
    *g.start_mut() = r.start;
    *g.end_mut() = r.end;
    *g.score_mut() = r.score.clone();
    *g.strand_mut() = r.strand.clone();
    *g.phase_mut() = gff::Phase::from(r.phase);
    let mut mm = MultiMap::new();
    for (k, v) in &r.attrs {
        mm.insert(k.clone(), v.clone());
    }
    *g.attributes_mut() = mm;
    g
}

/// key -> ordered values
fn attr_model(pairs: &[(String, String)]) -> std::collections::BTreeMap<String, Vec<String>> {
    let mut m = std::collections::BTreeMap::new();
    for (k, v) in pairs {
        m.entry(k.clone()).or_insert_with(Vec::new).push(v.clone());
    }
    m
}

fn attrs_of(g: &gff::Record) -> std::collections::BTreeMap<String, Vec<String>> {
    let mut m = std::collections::BTreeMap::new();
    for (k, vs) in g.attributes().iter_all() {
        m.insert(k.clone(), vs.clone());
    }
    m
}

/// (seqname, source, feature, start, end, score, strand, phase) via the record's own Serialize
fn typed_fields(g: &gff::Record) -> Vec<String> {
    let v = serde_json::to_value(g).unwrap();
    let s = |k: &str| match &v[k] {
        Value::String(s) => s.clone(),
        other => other.to_string(),
    };
    vec![s("seqname"), s("source"), s("feature_type"), s("start"), s("end"), s("score"), s("strand"), s("phase")]
}

fn attribute_maps(d: Dialect) -> Vec<Vec<(String, String)>> {
    let keys: Vec<&str> = match d {
        Dialect::GFF3 => vec!["ID", "Note", "k 2", "x"],
        _ => vec!["ID", "Note", "gene_id", "x"],
    };
    let vals: Vec<&str> = match d {
        Dialect::GFF3 => vec!["v", "1", "a b", "y.z", "-", "p:q|r"],
        // ',' and '=' are ordinary characters in the GFF2/GTF2 attribute syntax
        _ => vec!["v", "1", "a_b", "y.z", "-", "p,q", "x=y"],
    };
    let p = |k: &str, v: &str| (k.to_string(), v.to_string());
    let mut maps: Vec<Vec<(String, String)>> = vec![vec![]];
    for &k1 in &keys {
        for &v1 in &vals {
            maps.push(vec![p(k1, v1)]);
            for &v2 in &vals {
                maps.push(vec![p(k1, v1), p(k1, v2)]);
                if v1 != v2 {
                    maps.push(vec![p(k1, v1), p(k1, v2), p(k1, v1)]);
                }
                for &k2 in &keys {
                    if k2 != k1 {
                        maps.push(vec![p(k1, v1), p(k2, v2), p(k1, v2)]);
                        if v1 == "v" {
                            maps.push(vec![p(k1, v1), p(k2, v2)]);
                            maps.push(vec![p(k2, v1), p(k1, "1"), p(k2, v2), p(k1, v2)]);
                        }
                    }
                }
            }
        }
    }
    maps
}

fn gff_line(r: &GffRec, attr_col: &str) -> String {
    format!(
        "{}\t{}\t{}\t{}\t{}\t{}\t{}\t{}\t{}\n",
        r.seqname,
        r.source,
        r.feature,
        r.start,
        r.end,
        r.score,
        r.strand,
        r.phase.map(|p| p.to_string()).unwrap_or_else(|| ".".to_string()),
        attr_col
    )
}

fn read_gff(bytes: &[u8], d: Dialect, limit: usize) -> Vec<Result<gff::Record, String>> {
    let mut rd = gff::Reader::new(bytes, d.ty());
    rd.records().take(limit).map(|x| x.map_err(|e| e.to_string())).collect()
}

/// (a) writer conformance, (b) reader on every permutation of the written pairs, (c) end to end
fn gff_roundtrip(r: &GffRec, d: Dialect, cc: &mut CaseCtx) {
    let (delim, term) = d.seps();
    let model = attr_model(&r.attrs);
    cc.set_nontrivial(model.values().any(|v| v.len() > 1) || model.len() > 1);
    let dn = d.name();
    let res = guard(|| {
        let mut out = vec![];
        {
            let mut w = gff::Writer::new(&mut out, d.ty());
            w.write(&to_gff(r)).map_err(|e| e.to_string())?;
        }
        Ok::<Vec<u8>, String>(out)
    });
    let bytes = match res {
        Err(msg) => {
            cc.violation(format!("C13/{}/writer/panic", dn), msg);
            return;
        }
        Ok(Err(e)) => {
            cc.violation(format!("C13/{}/writer/error", dn), e);
            return;
        }
        Ok(Ok(b)) => b,
    };
    let text = String::from_utf8_lossy(&bytes).to_string();
    cc.outcome(&text.len());
    // ---- (a) writer conformance: the line is the 8 fixed columns + the pairs in SOME order,
    // values of one key in insertion order
    let line = text.strip_suffix('\n').unwrap_or(&text);
    let cols: Vec<&str> = line.split('\t').collect();
    let fixed = gff_line(r, "");
    let fixed_cols: Vec<&str> = fixed.trim_end_matches('\n').split('\t').collect();
    if cols.len() != 9 || cols[..8] != fixed_cols[..8] {
        cc.violation(format!("C13/{}/writer/fixed-columns-differ", dn), format!("wrote {:?}", text));
        return;
    }
    let pieces: Vec<&str> = if cols[8].is_empty() { vec![] } else { cols[8].split(term).collect() };
    let mut written: std::collections::BTreeMap<String, Vec<String>> = std::collections::BTreeMap::new();
    let mut malformed_piece = false;
    for p in &pieces {
        match p.split_once(delim) {
            Some((k, v)) => written.entry(k.to_string()).or_default().push(v.to_string()),
            None => malformed_piece = true,
        }
    }
    if malformed_piece || written != model {
        let lost = model.iter().any(|(k, vs)| vs.len() > 1 && written.get(k).map(|w| w.len() < vs.len()).unwrap_or(true));
        let sym = if lost { "multi-valued-attribute-lost" } else { "attribute-column-differs" };
        cc.violation(format!("C13/{}/writer/{}", dn, sym), format!("attributes {:?} written as {:?}", r.attrs, cols[8]));
        return;
    }
    // ---- (c) end to end
    let back = guard(|| read_gff(&bytes, d, 3));
    match &back {
        Err(msg) => {
            cc.violation(format!("C13/{}/reader/panic", dn), msg.clone());
            return;
        }
        Ok(items) => {
            let want = to_gff(r);
            if items.len() != 1 || items[0].as_ref().ok() != Some(&want) {
                cc.violation(format!("C13/{}/roundtrip/records-differ", dn), format!("wrote {:?}, read back {:?}, expected {:?}", text, items, want));
                return;
            }
        }
    }
    // ---- (b) the reader on every order of the pairs (HashMap order must not matter)
    let expected_pieces: Vec<String> = r.attrs.iter().map(|(k, v)| format!("{}{}{}", k, delim, v)).collect();
    if expected_pieces.len() >= 2 && expected_pieces.len() <= 4 {
        for perm in gen::permutations(expected_pieces.len()) {
            let col: Vec<&str> = perm.iter().map(|&i| expected_pieces[i].as_str()).collect();
            let pairs: Vec<(String, String)> = perm.iter().map(|&i| r.attrs[i].clone()).collect();
            for trailing_term in [false, true] {
                let mut colstr = col.join(&term.to_string());
                if trailing_term {
                    colstr.push(term);
                }
                let line = gff_line(r, &colstr);
                match guard(|| read_gff(line.as_bytes(), d, 3)) {
                    Err(msg) => {
                        cc.violation(format!("C13/{}/reader/panic", dn), msg);
                        return;
                    }
                    Ok(items) => {
                        let ok = items.len() == 1
                            && items[0].as_ref().map(|g| attrs_of(g) == attr_model(&pairs) && typed_fields(g) == typed_fields(&to_gff(r))).unwrap_or(false);
                        if !ok {
                            cc.violation(format!("C13/{}/reader/pair-order-dependent", dn), format!("line {:?} parsed as {:?}", line, items));
                            return;
                        }
                    }
                }
            }
        }
    }
}


/// several records through ONE writer object and one reader (state carried from record to record)
fn gff_list_roundtrip(list: &[GffRec], d: Dialect, cc: &mut CaseCtx) {
    cc.nontrivial();
    let dn = d.name();
    let r = guard(|| {
        let mut out = vec![];
        {
            let mut w = gff::Writer::new(&mut out, d.ty());
            for r in list {
                w.write(&to_gff(r)).map_err(|e| e.to_string())?;
            }
        }
        let got = read_gff(&out, d, list.len() + 3);
        Ok::<(Vec<u8>, Vec<Result<gff::Record, String>>), String>((out, got))
    });
    match r {
        Err(msg) => cc.violation(format!("C13/{}/list/panic", dn), msg),
        Ok(Err(e)) => cc.violation(format!("C13/{}/writer/error", dn), e),
        Ok(Ok((bytes, got))) => {
            cc.outcome(&got.len());
            let ok = got.len() == list.len()
                && got.iter().zip(list).all(|(g, w)| {
                    g.as_ref().map(|g| typed_fields(g) == typed_fields(&to_gff(w)) && attrs_of(g) == attr_model(&w.attrs)).unwrap_or(false)
                });
            if !ok {
                cc.violation(
                    format!("C13/{}/list/records-differ", dn),
                    format!("records {:?} written through one writer as {:?} read back as {:?}", list, show(&bytes), got),
                );
            }
        }
    }
}

fn gff_list_records(d: Dialect) -> Vec<GffRec> {
    let p = |k: &str, v: &str| (k.to_string(), v.to_string());
    let mk = |feature: &str, phase: Option<u8>, attrs: Vec<(String, String)>| GffRec { seqname: "chr1".into(), source: "src".into(), feature: feature.into(), start: 3, end: 9, score: ".".into(), strand: "+".into(), phase, attrs };
    let v2 = if d == Dialect::GFF3 { "a b" } else { "a_b" };
    vec![
        mk("gene", None, vec![p("ID", "gene1")]),
        mk("bare", Some(0), vec![]),
        mk("multi", Some(2), vec![p("Note", "x"), p("Note", v2), p("ID", "m")]),
        mk("bare2", None, vec![]),
        mk("long", Some(1), vec![p("ID", "a-much-longer-attribute-value"), p("x", "1")]),
    ]
}

// ------------------------------------------------------------------ corruptions

#[derive(Clone, Debug, Serialize, Deserialize)]
enum Corruption {
    None,
    Truncate(usize),
    Delete(usize),
    Subst(usize, u8),
    Insert(usize, u8),
}

const SUBST: [u8; 8] = [b'\t', b'\n', b'x', b'9', b'#', b'.', b'-', b'3'];

fn corrupt(base: &[u8], c: &Corruption) -> Vec<u8> {
    match c {
        Corruption::None => base.to_vec(),
        Corruption::Truncate(n) => base[..*n].to_vec(),
        Corruption::Delete(i) => {
            let mut v = base.to_vec();
            v.remove(*i);
            v
        }
        Corruption::Subst(i, b) => {
            let mut v = base.to_vec();
            v[*i] = *b;
            v
        }
        Corruption::Insert(i, b) => {
            let mut v = base.to_vec();
            v.insert(*i, *b);
            v
        }
    }
}

/// the files that get corrupted (written by the real writers)
fn corruption_bases() -> Vec<(String, Vec<u8>)> {
    let mut v = vec![];
    let g1 = GffRec { seqname: "chr1".into(), source: "src".into(), feature: "gene".into(), start: 3, end: 19, score: ".".into(), strand: "+".into(), phase: Some(0), attrs: vec![("ID".into(), "g1".into()), ("Note".into(), "a".into())] };
    let g2 = GffRec { seqname: "2".into(), source: "s".into(), feature: "CDS".into(), start: 10, end: 12, score: "5".into(), strand: "-".into(), phase: None, attrs: vec![("ID".into(), "c2".into())] };
    for d in [Dialect::GFF3, Dialect::GFF2, Dialect::GTF2] {
        let mut out = b"#a comment\n".to_vec();
        {
            let mut body = vec![];
            {
                let mut w = gff::Writer::new(&mut body, d.ty());
                w.write(&to_gff(&g1)).unwrap();
                w.write(&to_gff(&g2)).unwrap();
            }
            out.extend_from_slice(&body);
        }
        v.push((d.name().to_string(), out));
    }
    for k in [0usize, 2, 3] {
        let recs = [
            BedRec { chrom: "chr1".into(), start: 1, end: 50, aux: ["n1", "0", "+"][..k].iter().map(|s| s.to_string()).collect() },
            BedRec { chrom: "2".into(), start: 13, end: 19, aux: ["x y", "9", "-"][..k].iter().map(|s| s.to_string()).collect() },
            BedRec { chrom: "c".into(), start: 0, end: 3, aux: ["", ".", "."][..k].iter().map(|s| s.to_string()).collect() },
        ];
        let mut out = b"#c\n".to_vec();
        let mut body = vec![];
        {
            let mut w = bed::Writer::new(&mut body);
            for r in &recs {
                w.write(&to_bed(r)).unwrap();
            }
        }
        out.extend_from_slice(&body);
        v.push((format!("bed{}", k), out));
    }
    v
}

#[derive(Debug, Clone, PartialEq)]
enum LineClass {
    Skipped,
    /// typed fixed fields (GFF: 8 columns; BED: all columns) + raw attribute column for GFF
    WellFormed(Vec<String>, Option<String>),
    Malformed,
}

fn classify_gff(line: &str) -> LineClass {
    if line.is_empty() || line.starts_with('#') {
        return LineClass::Skipped;
    }
    let f: Vec<&str> = line.split('\t').collect();
    if f.len() != 9 {
        return LineClass::Malformed;
    }
    if f[3].parse::<u64>().is_err() || f[4].parse::<u64>().is_err() {
        return LineClass::Malformed;
    }
    // the phase is '.' or a number 0..=2 (compared by value: "01" is the number 1)
    let phase_ok = f[7] == "." || f[7].parse::<u8>().map(|p| p < 3).unwrap_or(false);
    if !phase_ok {
        return LineClass::Malformed;
    }
    let mut typed: Vec<String> = f[..8].iter().map(|s| s.to_string()).collect();
    if f[7] != "." {
        typed[7] = f[7].parse::<u8>().unwrap().to_string();
    }
    // numbers compare by value ("+3" and "03" parse; compare canonical forms)
    typed[3] = f[3].parse::<u64>().unwrap().to_string();
    typed[4] = f[4].parse::<u64>().unwrap().to_string();
    LineClass::WellFormed(typed, Some(f[8].to_string()))
}

fn classify_bed(line: &str) -> LineClass {
    if line.is_empty() || line.starts_with('#') {
        return LineClass::Skipped;
    }
    let f: Vec<&str> = line.split('\t').collect();
    if f.len() < 3 || f[1].parse::<u64>().is_err() || f[2].parse::<u64>().is_err() {
        return LineClass::Malformed;
    }
    let mut typed: Vec<String> = f.iter().map(|s| s.to_string()).collect();
    typed[1] = f[1].parse::<u64>().unwrap().to_string();
    typed[2] = f[2].parse::<u64>().unwrap().to_string();
    LineClass::WellFormed(typed, None)
}

fn corruption_check(base_name: &str, base: &[u8], c: &Corruption, cc: &mut CaseCtx) {
    let data = corrupt(base, c);
    let text = String::from_utf8_lossy(&data).to_string();
    let is_bed = base_name.starts_with("bed");
    let lines: Vec<&str> = text.split('\n').collect();
    let classes: Vec<LineClass> = lines.iter().map(|l| if is_bed { classify_bed(l) } else { classify_gff(l) }).collect();
    let orig_classes: Vec<LineClass> = String::from_utf8_lossy(base).split('\n').map(|l| if is_bed { classify_bed(l) } else { classify_gff(l) }).collect();
    cc.set_nontrivial(classes != orig_classes);
    let bound = lines.len() + 2;
    let dialect = match base_name {
        "gff3" => Dialect::GFF3,
        "gff2" => Dialect::GFF2,
        _ => Dialect::GTF2,
    };
    // original attribute columns -> expected attribute maps (only compared when the column is intact)
    let r = guard(|| {
        if is_bed {
            let mut rd = bed::Reader::new(&data[..]);
            let items: Vec<Result<(Vec<String>, Option<std::collections::BTreeMap<String, Vec<String>>>), String>> = rd
                .records()
                .take(bound + 1)
                .map(|x| {
                    x.map(|b| {
                        let r = from_bed(&b);
                        let mut t = vec![r.chrom.clone(), r.start.to_string(), r.end.to_string()];
                        t.extend(r.aux.iter().cloned());
                        (t, None)
                    })
                    .map_err(|e| e.to_string())
                })
                .collect();
            items
        } else {
            let mut rd = gff::Reader::new(&data[..], dialect.ty());
            rd.records().take(bound + 1).map(|x| x.map(|g| (typed_fields(&g), Some(attrs_of(&g)))).map_err(|e| e.to_string())).collect()
        }
    });
    let kind = if is_bed { "bed" } else { "gff" };
    match r {
        Err(msg) => cc.violation(format!("C13/{}/corrupted/panic", kind), msg),
        Ok(items) => {
            cc.outcome(&items.iter().map(|i| i.is_ok()).collect::<Vec<_>>());
            if items.len() > bound {
                cc.violation(format!("C13/{}/corrupted/iterator-does-not-terminate", kind), format!("{} items from {} lines", items.len(), lines.len()));
                return;
            }
            // Ok items, in order, must be a subsequence of the well-formed lines
            let mut li = 0usize;
            for (n, it) in items.iter().enumerate() {
                if let Ok((typed, attrs)) = it {
                    let mut found = false;
                    while li < classes.len() {
                        if let LineClass::WellFormed(t, raw_attr) = &classes[li] {
                            if t == typed {
                                // attribute column: compared when it is one of the original columns
                                let mut attr_ok = true;
                                if let (Some(raw), Some(a)) = (raw_attr, attrs) {
                                    for oc in &orig_classes {
                                        if let LineClass::WellFormed(_, Some(oraw)) = oc {
                                            if oraw == raw {
                                                let (delim, term) = dialect.seps();
                                                let mut m = std::collections::BTreeMap::new();
                                                for p in raw.split(term).filter(|p| !p.is_empty()) {
                                                    if let Some((k, v)) = p.split_once(delim) {
                                                        m.entry(k.to_string()).or_insert_with(Vec::new).push(v.to_string());
                                                    }
                                                }
                                                attr_ok = *a == m;
                                            }
                                        }
                                    }
                                }
                                if attr_ok {
                                    found = true;
                                    li += 1;
                                    break;
                                }
                            }
                        }
                        li += 1;
                    }
                    if !found {
                        // which malformed line could it have come from?
                        let surplus = lines.iter().any(|l| !l.starts_with('#') && l.split('\t').count() > 9);
                        let bad_phase = lines.iter().any(|l| { let f: Vec<&str> = l.split('\t').collect(); f.len() == 9 && f[7] != "." && !f[7].parse::<u8>().map(|p| p < 3).unwrap_or(false) });
                        let sym = if !is_bed && surplus {
                            "surplus-column-accepted"
                        } else if !is_bed && bad_phase {
                            "invalid-phase-accepted"
                        } else {
                            "malformed-or-altered-line-accepted"
                        };
                        cc.violation(
                            format!("C13/{}/corrupted/{}", kind, sym),
                            format!("item #{} = Ok({:?}, {:?}) does not correspond to any well-formed line (in order) of {:?}", n, typed, attrs, text),
                        );
                        return;
                    }
                }
            }
        }
    }
}

/// explicit malformed-line clauses (bad numbers, wrong column count, invalid phase) next to a good line
fn malformed_clause(kind: &str, line: &str, cc: &mut CaseCtx) {
    cc.nontrivial();
    let good_gff = "chr1\ts\tgene\t1\t5\t.\t+\t0\tID=a\n";
    let good_bed = "chr1\t1\t5\n";
    let is_bed = kind == "bed";
    let data = format!("{}{}\n", if is_bed { good_bed } else { good_gff }, line);
    let r = guard(|| {
        if is_bed {
            let mut rd = bed::Reader::new(data.as_bytes());
            rd.records().take(5).map(|x| x.is_ok()).collect::<Vec<bool>>()
        } else {
            let mut rd = gff::Reader::new(data.as_bytes(), gff::GffType::GFF3);
            rd.records().take(5).map(|x| x.is_ok()).collect::<Vec<bool>>()
        }
    });
    match r {
        Err(msg) => cc.violation(format!("C13/{}/malformed/panic", kind), msg),
        Ok(v) => {
            cc.outcome(&v);
            if v != vec![true, false] {
                let cols = line.split('\t').count();
                let sym = if !is_bed && cols > 9 {
                    "surplus-column-accepted".to_string()
                } else if !is_bed && cols == 9 && line.split('\t').nth(7).map(|p| p.parse::<u8>().is_ok()).unwrap_or(false) {
                    "invalid-phase-accepted".to_string()
                } else {
                    "not-reported-as-error".to_string()
                };
                cc.violation(format!("C13/{}/malformed/{}", kind, sym), format!("{:?} -> Ok flags {:?}, expected [true, false]", data, v));
            }
        }
    }
}

fn malformed_lines() -> Vec<(&'static str, &'static str)> {
    vec![
        ("gff", "chr1\ts\tgene\tx\t5\t.\t+\t0\tID=a"),
        ("gff", "chr1\ts\tgene\t1\t-5\t.\t+\t0\tID=a"),
        ("gff", "chr1\ts\tgene\t1\t5\t.\t+\t3\tID=a"),
        ("gff", "chr1\ts\tgene\t1\t5\t.\t+\t255\tID=a"),
        ("gff", "chr1\ts\tgene\t1\t5\t.\t+\tx\tID=a"),
        ("gff", "chr1\ts\tgene\t1\t5\t.\t+\t09\tID=a"),
        ("gff", "chr1\ts\tgene\t1\t5\t.\t+\t2x\tID=a"),
        ("gff", "chr1\ts\tgene\t1\t5\t.\t+\t.7\tID=a"),
        ("gff", "chr1\ts\tgene\t1\t5\t.\t+\t1 \tID=a"),
        ("gff", "chr1\ts\tgene\t1\t5\t.\t+\t-1\tID=a"),
        ("gff", "chr1\ts\tgene\t1\t5\t.\t+\t\tID=a"),
        ("gff", "chr1\ts\tgene\t1\t5\t.\t+\t0"),
        ("gff", "chr1\ts\tgene\t1\t5\t.\t+\t0\tID=a\textra"),
        ("gff", "chr1\ts\tgene\t1\t5\t.\t+\t0\t\tID=a"),
        ("gff", "chr1\ts\tgene\t1\t5\t.\t+"),
        ("gff", "chr1\ts\tgene\t1.5\t5\t.\t+\t0\tID=a"),
        ("gff", "chr1\ts\tgene\t1\t99999999999999999999\t.\t+\t0\tID=a"),
        ("bed", "chr1\tx\t5"),
        ("bed", "chr1\t1"),
        ("bed", "chr1\t1\t-5"),
        ("bed", "chr1\t1\t5\tname"),
        ("bed", "chr1"),
        ("bed", "chr1\t1.0\t5"),
        ("bed", "chr1\t1\t99999999999999999999"),
    ]
}

// ------------------------------------------------------------------ enumeration

const GFF_SHARDS: usize = 18;
const BED_SHARDS: usize = 10;
const CORR_SHARDS: usize = 6;

fn gff_records(d: Dialect) -> Vec<GffRec> {
    let mut v = vec![];
    let maps = attribute_maps(d);
    for (mi, m) in maps.iter().enumerate() {
        // the fixed columns cycle through their grid while every map is visited; the full
        // product is visited for the first 40 maps
        let full = mi < 40;
        let mut n = 0;
        for score in [".", "5", "0.5"] {
            for strand in [".", "+", "-"] {
                for phase in [None, Some(0u8), Some(1), Some(2)] {
                    n += 1;
                    if !full && n % 36 != mi % 36 {
                        continue;
                    }
                    v.push(GffRec { seqname: "chr1".into(), source: "src".into(), feature: "gene".into(), start: 3, end: 9, score: score.into(), strand: strand.into(), phase, attrs: m.clone() });
                }
            }
        }
    }
    v
}

fn gff_unit(shard: usize, ctx: &mut Ctx) {
    let mut idx = 0usize;
    // record lists through one writer: every ordered pair and triple of five records
    for d in [Dialect::GFF3, Dialect::GFF2, Dialect::GTF2] {
        let recs = gff_list_records(d);
        let n = recs.len();
        let mut lists: Vec<Vec<usize>> = vec![];
        for a in 0..n {
            for b in 0..n {
                lists.push(vec![a, b]);
                for c in 0..n {
                    lists.push(vec![a, b, c]);
                }
            }
        }
        for l in lists {
            idx += 1;
            if idx % GFF_SHARDS != shard {
                continue;
            }
            let list: Vec<GffRec> = l.iter().map(|&i| recs[i].clone()).collect();
            ctx.case(|| json!({"kind": "gff-list", "dialect": d, "records": list}), |cc| gff_list_roundtrip(&list, d, cc));
        }
    }
    for d in [Dialect::GFF3, Dialect::GFF2, Dialect::GTF2] {
        for r in gff_records(d) {
            idx += 1;
            if idx % GFF_SHARDS != shard {
                continue;
            }
            ctx.case(|| json!({"kind": "gff", "dialect": d, "record": r}), |cc| gff_roundtrip(&r, d, cc));
        }
    }
}

fn bed_unit(tier: Tier, shard: usize, ctx: &mut Ctx) {
    let mut idx = 0usize;
    for k in 0..=4usize {
        let recs = bed_records(k);
        let n = recs.len();
        let mut lists: Vec<Vec<BedRec>> = recs.iter().map(|r| vec![r.clone()]).collect();
        let (si, sj) = tier.pick((3, 7), (1, 3));
        for i in (0..n).step_by(si) {
            for j in (0..n).step_by(sj) {
                lists.push(vec![recs[i].clone(), recs[(i + j) % n].clone()]);
            }
        }
        for i in (0..n).step_by(tier.pick(5, 2)) {
            lists.push(vec![recs[i].clone(), recs[(i * 7 + 3) % n].clone(), recs[(i * 5 + 11) % n].clone()]);
        }
        for list in &lists {
            for comments in 0..4u8 {
                if list.len() == 1 && comments == 2 {
                    continue;
                }
                idx += 1;
                if idx % BED_SHARDS != shard {
                    continue;
                }
                ctx.case(|| json!({"kind": "bed", "records": list, "comments": comments}), |cc| bed_roundtrip(list, comments, cc));
            }
        }
    }
}

fn corruption_unit(shard: usize, ctx: &mut Ctx) {
    if shard == 0 {
        for (kind, line) in malformed_lines() {
            ctx.case(|| json!({"kind": "malformed", "format": kind, "line": line}), |cc| malformed_clause(kind, line, cc));
        }
    }
    let mut idx = 0usize;
    for (name, base) in corruption_bases() {
        let mut cs = vec![Corruption::None];
        for n in 0..base.len() {
            cs.push(Corruption::Truncate(n));
            cs.push(Corruption::Delete(n));
            for b in SUBST {
                if base[n] != b {
                    cs.push(Corruption::Subst(n, b));
                }
                cs.push(Corruption::Insert(n, b));
            }
        }
        for b in SUBST {
            cs.push(Corruption::Insert(base.len(), b));
        }
        for c in cs {
            idx += 1;
            if idx % CORR_SHARDS != shard {
                continue;
            }
            ctx.case(|| json!({"kind": "corruption", "base": name, "base_bytes": show(&base), "corruption": c}), |cc| corruption_check(&name, &base, &c, cc));
        }
    }
}

impl Prop for C13Prop {
    fn id(&self) -> &'static str {
        "C13"
    }
    fn level(&self) -> &'static str {
        "fault_enumeration"
    }
    fn rule(&self) -> &'static str {
        "BED: every record of a 5x3x8 grid per auxiliary column count k=0..4 as a single-record file, strided pairs and triples with a common k, four comment placements. GFF: three dialects x (score, strand, phase) grid x a family of attribute multimaps (empty, one pair, one key with 2-3 values, two keys interleaved); per record: writer conformance as a multiset of pairs, the reader on EVERY permutation of the written pairs (with and without trailing terminator), and end-to-end. every ordered pair and triple of five GFF records (with and without attributes) through one writer object. Corruptions: every truncation, every single-byte deletion, substitution and insertion from {TAB LF x 9 # . - 3} of six written files (3 GFF dialects, BED with 0/2/3 extra columns), judged by an independent line classifier: the Ok items must be, in order, a subsequence of the well-formed lines. 24 explicit malformed lines. Non-trivial: multi-valued or multi-key attributes; BED lists with quotes/empty fields/comments/several records; corruptions that change the classification of a line."
    }
    fn assumptions(&self) -> Vec<&'static str> {
        vec![
            "attribute keys and values are non-empty and free of the dialect's syntax characters (key/value delimiter, pair terminator, value delimiter, tab, line breaks, quote characters, leading blank in a key)",
            "a BED chrom starting with '#' is a comment line by the format and is excluded",
            "tolerated: a well-formed line rejected because an earlier line fixed another column count in the csv layer; an unterminated '#' fragment at end of input reported as an error",
            "on corrupted lines the attribute column is compared only when it is byte-identical to an original column",
        ]
    }
    fn bounds(&self, tier: Tier) -> Value {
        json!({
            "gff_records": [gff_records(Dialect::GFF3).len(), gff_records(Dialect::GFF2).len(), gff_records(Dialect::GTF2).len()],
            "attribute_maps_per_dialect": attribute_maps(Dialect::GFF3).len(),
            "bed_k": "0..=4", "bed_list_strides": tier.pick("pairs (3,7) triples 5", "pairs (1,3) triples 2"),
            "corruption_bases": corruption_bases().iter().map(|(n, b)| format!("{}:{}B", n, b.len())).collect::<Vec<_>>(),
            "substitution_bytes": "TAB LF x 9 # . - 3",
        })
    }
    fn units(&self, _tier: Tier) -> Vec<String> {
        let mut v: Vec<String> = (0..GFF_SHARDS).map(|i| format!("gff-{}", i)).collect();
        v.extend((0..BED_SHARDS).map(|i| format!("bed-{}", i)));
        v.extend((0..CORR_SHARDS).map(|i| format!("corrupt-{}", i)));
        v
    }
    fn run_unit(&self, tier: Tier, unit: usize, ctx: &mut Ctx) {
        if unit < GFF_SHARDS {
            gff_unit(unit, ctx);
        } else if unit < GFF_SHARDS + BED_SHARDS {
            bed_unit(tier, unit - GFF_SHARDS, ctx);
        } else {
            corruption_unit(unit - GFF_SHARDS - BED_SHARDS, ctx);
        }
    }
    fn replay(&self, case: &Value, ctx: &mut Ctx) {
        match case["kind"].as_str().unwrap_or("") {
            "gff" => {
                let d: Dialect = serde_json::from_value(case["dialect"].clone()).unwrap();
                let r: GffRec = serde_json::from_value(case["record"].clone()).unwrap();
                ctx.case(|| case.clone(), |cc| gff_roundtrip(&r, d, cc));
            }
            "gff-list" => {
                let d: Dialect = serde_json::from_value(case["dialect"].clone()).unwrap();
                let list: Vec<GffRec> = serde_json::from_value(case["records"].clone()).unwrap();
                ctx.case(|| case.clone(), |cc| gff_list_roundtrip(&list, d, cc));
            }
            "bed" => {
                let list: Vec<BedRec> = serde_json::from_value(case["records"].clone()).unwrap();
                let comments = case["comments"].as_u64().unwrap() as u8;
                ctx.case(|| case.clone(), |cc| bed_roundtrip(&list, comments, cc));
            }
            "malformed" => {
                let kind = if case["format"] == "bed" { "bed" } else { "gff" };
                let line = case["line"].as_str().unwrap().to_string();
                ctx.case(|| case.clone(), |cc| malformed_clause(kind, &line, cc));
            }
            "corruption" => {
                let name = case["base"].as_str().unwrap().to_string();
                let base = unshow(case["base_bytes"].as_str().unwrap());
                let c: Corruption = serde_json::from_value(case["corruption"].clone()).unwrap();
                ctx.case(|| case.clone(), |cc| corruption_check(&name, &base, &c, cc));
            }
            _ => {}
        }
    }
}
