//! C13 — BED and GFF/GTF records survive write–read; comments skipped; malformed lines are errors.
//! K1 record grids (attribute multimaps x every permutation of the written pairs, so that the
//! verdict never depends on HashMap iteration order) + K3 corruptions (every truncation, every
//! single-byte deletion, every single-byte substitution from a small set) judged by an
//! independent line classifier.
//! Public API of both modules (getters, setters, annotation conversions, GffType::from_str / Any,
//! Phase conversions, file constructors): checked as equivalent routes to the round trip above.

use super::Prop;
use crate::ctx::{guard, show, unshow, CaseCtx, Ctx, Tier};
use crate::gen;
use bio::io::{bed, gff};
use bio_types::annot::contig::Contig;
use bio_types::annot::loc::Loc;
use bio_types::annot::pos::Pos;
use bio_types::annot::spliced::Spliced;
use bio_types::strand::{NoStrand, ReqStrand, Strand};
use multimap::MultiMap;
use serde::{Deserialize, Serialize};
use serde_json::{json, Value};
use std::convert::TryInto;
use std::path::{Path, PathBuf};

pub struct C13Prop;
pub static C13: C13Prop = C13Prop;

// ------------------------------------------------------------------ BED

#[derive(Clone, Debug, PartialEq, Eq, Serialize, Deserialize)]
struct BedRec {
    chrom: String,
    start: u64,
    end: u64,
    aux: Vec<String>,
}

const BED_CHROMS: [&str; 5] = ["chr1", "1", "c h", "\"q\"", ""];
const BED_COORDS: [(u64, u64); 3] = [(0, 0), (1, 5), (u64::MAX - 1, u64::MAX)];
const BED_AUX: [&str; 8] = ["", "name", "0", "+", "a b", "1,2,", "\"", "x\"y"];

fn bed_records(k: usize) -> Vec<BedRec> {
    let mut v = vec![];
    for c in BED_CHROMS {
        for (s, e) in BED_COORDS {
            for a0 in 0..BED_AUX.len() {
                // a record that is entirely empty text would be written as an empty line, which
                // the format itself cannot distinguish from "no record": chrom "" needs k >= 0
                // columns after it, which is always the case (start/end), so it is fine
                let aux: Vec<String> = (0..k).map(|j| BED_AUX[(a0 + j * 3) % BED_AUX.len()].to_string()).collect();
                v.push(BedRec { chrom: c.to_string(), start: s, end: e, aux });
                if k == 0 {
                    break;
                }
            }
        }
    }
    v
}

fn to_bed(r: &BedRec) -> bed::Record {
    let mut b = bed::Record::new();
    b.set_chrom(&r.chrom);
    b.set_start(r.start);
    b.set_end(r.end);
    for a in &r.aux {
        b.push_aux(a);
    }
    b
}

fn from_bed(b: &bed::Record) -> BedRec {
    let mut aux = vec![];
    let mut i = 3;
    while let Some(a) = b.aux(i) {
        aux.push(a.to_string());
        i += 1;
    }
    BedRec { chrom: b.chrom().to_string(), start: b.start(), end: b.end(), aux }
}

/// comment placement: 0 none, 1 before the first record, 2 between records, 3 after the last
fn bed_roundtrip(list: &[BedRec], comments: u8, cc: &mut CaseCtx) {
    cc.set_nontrivial(list.len() > 1 || comments > 0 || list.iter().any(|r| r.aux.iter().any(|a| a.contains('"') || a.is_empty())));
    let r = guard(|| {
        // each record is written through its own writer so that comment lines can be interleaved
        let mut bytes = vec![];
        for (i, rec) in list.iter().enumerate() {
            if (comments == 1 && i == 0) || (comments == 2 && i > 0) {
                bytes.extend_from_slice(b"# a comment\twith a tab\n");
            }
            let mut one = vec![];
            {
                let mut w = bed::Writer::new(&mut one);
                w.write(&to_bed(rec)).map_err(|e| e.to_string())?;
            }
            bytes.extend_from_slice(&one);
        }
        if comments == 3 {
            bytes.extend_from_slice(b"#trailing comment\n");
        }
        // and once more through a single writer: bytes must be the same without comments
        if comments == 0 {
            let mut all = vec![];
            {
                let mut w = bed::Writer::new(&mut all);
                for rec in list {
                    w.write(&to_bed(rec)).map_err(|e| e.to_string())?;
                }
            }
            if all != bytes {
                return Err(format!("one writer produced {:?}, one writer per record {:?}", show(&all), show(&bytes)));
            }
        }
        let mut rd = bed::Reader::new(&bytes[..]);
        let recs: Vec<Result<bed::Record, String>> = rd.records().take(list.len() + 4).map(|x| x.map_err(|e| e.to_string())).collect();
        // the same records seen through the public accessors name()/score()/strand()/aux(i)
        let mut getter: Option<(&'static str, String)> = None;
        for (b, w) in recs.iter().zip(list) {
            if let Ok(b) = b {
                getter = getter.or_else(|| bed_getter_mismatch(b, w));
            }
        }
        let got: Vec<Result<BedRec, String>> = recs.iter().map(|x| x.as_ref().map(from_bed).map_err(|e| e.clone())).collect();
        Ok((bytes, got, getter))
    });
    match r {
        Err(msg) => cc.violation("C13/bed/roundtrip/panic", msg),
        Ok(Err(e)) => cc.violation("C13/bed/writer/error-or-inconsistent-bytes", e),
        Ok(Ok((bytes, got, getter))) => {
            cc.outcome(&bytes);
            let want: Vec<Result<BedRec, String>> = list.iter().cloned().map(Ok).collect();
            if got != want {
                let sym = if comments > 0 && got.len() != want.len() { "comment-line-not-skipped" } else { "records-differ" };
                cc.violation(format!("C13/bed/roundtrip/{}", sym), format!("bytes {:?} read back {:?} expected {:?}", show(&bytes), got, want));
            } else if let Some((field, detail)) = getter {
                cc.violation(format!("C13/bed/getter/{}-differs", field), format!("bytes {:?} read back: {}", show(&bytes), detail));
            }
        }
    }
}

// ------------------------------------------------------------------ BED: public accessors, setters, conversions, files

/// '+', '-' or '.' (= neither: `None` or an unknown strand)
fn strand_class(s: Option<Strand>) -> char {
    match s {
        Some(Strand::Forward) => '+',
        Some(Strand::Reverse) => '-',
        _ => '.',
    }
}

fn text_strand_class(t: Option<&str>) -> char {
    match t {
        Some("+") => '+',
        Some("-") => '-',
        _ => '.',
    }
}

/// first disagreement between the public getters of `b` and the model record: chrom/start/end,
/// aux(3..), name() = column 4, score() = column 5, strand() = column 6 ("+" forward, "-" reverse,
/// anything else / absent: neither)
fn bed_getter_mismatch(b: &bed::Record, want: &BedRec) -> Option<(&'static str, String)> {
    if b.chrom() != want.chrom {
        return Some(("chrom", format!("chrom() = {:?}, expected {:?}", b.chrom(), want.chrom)));
    }
    if b.start() != want.start {
        return Some(("start", format!("start() = {}, expected {}", b.start(), want.start)));
    }
    if b.end() != want.end {
        return Some(("end", format!("end() = {}, expected {}", b.end(), want.end)));
    }
    for (j, a) in want.aux.iter().enumerate() {
        if b.aux(3 + j) != Some(a.as_str()) {
            return Some(("aux", format!("aux({}) = {:?}, expected {:?}", 3 + j, b.aux(3 + j), a)));
        }
    }
    if b.aux(3 + want.aux.len()).is_some() {
        return Some(("aux", format!("aux({}) = {:?} beyond the {} columns of the record", 3 + want.aux.len(), b.aux(3 + want.aux.len()), 3 + want.aux.len())));
    }
    let col = |j: usize| want.aux.get(j).map(|s| s.as_str());
    if b.name() != col(0) {
        return Some(("name", format!("name() = {:?}, expected {:?}", b.name(), col(0))));
    }
    if b.score() != col(1) {
        return Some(("score", format!("score() = {:?}, expected {:?}", b.score(), col(1))));
    }
    if strand_class(b.strand()) != text_strand_class(col(2)) {
        return Some(("strand", format!("strand() = {:?} for strand column {:?}", b.strand(), col(2))));
    }
    None
}

/// records through one in-memory writer and one reader
fn bed_write_read(recs: &[bed::Record]) -> Result<(Vec<u8>, Vec<Result<bed::Record, String>>), String> {
    let mut bytes = vec![];
    {
        let mut w = bed::Writer::new(&mut bytes);
        for r in recs {
            w.write(r).map_err(|e| e.to_string())?;
        }
    }
    let mut rd = bed::Reader::new(&bytes[..]);
    let got = rd.records().take(recs.len() + 3).map(|x| x.map_err(|e| e.to_string())).collect();
    Ok((bytes, got))
}

/// `Contig::from(&record)`: refid = chrom, start, length = end - start, strand of column 6
fn bed_to_contig_check(b: &bed::Record, chrom: &str, start: u64, end: u64, strand: char, cc: &mut CaseCtx) {
    if end < start || end > isize::MAX as u64 {
        return;
    }
    let c: Contig<String, Strand> = Contig::from(b);
    if c.refid().as_str() != chrom || c.start() != start as isize || c.length() != (end - start) as usize {
        cc.violation("C13/bed/to-contig/coordinates-differ", format!("record {:?} -> contig {:?}, expected {}:{}-{}", b, c, chrom, start, end));
    }
    if strand_class(Some(c.strand())) != strand {
        cc.violation("C13/bed/to-contig/strand-differs", format!("record {:?} -> contig {:?}, expected strand {:?}", b, c, strand));
    }
}

/// one record: getters on the record as built through the setters, getters on the record read
/// back, and the record -> Contig conversion
fn bed_access_case(rec: &BedRec, cc: &mut CaseCtx) {
    cc.set_nontrivial(!rec.aux.is_empty());
    let r = guard(|| {
        let built = to_bed(rec);
        if let Some((field, detail)) = bed_getter_mismatch(&built, rec) {
            cc.violation(format!("C13/bed/getter/{}-differs", field), format!("record built through set_*/push_aux: {}", detail));
            return;
        }
        match bed_write_read(std::slice::from_ref(&built)) {
            Err(e) => cc.violation("C13/bed/writer/error-or-inconsistent-bytes", e),
            Ok((bytes, got)) => {
                cc.outcome(&bytes);
                if got.len() != 1 || got[0].as_ref().ok() != Some(&built) {
                    cc.violation("C13/bed/roundtrip/records-differ", format!("bytes {:?} read back {:?} expected {:?}", show(&bytes), got, built));
                    return;
                }
                let back = got[0].as_ref().unwrap();
                if let Some((field, detail)) = bed_getter_mismatch(back, rec) {
                    cc.violation(format!("C13/bed/getter/{}-differs", field), format!("bytes {:?} read back: {}", show(&bytes), detail));
                    return;
                }
                bed_to_contig_check(back, &rec.chrom, rec.start, rec.end, text_strand_class(rec.aux.get(2).map(|s| s.as_str())), cc);
            }
        }
    });
    if let Err(msg) = r {
        cc.violation("C13/bed/access/panic", msg);
    }
}

fn bed_access_records() -> Vec<BedRec> {
    let chroms = ["chr1", "c h", "2"];
    let coords: [(u64, u64); 4] = [(0, 0), (1, 5), (1000, 1_000_000), (7, isize::MAX as u64)];
    let names = ["", "n", "a b"];
    let scores = ["", "0", "960", "up"];
    let strands = ["+", "-", ".", "", "x", "+-"];
    let extra = ["7", "9", "0", "2", "1,2,", "0,3,"];
    let mut cols: Vec<Vec<String>> = vec![vec![]];
    for n in names {
        cols.push(vec![n.to_string()]);
        for sc in scores {
            cols.push(vec![n.to_string(), sc.to_string()]);
            for st in strands {
                let base = vec![n.to_string(), sc.to_string(), st.to_string()];
                for more in [0usize, 1, 6] {
                    let mut c = base.clone();
                    c.extend(extra[..more].iter().map(|s| s.to_string()));
                    cols.push(c);
                }
            }
        }
    }
    let mut v = vec![];
    for (i, aux) in cols.into_iter().enumerate() {
        for j in 0..2 {
            let (s, e) = coords[(i + 2 * j) % coords.len()];
            v.push(BedRec { chrom: chroms[(i + j) % chroms.len()].to_string(), start: s, end: e, aux: aux.clone() });
        }
    }
    v
}

#[derive(Clone, Debug, PartialEq, Eq, Serialize, Deserialize)]
enum SetOp {
    Name(String),
    Score(String),
}

/// set_name / set_score on a record with 0, 1, 2+ auxiliary columns.  Documented behaviour: the
/// name is column 4 and the score column 5; set_name replaces (or creates) column 4; set_score
/// replaces (or creates) column 5, creating an empty name first when the record has none; no other
/// column changes.
fn bed_set_case(base: &BedRec, ops: &[SetOp], cc: &mut CaseCtx) {
    cc.set_nontrivial(base.aux.len() < 2 || ops.len() > 1);
    let r = guard(|| {
        let mut b = to_bed(base);
        let mut model = base.clone();
        if let Some((field, detail)) = bed_getter_mismatch(&b, &model) {
            // the accessors disagree before any setter ran: not a setter defect
            cc.violation(format!("C13/bed/getter/{}-differs", field), format!("record built through set_*/push_aux: {}", detail));
            return;
        }
        for op in ops {
            let entry = match op {
                SetOp::Name(n) => {
                    b.set_name(n);
                    if model.aux.is_empty() {
                        model.aux.push(n.clone());
                    } else {
                        model.aux[0] = n.clone();
                    }
                    "set_name"
                }
                SetOp::Score(s) => {
                    b.set_score(s);
                    if model.aux.is_empty() {
                        model.aux.push(String::new());
                    }
                    if model.aux.len() < 2 {
                        model.aux.push(s.clone());
                    } else {
                        model.aux[1] = s.clone();
                    }
                    "set_score"
                }
            };
            if let Some((field, detail)) = bed_getter_mismatch(&b, &model) {
                let sym = match (op, field) {
                    (SetOp::Name(_), "name") | (SetOp::Score(_), "score") => "value-not-read-back".to_string(),
                    _ => format!("{}-changed", field),
                };
                cc.violation(format!("C13/bed/{}/{}", entry, sym), format!("after {:?} on {:?}: {}", op, base, detail));
                return;
            }
        }
        cc.outcome(&model.aux);
        // the same record through the already-checked route
        if b != to_bed(&model) {
            cc.violation("C13/bed/setters/differs-from-push_aux-route", format!("{:?} on {:?} gives {:?}, expected {:?}", ops, base, b, to_bed(&model)));
            return;
        }
        match bed_write_read(std::slice::from_ref(&b)) {
            Err(e) => cc.violation("C13/bed/writer/error-or-inconsistent-bytes", e),
            Ok((bytes, got)) => {
                let ok = got.len() == 1 && got[0].as_ref().map(|g| from_bed(g) == model && bed_getter_mismatch(g, &model).is_none()).unwrap_or(false);
                if !ok {
                    cc.violation("C13/bed/setters/roundtrip-differs", format!("{:?} on {:?}: bytes {:?} read back {:?}, expected {:?}", ops, base, show(&bytes), got, model));
                }
            }
        }
    });
    if let Err(msg) = r {
        cc.violation("C13/bed/setters/panic", msg);
    }
}

fn bed_set_cases() -> Vec<(BedRec, Vec<SetOp>)> {
    let mut single = vec![];
    for n in ["", "nm", "a b"] {
        single.push(SetOp::Name(n.to_string()));
    }
    for s in ["", "0", "7.5"] {
        single.push(SetOp::Score(s.to_string()));
    }
    let mut seqs: Vec<Vec<SetOp>> = single.iter().map(|o| vec![o.clone()]).collect();
    for a in &single {
        for b in &single {
            seqs.push(vec![a.clone(), b.clone()]);
        }
    }
    let cols = ["n0", "5", "-", "x", "y"];
    let mut v = vec![];
    for k in 0..=cols.len() {
        for (chrom, s, e) in [("chr1", 1u64, 5u64), ("", 0, 0)] {
            let base = BedRec { chrom: chrom.to_string(), start: s, end: e, aux: cols[..k].iter().map(|s| s.to_string()).collect() };
            for q in &seqs {
                v.push((base.clone(), q.clone()));
            }
        }
    }
    v
}

#[derive(Clone, Copy, Debug, PartialEq, Eq, Serialize, Deserialize)]
enum StrandIn {
    ReqForward,
    ReqReverse,
    Forward,
    Reverse,
    Unknown,
    NoStrand,
}

const STRANDS_IN: [StrandIn; 6] = [StrandIn::ReqForward, StrandIn::ReqReverse, StrandIn::Forward, StrandIn::Reverse, StrandIn::Unknown, StrandIn::NoStrand];

impl StrandIn {
    /// "By convention, in BED and GFF files, the forward strand is `+`, the reverse strand is `-`,
    /// and unknown or unspecified strands are `.`" (bio_types::strand)
    fn symbol(self) -> &'static str {
        match self {
            StrandIn::ReqForward | StrandIn::Forward => "+",
            StrandIn::ReqReverse | StrandIn::Reverse => "-",
            StrandIn::Unknown | StrandIn::NoStrand => ".",
        }
    }
}

#[derive(Clone, Debug, PartialEq, Eq, Serialize, Deserialize)]
enum Annot {
    Pos { pos: u64 },
    Contig { start: u64, length: u64 },
    /// exon lengths and exon starts (relative to `start`, left to right); `single`: built with
    /// `Spliced::new` instead of `Spliced::with_lengths_starts`
    Spliced { start: u64, lengths: Vec<u64>, starts: Vec<u64>, single: bool },
}

impl Annot {
    fn entry(&self) -> &'static str {
        match self {
            Annot::Pos { .. } => "from-pos",
            Annot::Contig { .. } => "from-contig",
            Annot::Spliced { .. } => "from-spliced",
        }
    }
    fn span(&self) -> (u64, u64) {
        match self {
            Annot::Pos { pos } => (*pos, pos + 1),
            Annot::Contig { start, length } => (*start, start + length),
            Annot::Spliced { start, lengths, starts, .. } => (*start, start + starts[starts.len() - 1] + lengths[lengths.len() - 1]),
        }
    }
}

fn conv_record_with<S: Into<Strand> + Copy>(refid: &str, a: &Annot, s: S) -> Result<bed::Record, String> {
    Ok(match a {
        Annot::Pos { pos } => bed::Record::from(Pos::new(refid.to_string(), *pos as isize, s)),
        Annot::Contig { start, length } => bed::Record::from(Contig::new(refid.to_string(), *start as isize, *length as usize, s)),
        Annot::Spliced { start, lengths, starts, single } => {
            let sp = if *single {
                Spliced::new(refid.to_string(), *start as isize, lengths[0] as usize, s)
            } else {
                let l: Vec<usize> = lengths.iter().map(|&x| x as usize).collect();
                let st: Vec<usize> = starts.iter().map(|&x| x as usize).collect();
                Spliced::with_lengths_starts(refid.to_string(), *start as isize, &l, &st, s).map_err(|e| format!("{:?}", e))?
            };
            bed::Record::from(sp)
        }
    })
}

fn conv_record(refid: &str, a: &Annot, s: StrandIn) -> Result<bed::Record, String> {
    match s {
        StrandIn::ReqForward => conv_record_with(refid, a, ReqStrand::Forward),
        StrandIn::ReqReverse => conv_record_with(refid, a, ReqStrand::Reverse),
        StrandIn::Forward => conv_record_with(refid, a, Strand::Forward),
        StrandIn::Reverse => conv_record_with(refid, a, Strand::Reverse),
        StrandIn::Unknown => conv_record_with(refid, a, Strand::Unknown),
        StrandIn::NoStrand => conv_record_with(refid, a, NoStrand::Unknown),
    }
}

/// "1,2,3," or "1,2,3" -> [1,2,3]
fn comma_list(t: &str) -> Option<Vec<u64>> {
    let t = t.strip_suffix(',').unwrap_or(t);
    if t.is_empty() {
        return Some(vec![]);
    }
    t.split(',').map(|p| p.parse::<u64>().ok()).collect()
}

/// What the rustdoc of the three `From` impls and the BED column definitions say about the record
/// of an annotation: chrom/start/end of the annotation, an empty name, a BED score, the strand
/// symbol in column 6; for a spliced annotation the 12-column layout with thickStart/thickEnd =
/// start/end, an item colour, blockCount, blockSizes and blockStarts (comma lists, a trailing
/// comma is allowed by the format).
fn conv_record_check(b: &bed::Record, refid: &str, a: &Annot, s: StrandIn, route: &str, cc: &mut CaseCtx) -> bool {
    let entry = a.entry();
    let (start, end) = a.span();
    let mut found: Vec<(String, String)> = vec![];
    let mut bad = |sym: &str, what: String| found.push((format!("C13/bed/{}/{}", entry, sym), format!("{} record {:?} of {:?} on {:?} ({:?}): {}", route, b, a, refid, s, what)));
    if b.chrom() != refid || b.start() != start || b.end() != end {
        bad("coordinates-differ", format!("expected {}:{}-{}", refid, start, end));
    }
    if b.name() != Some("") {
        bad("name-not-empty", format!("name() = {:?}", b.name()));
    }
    if !b.score().map(|t| t.parse::<u32>().map(|x| x <= 1000).unwrap_or(false)).unwrap_or(false) {
        bad("score-not-a-bed-score", format!("score() = {:?}", b.score()));
    }
    if b.aux(5) != Some(s.symbol()) || strand_class(b.strand()) != text_strand_class(Some(s.symbol())) {
        bad("strand-differs", format!("column 6 = {:?}, strand() = {:?}, expected {:?}", b.aux(5), b.strand(), s.symbol()));
    }
    if let Annot::Spliced { lengths, starts, .. } = a {
        let num = |i: usize| b.aux(i).and_then(|t| t.parse::<u64>().ok());
        if num(6) != Some(start) || num(7) != Some(end) {
            bad("thick-region-differs", format!("thickStart/thickEnd = {:?}/{:?}, expected {}/{}", b.aux(6), b.aux(7), start, end));
        }
        let rgb_ok = match b.aux(8) {
            Some("0") => true,
            Some(t) => {
                let p: Vec<&str> = t.split(',').collect();
                p.len() == 3 && p.iter().all(|x| x.parse::<u8>().is_ok())
            }
            None => false,
        };
        if !rgb_ok {
            bad("item-rgb-invalid", format!("column 9 = {:?}", b.aux(8)));
        }
        if num(9) != Some(lengths.len() as u64) {
            bad("block-count-differs", format!("column 10 = {:?}, expected {}", b.aux(9), lengths.len()));
        }
        if b.aux(10).and_then(comma_list).as_ref() != Some(lengths) {
            bad("block-sizes-differ", format!("column 11 = {:?}, expected {:?}", b.aux(10), lengths));
        }
        if b.aux(11).and_then(comma_list).as_ref() != Some(starts) {
            bad("block-starts-differ", format!("column 12 = {:?}, expected {:?}", b.aux(11), starts));
        }
        if b.aux(12).is_some() {
            bad("column-count-not-12", format!("column 13 = {:?}", b.aux(12)));
        }
    }
    let clean = found.is_empty();
    for (k, d) in found {
        cc.violation(k, d);
    }
    clean
}

/// annotation -> record (checked), written and read back (checked again), -> Contig
fn bed_conv_case(refid: &str, a: &Annot, s: StrandIn, cc: &mut CaseCtx) {
    cc.set_nontrivial(s.symbol() != "+" || matches!(a, Annot::Spliced { lengths, .. } if lengths.len() > 1));
    let entry = a.entry();
    let r = guard(|| {
        let b = match conv_record(refid, a, s) {
            Ok(b) => b,
            Err(e) => {
                cc.violation(format!("C13/bed/{}/annotation-constructor-error", entry), format!("{:?}: {}", a, e));
                return;
            }
        };
        if !conv_record_check(&b, refid, a, s, "converted", cc) {
            return;
        }
        match bed_write_read(std::slice::from_ref(&b)) {
            Err(e) => cc.violation("C13/bed/writer/error-or-inconsistent-bytes", e),
            Ok((bytes, got)) => {
                cc.outcome(&bytes);
                if got.len() != 1 || got[0].as_ref().ok() != Some(&b) {
                    cc.violation(format!("C13/bed/{}/roundtrip-differs", entry), format!("bytes {:?} read back {:?} expected {:?}", show(&bytes), got, b));
                    return;
                }
                let back = got[0].as_ref().unwrap();
                if !conv_record_check(back, refid, a, s, "read-back", cc) {
                    return;
                }
                let (start, end) = a.span();
                bed_to_contig_check(back, refid, start, end, text_strand_class(Some(s.symbol())), cc);
            }
        }
    });
    if let Err(msg) = r {
        cc.violation(format!("C13/bed/{}/panic", entry), msg);
    }
}

fn bed_conv_cases() -> Vec<(String, Annot, StrandIn)> {
    let mut annots: Vec<(usize, Annot)> = vec![];
    for pos in [0u64, 1, 7, 1_000_000] {
        annots.push((2, Annot::Pos { pos }));
    }
    for start in [0u64, 3, 1_000_000] {
        for length in [0u64, 1, 9] {
            annots.push((2, Annot::Contig { start, length }));
        }
    }
    let exon = [1u64, 3, 10];
    let intron = [1u64, 5];
    for start in [0u64, 7, 1_000_000] {
        for &e0 in &exon {
            annots.push((1, Annot::Spliced { start, lengths: vec![e0], starts: vec![0], single: true }));
            annots.push((1, Annot::Spliced { start, lengths: vec![e0], starts: vec![0], single: false }));
            for &i1 in &intron {
                for &e1 in &exon {
                    annots.push((1, Annot::Spliced { start, lengths: vec![e0, e1], starts: vec![0, e0 + i1], single: false }));
                    for &i2 in &intron {
                        for &e2 in &exon {
                            annots.push((1, Annot::Spliced { start, lengths: vec![e0, e1, e2], starts: vec![0, e0 + i1, e0 + i1 + e1 + i2], single: false }));
                        }
                    }
                }
            }
        }
    }
    // the example of the rustdoc
    annots.push((1, Annot::Spliced { start: 765265, lengths: vec![808, 52, 109], starts: vec![0, 864, 984], single: false }));
    let refids = ["chr1", "c h"];
    let mut v = vec![];
    for (nref, a) in annots {
        for refid in &refids[..nref] {
            for s in STRANDS_IN {
                v.push((refid.to_string(), a.clone(), s));
            }
        }
    }
    v
}

/// private scratch directory of one unit (or of a replay)
fn scratch_dir(unit: &str) -> PathBuf {
    let d = std::env::temp_dir().join(format!("bmc-{}-{}", std::process::id(), unit));
    let _ = std::fs::remove_dir_all(&d);
    std::fs::create_dir_all(&d).unwrap_or_else(|e| panic!("cannot create scratch directory {:?}: {}", d, e));
    d
}

/// `Writer::to_file` / `Reader::from_file` must be the same route as `Writer::new` / `Reader::new`
/// on the file's bytes
fn bed_file_case(dir: &Path, list: &[BedRec], cc: &mut CaseCtx) {
    cc.nontrivial();
    let path = dir.join("case.bed");
    let recs: Vec<bed::Record> = list.iter().map(to_bed).collect();
    let r = guard(|| {
        let (mem, mem_items) = match bed_write_read(&recs) {
            Ok(x) => x,
            Err(e) => {
                cc.violation("C13/bed/writer/error-or-inconsistent-bytes", e);
                return;
            }
        };
        // the path already holds a longer file, which must be replaced (self-contained: the case
        // does not rely on what an earlier case left behind)
        {
            let mut stale = mem.clone();
            stale.extend_from_slice(b"stale\t1\t2\nstale\t3\t4\n");
            if let Err(e) = std::fs::write(&path, &stale) {
                panic!("cannot write scratch file {:?}: {}", path, e);
            }
        }
        match bed::Writer::to_file(&path) {
            Err(e) => {
                cc.violation("C13/bed/to_file/error", format!("{:?}: {}", path, e));
                return;
            }
            Ok(mut w) => {
                for r in &recs {
                    if let Err(e) = w.write(r) {
                        cc.violation("C13/bed/to_file/error", format!("write: {}", e));
                        return;
                    }
                }
            }
        }
        let disk = std::fs::read(&path).unwrap_or_default();
        cc.outcome(&disk);
        if disk != mem {
            cc.violation("C13/bed/to_file/bytes-differ-from-in-memory-writer", format!("file holds {:?}, Writer::new produced {:?}", show(&disk), show(&mem)));
            return;
        }
        let items: Vec<Result<bed::Record, String>> = match bed::Reader::from_file(&path) {
            Err(e) => {
                cc.violation("C13/bed/from_file/error", format!("{:?}: {:#}", path, e));
                return;
            }
            Ok(mut rd) => rd.records().take(list.len() + 3).map(|x| x.map_err(|e| e.to_string())).collect(),
        };
        let model_ok = items.len() == list.len() && items.iter().zip(list).all(|(g, w)| g.as_ref().map(|g| from_bed(g) == *w && bed_getter_mismatch(g, w).is_none()).unwrap_or(false));
        if items != mem_items || !model_ok {
            cc.violation("C13/bed/from_file/records-differ", format!("file {:?} read as {:?}, Reader::new gives {:?}, written {:?}", show(&disk), items, mem_items, list));
            return;
        }
        // the same file with comment lines: from_file must skip them exactly like Reader::new
        let commented = with_comment_lines(&mem);
        let path2 = dir.join("case-commented.bed");
        if let Err(e) = std::fs::write(&path2, &commented) {
            panic!("cannot write scratch file {:?}: {}", path2, e);
        }
        let want: Vec<Result<bed::Record, String>> = bed::Reader::new(&commented[..]).records().take(list.len() + 6).map(|x| x.map_err(|e| e.to_string())).collect();
        let got: Vec<Result<bed::Record, String>> = match bed::Reader::from_file(&path2) {
            Err(e) => {
                cc.violation("C13/bed/from_file/error", format!("{:?}: {:#}", path2, e));
                return;
            }
            Ok(mut rd) => rd.records().take(list.len() + 6).map(|x| x.map_err(|e| e.to_string())).collect(),
        };
        if got != want || got != mem_items {
            cc.violation("C13/bed/from_file/comment-lines-not-skipped", format!("file {:?} read as {:?}, Reader::new gives {:?}, without comments {:?}", show(&commented), got, want, mem_items));
        }
    });
    if let Err(msg) = r {
        cc.violation("C13/bed/file/panic", msg);
    }
}

/// `bytes` (complete lines) with '#' comment lines before the first line, after every second line
/// and at the end
fn with_comment_lines(bytes: &[u8]) -> Vec<u8> {
    let mut out = b"#leading comment\n".to_vec();
    for (i, line) in bytes.split_inclusive(|&b| b == b'\n').enumerate() {
        out.extend_from_slice(line);
        if !line.ends_with(b"\n") {
            out.push(b'\n');
        }
        if i % 2 == 0 {
            out.extend_from_slice(b"# between\tlines\n");
        }
    }
    out.extend_from_slice(b"#trailing\n");
    out
}

/// a path that does not exist is an error of the constructor, for all four file constructors
fn missing_file_case(dir: &Path, cc: &mut CaseCtx) {
    cc.nontrivial();
    let missing = dir.join("no-such-file");
    let _ = std::fs::remove_file(&missing);
    let in_missing_dir = dir.join("no-such-dir").join("x");
    let r = guard(|| {
        if bed::Reader::from_file(&missing).is_ok() {
            cc.violation("C13/bed/from_file/missing-file-not-an-error", format!("{:?}", missing));
        }
        if gff::Reader::from_file(&missing, gff::GffType::GFF3).is_ok() {
            cc.violation("C13/gff/from_file/missing-file-not-an-error", format!("{:?}", missing));
        }
        if bed::Writer::to_file(&in_missing_dir).is_ok() {
            cc.violation("C13/bed/to_file/missing-directory-not-an-error", format!("{:?}", in_missing_dir));
        }
        if gff::Writer::to_file(&in_missing_dir, gff::GffType::GFF3).is_ok() {
            cc.violation("C13/gff/to_file/missing-directory-not-an-error", format!("{:?}", in_missing_dir));
        }
    });
    if let Err(msg) = r {
        cc.violation("C13/file/missing-path/panic", msg);
    }
}

fn bed_file_lists() -> Vec<Vec<BedRec>> {
    let mut v = vec![vec![]];
    for k in 0..=4usize {
        let recs = bed_records(k);
        let n = recs.len();
        for i in (0..n).step_by(7) {
            v.push(vec![recs[i].clone()]);
            v.push(vec![recs[i].clone(), recs[(i * 3 + 1) % n].clone(), recs[(i * 5 + 2) % n].clone()]);
        }
    }
    v
}

// ------------------------------------------------------------------ GFF

#[derive(Clone, Copy, Debug, PartialEq, Eq, Serialize, Deserialize)]
enum Dialect {
    GFF3,
    GFF2,
    GTF2,
    /// `GffType::Any` with the triple of GFF3
    AnyGFF3,
    /// `GffType::Any` with the triple of GFF2 (which is also the triple of GTF2)
    AnyGFF2,
    /// `GffType::Any(':', '!', '/')`
    AnyCustom,
}

impl Dialect {
    fn ty(self) -> gff::GffType {
        match self {
            Dialect::GFF3 => gff::GffType::GFF3,
            Dialect::GFF2 => gff::GffType::GFF2,
            Dialect::GTF2 => gff::GffType::GTF2,
            Dialect::AnyGFF3 => gff::GffType::Any(b'=', b';', b','),
            Dialect::AnyGFF2 => gff::GffType::Any(b' ', b';', 0u8),
            Dialect::AnyCustom => gff::GffType::Any(b':', b'!', b'/'),
        }
    }
    fn name(self) -> &'static str {
        match self {
            Dialect::GFF3 => "gff3",
            Dialect::GFF2 => "gff2",
            Dialect::GTF2 => "gtf2",
            Dialect::AnyGFF3 => "any-gff3",
            Dialect::AnyGFF2 => "any-gff2",
            Dialect::AnyCustom => "any-custom",
        }
    }
    /// (key/value delimiter, pair terminator)
    fn seps(self) -> (char, char) {
        match self {
            Dialect::GFF3 | Dialect::AnyGFF3 => ('=', ';'),
            Dialect::AnyCustom => (':', '!'),
            _ => (' ', ';'),
        }
    }
    /// GFF3-style attribute alphabet (the others use the GFF2 one, which is free of ':' '!' '/')
    fn gff3_like(self) -> bool {
        matches!(self, Dialect::GFF3 | Dialect::AnyGFF3)
    }
    /// the built-in dialects an `Any` triple must be indistinguishable from
    fn builtins(self) -> &'static [Dialect] {
        match self {
            Dialect::AnyGFF3 => &[Dialect::GFF3],
            Dialect::AnyGFF2 => &[Dialect::GFF2, Dialect::GTF2],
            _ => &[],
        }
    }
}

#[derive(Clone, Debug, PartialEq, Eq, Serialize, Deserialize)]
struct GffRec {
    seqname: String,
    source: String,
    feature: String,
    start: u64,
    end: u64,
    score: String,
    strand: String,
    phase: Option<u8>,
    /// attribute pairs in insertion order
    attrs: Vec<(String, String)>,
}

fn to_gff(r: &GffRec) -> gff::Record {
    let mut g = gff::Record::new();
    *g.seqname_mut() = r.seqname.clone();
    *g.source_mut() = r.source.clone();
    *g.feature_type_mut() = r.feature.clone();
    *g.start_mut() = r.start;
    *g.end_mut() = r.end;
    *g.score_mut() = r.score.clone();
    *g.strand_mut() = r.strand.clone();
    *g.phase_mut() = gff::Phase::from(r.phase);
    let mut mm = MultiMap::new();
    for (k, v) in &r.attrs {
        mm.insert(k.clone(), v.clone());
    }
    *g.attributes_mut() = mm;
    g
}

/// key -> ordered values
fn attr_model(pairs: &[(String, String)]) -> std::collections::BTreeMap<String, Vec<String>> {
    let mut m = std::collections::BTreeMap::new();
    for (k, v) in pairs {
        m.entry(k.clone()).or_insert_with(Vec::new).push(v.clone());
    }
    m
}

fn attrs_of(g: &gff::Record) -> std::collections::BTreeMap<String, Vec<String>> {
    let mut m = std::collections::BTreeMap::new();
    for (k, vs) in g.attributes().iter_all() {
        m.insert(k.clone(), vs.clone());
    }
    m
}

/// (seqname, source, feature, start, end, score, strand, phase) via the record's own Serialize
fn typed_fields(g: &gff::Record) -> Vec<String> {
    let v = serde_json::to_value(g).unwrap();
    let s = |k: &str| match &v[k] {
        Value::String(s) => s.clone(),
        other => other.to_string(),
    };
    vec![s("seqname"), s("source"), s("feature_type"), s("start"), s("end"), s("score"), s("strand"), s("phase")]
}

fn attribute_maps(d: Dialect) -> Vec<Vec<(String, String)>> {
    let keys: Vec<&str> = match d.gff3_like() {
        true => vec!["ID", "Note", "k 2", "x", "Note "],
        false => vec!["ID", "Note", "gene_id", "x"],
    };
    let vals: Vec<&str> = match d.gff3_like() {
        // a blank is no GFF3 delimiter: values (and keys) may begin or end with one
        true => vec!["v", "1", "a b", "y.z", "-", "p:q|r", " lead", "trail "],
        // ',' and '=' are ordinary characters in the GFF2/GTF2 attribute syntax
        false => vec!["v", "1", "a_b", "y.z", "-", "p,q", "x=y"],
    };
    let p = |k: &str, v: &str| (k.to_string(), v.to_string());
    let mut maps: Vec<Vec<(String, String)>> = vec![vec![]];
    for &k1 in &keys {
        for &v1 in &vals {
            maps.push(vec![p(k1, v1)]);
            for &v2 in &vals {
                maps.push(vec![p(k1, v1), p(k1, v2)]);
                if v1 != v2 {
                    maps.push(vec![p(k1, v1), p(k1, v2), p(k1, v1)]);
                }
                for &k2 in &keys {
                    if k2 != k1 {
                        maps.push(vec![p(k1, v1), p(k2, v2), p(k1, v2)]);
                        if v1 == "v" {
                            maps.push(vec![p(k1, v1), p(k2, v2)]);
                            maps.push(vec![p(k2, v1), p(k1, "1"), p(k2, v2), p(k1, v2)]);
                        }
                    }
                }
            }
        }
    }
    maps
}

fn gff_line(r: &GffRec, attr_col: &str) -> String {
    format!(
        "{}\t{}\t{}\t{}\t{}\t{}\t{}\t{}\t{}\n",
        r.seqname,
        r.source,
        r.feature,
        r.start,
        r.end,
        r.score,
        r.strand,
        r.phase.map(|p| p.to_string()).unwrap_or_else(|| ".".to_string()),
        attr_col
    )
}

fn read_gff(bytes: &[u8], d: Dialect, limit: usize) -> Vec<Result<gff::Record, String>> {
    let mut rd = gff::Reader::new(bytes, d.ty());
    rd.records().take(limit).map(|x| x.map_err(|e| e.to_string())).collect()
}

fn line_of(l: &Option<String>) -> &str {
    l.as_deref().unwrap_or("")
}

/// (a) writer conformance, (b) reader on every permutation of the written pairs, (c) end to end
fn gff_roundtrip(r: &GffRec, d: Dialect, cc: &mut CaseCtx) {
    let (delim, term) = d.seps();
    let model = attr_model(&r.attrs);
    cc.set_nontrivial(model.values().any(|v| v.len() > 1) || model.len() > 1);
    let dn = d.name();
    let res = guard(|| {
        let mut out = vec![];
        {
            let mut w = gff::Writer::new(&mut out, d.ty());
            w.write(&to_gff(r)).map_err(|e| e.to_string())?;
        }
        Ok::<Vec<u8>, String>(out)
    });
    let bytes = match res {
        Err(msg) => {
            cc.violation(format!("C13/{}/writer/panic", dn), msg);
            return;
        }
        Ok(Err(e)) => {
            cc.violation(format!("C13/{}/writer/error", dn), e);
            return;
        }
        Ok(Ok(b)) => b,
    };
    let text = String::from_utf8_lossy(&bytes).to_string();
    cc.outcome(&text.len());
    // ---- (a) writer conformance: the line is the 8 fixed columns + the pairs in SOME order,
    // values of one key in insertion order
    let line = text.strip_suffix('\n').unwrap_or(&text);
    let cols: Vec<&str> = line.split('\t').collect();
    let fixed = gff_line(r, "");
    let fixed_cols: Vec<&str> = fixed.trim_end_matches('\n').split('\t').collect();
    if cols.len() != 9 || cols[..8] != fixed_cols[..8] {
        cc.violation(format!("C13/{}/writer/fixed-columns-differ", dn), format!("wrote {:?}", text));
        return;
    }
    let pieces: Vec<&str> = if cols[8].is_empty() { vec![] } else { cols[8].split(term).collect() };
    let mut written: std::collections::BTreeMap<String, Vec<String>> = std::collections::BTreeMap::new();
    let mut malformed_piece = false;
    for p in &pieces {
        match p.split_once(delim) {
            Some((k, v)) => written.entry(k.to_string()).or_default().push(v.to_string()),
            None => malformed_piece = true,
        }
    }
    if malformed_piece || written != model {
        let lost = model.iter().any(|(k, vs)| vs.len() > 1 && written.get(k).map(|w| w.len() < vs.len()).unwrap_or(true));
        let sym = if lost { "multi-valued-attribute-lost" } else { "attribute-column-differs" };
        cc.violation(format!("C13/{}/writer/{}", dn, sym), format!("attributes {:?} written as {:?}", r.attrs, cols[8]));
        return;
    }
    // ---- (c) end to end
    let back = guard(|| read_gff(&bytes, d, 3));
    match &back {
        Err(msg) => {
            cc.violation(format!("C13/{}/reader/panic", dn), msg.clone());
            return;
        }
        Ok(items) => {
            let want = to_gff(r);
            if items.len() != 1 || items[0].as_ref().ok() != Some(&want) {
                cc.violation(format!("C13/{}/roundtrip/records-differ", dn), format!("wrote {:?}, read back {:?}, expected {:?}", text, items, want));
                return;
            }
            // the same two records through the public getters
            for (route, g) in [("built through the *_mut accessors", &want), ("read back", items[0].as_ref().unwrap())] {
                if let Some((field, detail)) = gff_getter_mismatch(g, r) {
                    cc.violation(format!("C13/{}/getter/{}-differs", dn, field), format!("record {} from {:?}: {}", route, text, detail));
                    return;
                }
            }
        }
    }
    // ---- an `Any` triple equal to a built-in dialect's is indistinguishable from the built-in
    for &b in d.builtins() {
        let g = to_gff(r);
        let joined: Option<String> = if d == Dialect::AnyGFF3 {
            let col: Vec<String> = model.iter().map(|(k, vs)| format!("{}{}{}", k, delim, vs.join(","))).collect();
            Some(gff_line(r, &col.join(&term.to_string())))
        } else {
            None
        };
        let res = guard(|| {
            let wr = |ty: gff::GffType| -> Result<Vec<u8>, String> {
                let mut out = vec![];
                {
                    let mut w = gff::Writer::new(&mut out, ty);
                    w.write(&g).map_err(|e| e.to_string())?;
                }
                Ok(out)
            };
            let x = wr(d.ty())?;
            let y = wr(b.ty())?;
            let (rx, ry) = (read_gff(&x, d, 3), read_gff(&x, b, 3));
            // and on a hand-written line in which the values of a key are joined by the built-in's
            // value delimiter (the writer repeats the key instead): whatever the built-in reads
            let (jx, jy) = match &joined {
                Some(line) => (read_gff(line.as_bytes(), d, 3), read_gff(line.as_bytes(), b, 3)),
                None => (vec![], vec![]),
            };
            Ok::<_, String>((x, y, rx, ry, jx, jy))
        });
        match res {
            Err(msg) => {
                cc.violation(format!("C13/{}/vs-builtin/panic", dn), msg);
                return;
            }
            Ok(Err(e)) => {
                cc.violation(format!("C13/{}/writer/error", dn), e);
                return;
            }
            Ok(Ok((x, y, rx, ry, jx, jy))) => {
                if jx != jy {
                    cc.violation(format!("C13/{}/reader/differs-from-builtin", dn), format!("{:?}: {:?} reads {:?}, {} reads {:?}", line_of(&joined), d.ty(), jx, b.name(), jy));
                    return;
                }
                if x != y {
                    cc.violation(format!("C13/{}/writer/differs-from-builtin", dn), format!("same record object: {:?} writes {:?}, {} writes {:?}", d.ty(), show(&x), b.name(), show(&y)));
                    return;
                }
                if rx != ry {
                    cc.violation(format!("C13/{}/reader/differs-from-builtin", dn), format!("{:?}: {:?} reads {:?}, {} reads {:?}", show(&x), d.ty(), rx, b.name(), ry));
                    return;
                }
            }
        }
    }
    // ---- (b) the reader on every order of the pairs (HashMap order must not matter)
    let expected_pieces: Vec<String> = r.attrs.iter().map(|(k, v)| format!("{}{}{}", k, delim, v)).collect();
    if expected_pieces.len() >= 2 && expected_pieces.len() <= 4 {
        for perm in gen::permutations(expected_pieces.len()) {
            let col: Vec<&str> = perm.iter().map(|&i| expected_pieces[i].as_str()).collect();
            let pairs: Vec<(String, String)> = perm.iter().map(|&i| r.attrs[i].clone()).collect();
            for trailing_term in [false, true] {
                let mut colstr = col.join(&term.to_string());
                if trailing_term {
                    colstr.push(term);
                }
                let line = gff_line(r, &colstr);
                match guard(|| read_gff(line.as_bytes(), d, 3)) {
                    Err(msg) => {
                        cc.violation(format!("C13/{}/reader/panic", dn), msg);
                        return;
                    }
                    Ok(items) => {
                        let ok = items.len() == 1
                            && items[0].as_ref().map(|g| attrs_of(g) == attr_model(&pairs) && typed_fields(g) == typed_fields(&to_gff(r))).unwrap_or(false);
                        if !ok {
                            cc.violation(format!("C13/{}/reader/pair-order-dependent", dn), format!("line {:?} parsed as {:?}", line, items));
                            return;
                        }
                    }
                }
            }
        }
    }
}


/// several records through ONE writer object and one reader (state carried from record to record)
fn gff_list_roundtrip(list: &[GffRec], d: Dialect, cc: &mut CaseCtx) {
    cc.nontrivial();
    let dn = d.name();
    let r = guard(|| {
        let mut out = vec![];
        {
            let mut w = gff::Writer::new(&mut out, d.ty());
            for r in list {
                w.write(&to_gff(r)).map_err(|e| e.to_string())?;
            }
        }
        let got = read_gff(&out, d, list.len() + 3);
        Ok::<(Vec<u8>, Vec<Result<gff::Record, String>>), String>((out, got))
    });
    match r {
        Err(msg) => cc.violation(format!("C13/{}/list/panic", dn), msg),
        Ok(Err(e)) => cc.violation(format!("C13/{}/writer/error", dn), e),
        Ok(Ok((bytes, got))) => {
            cc.outcome(&got.len());
            let ok = got.len() == list.len()
                && got.iter().zip(list).all(|(g, w)| {
                    g.as_ref().map(|g| typed_fields(g) == typed_fields(&to_gff(w)) && attrs_of(g) == attr_model(&w.attrs)).unwrap_or(false)
                });
            if !ok {
                cc.violation(
                    format!("C13/{}/list/records-differ", dn),
                    format!("records {:?} written through one writer as {:?} read back as {:?}", list, show(&bytes), got),
                );
            } else {
                for (g, w) in got.iter().zip(list) {
                    if let Some((field, detail)) = g.as_ref().ok().and_then(|g| gff_getter_mismatch(g, w)) {
                        cc.violation(format!("C13/{}/getter/{}-differs", dn, field), format!("list {:?} read back: {}", show(&bytes), detail));
                        break;
                    }
                }
            }
        }
    }
}

fn gff_list_records(d: Dialect) -> Vec<GffRec> {
    let p = |k: &str, v: &str| (k.to_string(), v.to_string());
    let mk = |feature: &str, phase: Option<u8>, attrs: Vec<(String, String)>| GffRec { seqname: "chr1".into(), source: "src".into(), feature: feature.into(), start: 3, end: 9, score: ".".into(), strand: "+".into(), phase, attrs };
    let v2 = if d.gff3_like() { "a b" } else { "a_b" };
    vec![
        mk("gene", None, vec![p("ID", "gene1")]),
        mk("bare", Some(0), vec![]),
        mk("multi", Some(2), vec![p("Note", "x"), p("Note", v2), p("ID", "m")]),
        mk("bare2", None, vec![]),
        mk("long", Some(1), vec![p("ID", "a-much-longer-attribute-value"), p("x", "1")]),
    ]
}

// ------------------------------------------------------------------ GFF: getters, GffType, Phase, files

/// score(): "." is None, otherwise the column as an unsigned integer, None when it is not one
fn score_model(t: &str) -> Option<u64> {
    if !t.is_empty() && t.bytes().all(|c| c.is_ascii_digit()) {
        t.parse::<u64>().ok()
    } else {
        None
    }
}

/// first disagreement between the public getters of `g` and the model record
fn gff_getter_mismatch(g: &gff::Record, r: &GffRec) -> Option<(&'static str, String)> {
    if g.seqname() != r.seqname {
        return Some(("seqname", format!("seqname() = {:?}, expected {:?}", g.seqname(), r.seqname)));
    }
    if g.source() != r.source {
        return Some(("source", format!("source() = {:?}, expected {:?}", g.source(), r.source)));
    }
    if g.feature_type() != r.feature {
        return Some(("feature_type", format!("feature_type() = {:?}, expected {:?}", g.feature_type(), r.feature)));
    }
    if *g.start() != r.start {
        return Some(("start", format!("start() = {}, expected {}", g.start(), r.start)));
    }
    if *g.end() != r.end {
        return Some(("end", format!("end() = {}, expected {}", g.end(), r.end)));
    }
    if g.score() != score_model(&r.score) {
        return Some(("score", format!("score() = {:?} for score column {:?}, expected {:?}", g.score(), r.score, score_model(&r.score))));
    }
    if strand_class(g.strand()) != text_strand_class(Some(r.strand.as_str())) {
        return Some(("strand", format!("strand() = {:?} for strand column {:?}", g.strand(), r.strand)));
    }
    let want_phase = r.phase.filter(|&p| p < 3);
    let as_opt: Result<Option<u8>, ()> = TryInto::<Option<u8>>::try_into(g.phase().clone());
    let as_u8: Result<u8, ()> = TryInto::<u8>::try_into(g.phase().clone());
    if g.phase() != &gff::Phase::from(want_phase) || as_opt != Ok(want_phase) || as_u8 != want_phase.ok_or(()) {
        return Some(("phase", format!("phase() = {:?} (as Option<u8> {:?}, as u8 {:?}), expected {:?}", g.phase(), as_opt, as_u8, want_phase)));
    }
    None
}

/// the fixed columns as users read them: a (score, strand, phase) grid with the other columns cycling
fn gff_access_records(d: Dialect) -> Vec<GffRec> {
    let p = |k: &str, v: &str| (k.to_string(), v.to_string());
    let seqnames = ["chr1", "2", "c h"];
    let sources = ["src", ".", "s 1"];
    // never "gene": disjoint from the records of gff_records()
    let features = ["exon", "CDS"];
    let coords: [(u64, u64); 4] = [(1, 1), (3, 9), (0, 0), (u64::MAX - 1, u64::MAX)];
    let attrs: [Vec<(String, String)>; 3] = [vec![], vec![p("ID", "a")], vec![p("Note", "x"), p("Note", "y.z")]];
    let mut v = vec![];
    let mut i = 0usize;
    for score in [".", "0", "5", "1000", "18446744073709551615", "0.5", "-1", "1e3"] {
        for strand in ["+", "-", ".", "?"] {
            for phase in [None, Some(0u8), Some(1), Some(2)] {
                let (start, end) = coords[i % 4];
                v.push(GffRec {
                    seqname: seqnames[i % 3].into(),
                    source: sources[(i / 3) % 3].into(),
                    feature: features[(i / 2) % 2].into(),
                    start,
                    end,
                    score: score.into(),
                    strand: strand.into(),
                    phase,
                    attrs: attrs[(i + d as usize) % 3].clone(),
                });
                i += 1;
            }
        }
    }
    v
}

/// a record with a multi-valued and a second attribute, free of every dialect's syntax characters
fn probe_record() -> GffRec {
    let p = |k: &str, v: &str| (k.to_string(), v.to_string());
    GffRec { seqname: "chr1".into(), source: "src".into(), feature: "gene".into(), start: 3, end: 9, score: "5".into(), strand: "-".into(), phase: Some(1), attrs: vec![p("Note", "x"), p("Note", "y.z"), p("ID", "m")] }
}

const TYPE_NAMES: [&str; 9] = ["gff3", "gff2", "gtf2", "", "unknown", "xtf9", "gff", "gff4", "bed"];

/// `GffType::from_str`: the three documented names give the built-in dialects, anything else is an error
fn gff_type_str_case(name: &str, cc: &mut CaseCtx) {
    cc.nontrivial();
    let want = match name {
        "gff3" => Some(Dialect::GFF3),
        "gff2" => Some(Dialect::GFF2),
        "gtf2" => Some(Dialect::GTF2),
        _ => None,
    };
    let parsed = guard(|| <gff::GffType as std::str::FromStr>::from_str(name));
    cc.outcome(&parsed.as_ref().map(|r| r.is_ok()).unwrap_or(false));
    match (parsed, want) {
        (Err(msg), _) => cc.violation("C13/gff-type/from_str/panic", msg),
        (Ok(Err(e)), Some(_)) => cc.violation("C13/gff-type/from_str/known-name-rejected", format!("{:?} -> Err({:?})", name, e)),
        (Ok(Ok(t)), None) => cc.violation("C13/gff-type/from_str/unknown-name-accepted", format!("{:?} -> {:?}", name, t)),
        (Ok(Err(_)), None) => {}
        (Ok(Ok(t)), Some(d)) => {
            if t != d.ty() {
                cc.violation("C13/gff-type/from_str/wrong-type", format!("{:?} -> {:?}", name, t));
                return;
            }
            // and it drives writer and reader like the built-in value
            let g = to_gff(&probe_record());
            let res = guard(|| {
                let wr = |ty: gff::GffType| -> Result<Vec<u8>, String> {
                    let mut out = vec![];
                    {
                        let mut w = gff::Writer::new(&mut out, ty);
                        w.write(&g).map_err(|e| e.to_string())?;
                    }
                    Ok(out)
                };
                let (x, y) = (wr(t)?, wr(d.ty())?);
                let mut rd = gff::Reader::new(&x[..], t);
                let rx: Vec<Result<gff::Record, String>> = rd.records().take(3).map(|x| x.map_err(|e| e.to_string())).collect();
                Ok::<_, String>((x, y, rx))
            });
            match res {
                Err(msg) => cc.violation("C13/gff-type/from_str/panic", msg),
                Ok(Err(e)) => cc.violation(format!("C13/{}/writer/error", d.name()), e),
                Ok(Ok((x, y, rx))) => {
                    if x != y || rx.len() != 1 || rx[0].as_ref().ok() != Some(&g) {
                        cc.violation("C13/gff-type/from_str/behaves-unlike-builtin", format!("{:?}: wrote {:?} (built-in {:?}), read back {:?}", name, show(&x), show(&y), rx));
                    }
                }
            }
        }
    }
}

/// `Phase::from(u8)`, `Phase::from(Option<u8>)`, `TryInto<u8>`, `TryInto<Option<u8>>`: a value
/// above 2 becomes the "no phase" value (rustdoc of both `From` impls); `TryInto<u8>` fails exactly
/// for "no phase"; the phase written to a file is the value or '.' and is read back equal.
/// `v = None` is the case `Phase::from(None)`.
fn phase_conv_case(v: Option<u8>, cc: &mut CaseCtx) {
    cc.set_nontrivial(v.map(|x| x >= 2).unwrap_or(true));
    let want = v.filter(|&p| p < 3);
    let r = guard(|| {
        let from_opt = gff::Phase::from(v);
        let mut routes = vec![("From<Option<u8>>", from_opt.clone())];
        if let Some(x) = v {
            let from_u8 = gff::Phase::from(x);
            if from_u8 != from_opt {
                cc.violation("C13/gff/phase/from-u8-differs-from-option-route", format!("Phase::from({}) = {:?}, Phase::from(Some({})) = {:?}", x, from_u8, x, from_opt));
                return;
            }
            routes.push(("From<u8>", from_u8));
        }
        let none = gff::Phase::from(None::<u8>);
        for (route, p) in routes {
            if (p == none) != want.is_none() {
                cc.violation("C13/gff/phase/validation-differs", format!("{} of {:?} = {:?}, expected the phase {:?}", route, v, p, want));
                return;
            }
            let as_u8: Result<u8, ()> = TryInto::<u8>::try_into(p.clone());
            if as_u8 != want.ok_or(()) {
                cc.violation("C13/gff/phase/try-into-u8-differs", format!("{} of {:?} = {:?} -> {:?}, expected {:?}", route, v, p, as_u8, want.ok_or(())));
                return;
            }
            let as_opt: Result<Option<u8>, ()> = TryInto::<Option<u8>>::try_into(p.clone());
            if as_opt != Ok(want) {
                cc.violation("C13/gff/phase/try-into-option-differs", format!("{} of {:?} = {:?} -> {:?}, expected Ok({:?})", route, v, p, as_opt, want));
                return;
            }
            // through a file
            let mut rec = probe_record();
            rec.phase = want;
            let mut g = to_gff(&rec);
            *g.phase_mut() = p.clone();
            let mut out = vec![];
            {
                let mut w = gff::Writer::new(&mut out, gff::GffType::GFF3);
                if let Err(e) = w.write(&g) {
                    cc.violation("C13/gff3/writer/error", e.to_string());
                    return;
                }
            }
            let text = String::from_utf8_lossy(&out).to_string();
            cc.outcome(&text.split('\t').nth(7).map(|s| s.to_string()));
            let col = want.map(|x| x.to_string()).unwrap_or_else(|| ".".to_string());
            let back = read_gff(&out, Dialect::GFF3, 3);
            let ok = text.split('\t').nth(7) == Some(col.as_str()) && back.len() == 1 && back[0].as_ref().map(|b| b.phase() == &p && gff_getter_mismatch(b, &rec).is_none()).unwrap_or(false);
            if !ok {
                cc.violation("C13/gff/phase/written-phase-differs", format!("{} of {:?} = {:?} written as {:?}, read back {:?}", route, v, p, text, back));
                return;
            }
        }
    });
    if let Err(msg) = r {
        cc.violation("C13/gff/phase/panic", msg);
    }
}

fn phase_serde_values() -> Vec<Value> {
    let mut v: Vec<Value> = [".", "0", "1", "2", "3", "9", "255", "256", "x", "", "-1", "1.0", "..", ". "].iter().map(|s| json!(s)).collect();
    v.extend([json!(null), json!(1), json!(7), json!(true), json!([])]);
    v
}

/// `Phase` deserialised on its own (the route the reader uses column by column): ".", "0", "1",
/// "2" are the four phases, any other text is an error ("Phase must be ".", 0, 1, or 2"), and an
/// input that is not text at all (the phase is missing) must not panic and must not be coerced into
/// a phase it does not denote.
fn phase_serde_case(val: &Value, cc: &mut CaseCtx) {
    cc.nontrivial();
    let r = guard(|| serde_json::from_value::<gff::Phase>(val.clone()).map_err(|e| e.to_string()));
    cc.outcome(&r.as_ref().map(|x| x.is_ok()).unwrap_or(false));
    let got = match r {
        Err(msg) => {
            cc.violation("C13/gff/phase-deserialize/panic", msg);
            return;
        }
        Ok(x) => x,
    };
    match val {
        Value::String(t) => {
            let want: Option<Option<u8>> = match t.as_str() {
                "." => Some(None),
                "0" => Some(Some(0)),
                "1" => Some(Some(1)),
                "2" => Some(Some(2)),
                _ => None,
            };
            match (want, got) {
                (Some(w), Ok(p)) => {
                    if p != gff::Phase::from(w) {
                        cc.violation("C13/gff/phase-deserialize/wrong-phase", format!("{:?} -> {:?}", t, p));
                    }
                }
                (Some(_), Err(e)) => cc.violation("C13/gff/phase-deserialize/valid-phase-rejected", format!("{:?} -> Err({})", t, e)),
                (None, Ok(p)) => cc.violation("C13/gff/phase-deserialize/invalid-phase-accepted", format!("{:?} -> {:?}", t, p)),
                (None, Err(_)) => {}
            }
        }
        other => {
            // not text: an error, or (tolerated) the phase the value plainly denotes
            let denotes: Option<u8> = other.as_u64().filter(|&n| n < 3).map(|n| n as u8);
            if let Ok(p) = got {
                if p != gff::Phase::from(denotes) || (denotes.is_none() && !other.is_null()) {
                    cc.violation("C13/gff/phase-deserialize/non-text-coerced", format!("{} -> {:?}", other, p));
                }
            }
        }
    }
}

/// a serialised record whose phase field is missing: an error (or, tolerated, "no phase"), never a
/// panic or an invented phase
fn record_without_phase_case(cc: &mut CaseCtx) {
    cc.nontrivial();
    let r = guard(|| {
        let mut v = serde_json::to_value(to_gff(&probe_record())).map_err(|e| e.to_string())?;
        let had = v.as_object_mut().map(|o| o.remove("phase").is_some()).unwrap_or(false);
        Ok::<_, String>((had, serde_json::from_value::<gff::Record>(v).map_err(|e| e.to_string())))
    });
    match r {
        Err(msg) => cc.violation("C13/gff/phase-deserialize/panic", msg),
        // the serialised form has no field of that name: nothing to remove, nothing to check
        Ok(Err(_)) | Ok(Ok((false, _))) => {}
        Ok(Ok((true, got))) => {
            cc.outcome(&got.is_ok());
            if let Ok(g) = got {
                if g.phase() != &gff::Phase::from(None::<u8>) {
                    cc.violation("C13/gff/phase-deserialize/missing-phase-invented", format!("{:?}", g));
                }
            }
        }
    }
}

fn gff_file_case(dir: &Path, list: &[GffRec], d: Dialect, cc: &mut CaseCtx) {
    cc.nontrivial();
    let dn = d.name();
    let path = dir.join("case.gff");
    // the same record objects go to both writers, so the attribute order is the same
    let recs: Vec<gff::Record> = list.iter().map(to_gff).collect();
    let r = guard(|| {
        let mut mem = vec![];
        {
            let mut w = gff::Writer::new(&mut mem, d.ty());
            for r in &recs {
                if let Err(e) = w.write(r) {
                    cc.violation(format!("C13/{}/writer/error", dn), e.to_string());
                    return;
                }
            }
        }
        {
            let mut stale = mem.clone();
            stale.extend_from_slice(b"stale\ts\tgene\t1\t2\t.\t+\t.\tID=stale\n");
            if let Err(e) = std::fs::write(&path, &stale) {
                panic!("cannot write scratch file {:?}: {}", path, e);
            }
        }
        match gff::Writer::to_file(&path, d.ty()) {
            Err(e) => {
                cc.violation(format!("C13/{}/to_file/error", dn), format!("{:?}: {}", path, e));
                return;
            }
            Ok(mut w) => {
                for r in &recs {
                    if let Err(e) = w.write(r) {
                        cc.violation(format!("C13/{}/to_file/error", dn), format!("write: {}", e));
                        return;
                    }
                }
            }
        }
        let disk = std::fs::read(&path).unwrap_or_default();
        cc.outcome(&disk.len());
        if disk != mem {
            cc.violation(format!("C13/{}/to_file/bytes-differ-from-in-memory-writer", dn), format!("file holds {:?}, Writer::new produced {:?}", show(&disk), show(&mem)));
            return;
        }
        let items: Vec<Result<gff::Record, String>> = match gff::Reader::from_file(&path, d.ty()) {
            Err(e) => {
                cc.violation(format!("C13/{}/from_file/error", dn), format!("{:?}: {:#}", path, e));
                return;
            }
            Ok(mut rd) => rd.records().take(list.len() + 3).map(|x| x.map_err(|e| e.to_string())).collect(),
        };
        let mem_items = read_gff(&mem, d, list.len() + 3);
        let model_ok = items.len() == list.len()
            && items.iter().zip(list).all(|(g, w)| g.as_ref().map(|g| typed_fields(g) == typed_fields(&to_gff(w)) && attrs_of(g) == attr_model(&w.attrs) && gff_getter_mismatch(g, w).is_none()).unwrap_or(false));
        if items != mem_items || !model_ok {
            cc.violation(format!("C13/{}/from_file/records-differ", dn), format!("file {:?} read as {:?}, Reader::new gives {:?}, written {:?}", show(&disk), items, mem_items, list));
            return;
        }
        // the same file with comment lines
        let commented = with_comment_lines(&mem);
        let path2 = dir.join("case-commented.gff");
        if let Err(e) = std::fs::write(&path2, &commented) {
            panic!("cannot write scratch file {:?}: {}", path2, e);
        }
        let want = read_gff(&commented, d, list.len() + 6);
        let got: Vec<Result<gff::Record, String>> = match gff::Reader::from_file(&path2, d.ty()) {
            Err(e) => {
                cc.violation(format!("C13/{}/from_file/error", dn), format!("{:?}: {:#}", path2, e));
                return;
            }
            Ok(mut rd) => rd.records().take(list.len() + 6).map(|x| x.map_err(|e| e.to_string())).collect(),
        };
        if got != want || got != mem_items {
            cc.violation(format!("C13/{}/from_file/comment-lines-not-skipped", dn), format!("file {:?} read as {:?}, Reader::new gives {:?}, without comments {:?}", show(&commented), got, want, mem_items));
        }
    });
    if let Err(msg) = r {
        cc.violation(format!("C13/{}/file/panic", dn), msg);
    }
}

/// lines whose phase column is missing (eight or seven columns) or empty, next to a good line
fn missing_phase_lines() -> Vec<(&'static str, &'static str)> {
    vec![("gff", "chr1\ts\tgene\t1\t5\t.\t+\tID=a"), ("gff", "chr1\ts\tgene\t1\t5\t.\tID=a"), ("gff", "chr1\ts\tgene\t1\t5\t.\t+\t\t")]
}

// ------------------------------------------------------------------ corruptions

#[derive(Clone, Debug, Serialize, Deserialize)]
enum Corruption {
    None,
    Truncate(usize),
    Delete(usize),
    Subst(usize, u8),
    Insert(usize, u8),
    /// two substitutions at distinct offsets (thorough tier)
    Subst2(usize, u8, usize, u8),
}

const SUBST: [u8; 8] = [b'\t', b'\n', b'x', b'9', b'#', b'.', b'-', b'3'];

fn corrupt(base: &[u8], c: &Corruption) -> Vec<u8> {
    match c {
        Corruption::None => base.to_vec(),
        Corruption::Truncate(n) => base[..*n].to_vec(),
        Corruption::Delete(i) => {
            let mut v = base.to_vec();
            v.remove(*i);
            v
        }
        Corruption::Subst(i, b) => {
            let mut v = base.to_vec();
            v[*i] = *b;
            v
        }
        Corruption::Insert(i, b) => {
            let mut v = base.to_vec();
            v.insert(*i, *b);
            v
        }
        Corruption::Subst2(i, b, j, c) => {
            let mut v = base.to_vec();
            v[*i] = *b;
            v[*j] = *c;
            v
        }
    }
}

/// the files that get corrupted (written by the real writers)
fn corruption_bases() -> Vec<(String, Vec<u8>)> {
    let mut v = vec![];
    let g1 = GffRec { seqname: "chr1".into(), source: "src".into(), feature: "gene".into(), start: 3, end: 19, score: ".".into(), strand: "+".into(), phase: Some(0), attrs: vec![("ID".into(), "g1".into()), ("Note".into(), "a".into())] };
    let g2 = GffRec { seqname: "2".into(), source: "s".into(), feature: "CDS".into(), start: 10, end: 12, score: "5".into(), strand: "-".into(), phase: None, attrs: vec![("ID".into(), "c2".into())] };
    for d in [Dialect::GFF3, Dialect::GFF2, Dialect::GTF2] {
        let mut out = b"#a comment\n".to_vec();
        {
            let mut body = vec![];
            {
                let mut w = gff::Writer::new(&mut body, d.ty());
                w.write(&to_gff(&g1)).unwrap();
                w.write(&to_gff(&g2)).unwrap();
            }
            out.extend_from_slice(&body);
        }
        v.push((d.name().to_string(), out));
    }
    for k in [0usize, 2, 3] {
        let recs = [
            BedRec { chrom: "chr1".into(), start: 1, end: 50, aux: ["n1", "0", "+"][..k].iter().map(|s| s.to_string()).collect() },
            BedRec { chrom: "2".into(), start: 13, end: 19, aux: ["x y", "9", "-"][..k].iter().map(|s| s.to_string()).collect() },
            BedRec { chrom: "c".into(), start: 0, end: 3, aux: ["", ".", "."][..k].iter().map(|s| s.to_string()).collect() },
        ];
        let mut out = b"#c\n".to_vec();
        let mut body = vec![];
        {
            let mut w = bed::Writer::new(&mut body);
            for r in &recs {
                w.write(&to_bed(r)).unwrap();
            }
        }
        out.extend_from_slice(&body);
        v.push((format!("bed{}", k), out));
    }
    v
}

#[derive(Debug, Clone, PartialEq)]
enum LineClass {
    Skipped,
    /// typed fixed fields (GFF: 8 columns; BED: all columns) + raw attribute column for GFF
    WellFormed(Vec<String>, Option<String>),
    Malformed,
}

fn classify_gff(line: &str) -> LineClass {
    if line.is_empty() || line.starts_with('#') {
        return LineClass::Skipped;
    }
    let f: Vec<&str> = line.split('\t').collect();
    if f.len() != 9 {
        return LineClass::Malformed;
    }
    if f[3].parse::<u64>().is_err() || f[4].parse::<u64>().is_err() {
        return LineClass::Malformed;
    }
    // the phase is '.' or a number 0..=2 (compared by value: "01" is the number 1)
    let phase_ok = f[7] == "." || f[7].parse::<u8>().map(|p| p < 3).unwrap_or(false);
    if !phase_ok {
        return LineClass::Malformed;
    }
    let mut typed: Vec<String> = f[..8].iter().map(|s| s.to_string()).collect();
    if f[7] != "." {
        typed[7] = f[7].parse::<u8>().unwrap().to_string();
    }
    // numbers compare by value ("+3" and "03" parse; compare canonical forms)
    typed[3] = f[3].parse::<u64>().unwrap().to_string();
    typed[4] = f[4].parse::<u64>().unwrap().to_string();
    LineClass::WellFormed(typed, Some(f[8].to_string()))
}

fn classify_bed(line: &str) -> LineClass {
    if line.is_empty() || line.starts_with('#') {
        return LineClass::Skipped;
    }
    let f: Vec<&str> = line.split('\t').collect();
    if f.len() < 3 || f[1].parse::<u64>().is_err() || f[2].parse::<u64>().is_err() {
        return LineClass::Malformed;
    }
    let mut typed: Vec<String> = f.iter().map(|s| s.to_string()).collect();
    typed[1] = f[1].parse::<u64>().unwrap().to_string();
    typed[2] = f[2].parse::<u64>().unwrap().to_string();
    LineClass::WellFormed(typed, None)
}

fn corruption_check(base_name: &str, base: &[u8], c: &Corruption, cc: &mut CaseCtx) {
    let data = corrupt(base, c);
    let text = String::from_utf8_lossy(&data).to_string();
    let is_bed = base_name.starts_with("bed");
    let lines: Vec<&str> = text.split('\n').collect();
    let classes: Vec<LineClass> = lines.iter().map(|l| if is_bed { classify_bed(l) } else { classify_gff(l) }).collect();
    let orig_classes: Vec<LineClass> = String::from_utf8_lossy(base).split('\n').map(|l| if is_bed { classify_bed(l) } else { classify_gff(l) }).collect();
    cc.set_nontrivial(classes != orig_classes);
    let bound = lines.len() + 2;
    let dialect = match base_name {
        "gff3" => Dialect::GFF3,
        "gff2" => Dialect::GFF2,
        _ => Dialect::GTF2,
    };
    // original attribute columns -> expected attribute maps (only compared when the column is intact)
    let r = guard(|| {
        if is_bed {
            let mut rd = bed::Reader::new(&data[..]);
            let items: Vec<Result<(Vec<String>, Option<std::collections::BTreeMap<String, Vec<String>>>), String>> = rd
                .records()
                .take(bound + 1)
                .map(|x| {
                    x.map(|b| {
                        let r = from_bed(&b);
                        let mut t = vec![r.chrom.clone(), r.start.to_string(), r.end.to_string()];
                        t.extend(r.aux.iter().cloned());
                        (t, None)
                    })
                    .map_err(|e| e.to_string())
                })
                .collect();
            items
        } else {
            let mut rd = gff::Reader::new(&data[..], dialect.ty());
            rd.records().take(bound + 1).map(|x| x.map(|g| (typed_fields(&g), Some(attrs_of(&g)))).map_err(|e| e.to_string())).collect()
        }
    });
    let kind = if is_bed { "bed" } else { "gff" };
    match r {
        Err(msg) => cc.violation(format!("C13/{}/corrupted/panic", kind), msg),
        Ok(items) => {
            cc.outcome(&items.iter().map(|i| i.is_ok()).collect::<Vec<_>>());
            if items.len() > bound {
                cc.violation(format!("C13/{}/corrupted/iterator-does-not-terminate", kind), format!("{} items from {} lines", items.len(), lines.len()));
                return;
            }
            // Ok items, in order, must be a subsequence of the well-formed lines
            let mut li = 0usize;
            for (n, it) in items.iter().enumerate() {
                if let Ok((typed, attrs)) = it {
                    let mut found = false;
                    while li < classes.len() {
                        if let LineClass::WellFormed(t, raw_attr) = &classes[li] {
                            if t == typed {
                                // attribute column: compared when it is one of the original columns
                                let mut attr_ok = true;
                                if let (Some(raw), Some(a)) = (raw_attr, attrs) {
                                    for oc in &orig_classes {
                                        if let LineClass::WellFormed(_, Some(oraw)) = oc {
                                            if oraw == raw {
                                                let (delim, term) = dialect.seps();
                                                let mut m = std::collections::BTreeMap::new();
                                                for p in raw.split(term).filter(|p| !p.is_empty()) {
                                                    if let Some((k, v)) = p.split_once(delim) {
                                                        m.entry(k.to_string()).or_insert_with(Vec::new).push(v.to_string());
                                                    }
                                                }
                                                attr_ok = *a == m;
                                            }
                                        }
                                    }
                                }
                                if attr_ok {
                                    found = true;
                                    li += 1;
                                    break;
                                }
                            }
                        }
                        li += 1;
                    }
                    if !found {
                        // which malformed line could it have come from?
                        let surplus = lines.iter().any(|l| !l.starts_with('#') && l.split('\t').count() > 9);
                        let bad_phase = lines.iter().any(|l| { let f: Vec<&str> = l.split('\t').collect(); f.len() == 9 && f[7] != "." && !f[7].parse::<u8>().map(|p| p < 3).unwrap_or(false) });
                        let sym = if !is_bed && surplus {
                            "surplus-column-accepted"
                        } else if !is_bed && bad_phase {
                            "invalid-phase-accepted"
                        } else {
                            "malformed-or-altered-line-accepted"
                        };
                        cc.violation(
                            format!("C13/{}/corrupted/{}", kind, sym),
                            format!("item #{} = Ok({:?}, {:?}) does not correspond to any well-formed line (in order) of {:?}", n, typed, attrs, text),
                        );
                        return;
                    }
                }
            }
        }
    }
}

/// explicit malformed-line clauses (bad numbers, wrong column count, invalid phase) next to a good line
fn malformed_clause(kind: &str, line: &str, cc: &mut CaseCtx) {
    cc.nontrivial();
    let good_gff = "chr1\ts\tgene\t1\t5\t.\t+\t0\tID=a\n";
    let good_bed = "chr1\t1\t5\n";
    let is_bed = kind == "bed";
    let data = format!("{}{}\n", if is_bed { good_bed } else { good_gff }, line);
    let r = guard(|| {
        if is_bed {
            let mut rd = bed::Reader::new(data.as_bytes());
            rd.records().take(5).map(|x| x.is_ok()).collect::<Vec<bool>>()
        } else {
            let mut rd = gff::Reader::new(data.as_bytes(), gff::GffType::GFF3);
            rd.records().take(5).map(|x| x.is_ok()).collect::<Vec<bool>>()
        }
    });
    match r {
        Err(msg) => cc.violation(format!("C13/{}/malformed/panic", kind), msg),
        Ok(v) => {
            cc.outcome(&v);
            if v != vec![true, false] {
                let cols = line.split('\t').count();
                let sym = if !is_bed && cols > 9 {
                    "surplus-column-accepted".to_string()
                } else if !is_bed && cols == 9 && line.split('\t').nth(7).map(|p| p.parse::<u8>().is_ok()).unwrap_or(false) {
                    "invalid-phase-accepted".to_string()
                } else {
                    "not-reported-as-error".to_string()
                };
                cc.violation(format!("C13/{}/malformed/{}", kind, sym), format!("{:?} -> Ok flags {:?}, expected [true, false]", data, v));
            }
        }
    }
}

fn malformed_lines() -> Vec<(&'static str, &'static str)> {
    vec![
        ("gff", "chr1\ts\tgene\tx\t5\t.\t+\t0\tID=a"),
        ("gff", "chr1\ts\tgene\t1\t-5\t.\t+\t0\tID=a"),
        ("gff", "chr1\ts\tgene\t1\t5\t.\t+\t3\tID=a"),
        ("gff", "chr1\ts\tgene\t1\t5\t.\t+\t255\tID=a"),
        ("gff", "chr1\ts\tgene\t1\t5\t.\t+\tx\tID=a"),
        ("gff", "chr1\ts\tgene\t1\t5\t.\t+\t09\tID=a"),
        ("gff", "chr1\ts\tgene\t1\t5\t.\t+\t2x\tID=a"),
        ("gff", "chr1\ts\tgene\t1\t5\t.\t+\t.7\tID=a"),
        ("gff", "chr1\ts\tgene\t1\t5\t.\t+\t1 \tID=a"),
        ("gff", "chr1\ts\tgene\t1\t5\t.\t+\t-1\tID=a"),
        ("gff", "chr1\ts\tgene\t1\t5\t.\t+\t\tID=a"),
        ("gff", "chr1\ts\tgene\t1\t5\t.\t+\t0"),
        ("gff", "chr1\ts\tgene\t1\t5\t.\t+\t0\tID=a\textra"),
        ("gff", "chr1\ts\tgene\t1\t5\t.\t+\t0\t\tID=a"),
        ("gff", "chr1\ts\tgene\t1\t5\t.\t+"),
        ("gff", "chr1\ts\tgene\t1.5\t5\t.\t+\t0\tID=a"),
        ("gff", "chr1\ts\tgene\t1\t99999999999999999999\t.\t+\t0\tID=a"),
        ("bed", "chr1\tx\t5"),
        ("bed", "chr1\t1"),
        ("bed", "chr1\t1\t-5"),
        ("bed", "chr1\t1\t5\tname"),
        ("bed", "chr1"),
        ("bed", "chr1\t1.0\t5"),
        ("bed", "chr1\t1\t99999999999999999999"),
    ]
}

// ------------------------------------------------------------------ enumeration

const GFF_SHARDS: usize = 18;
const BED_SHARDS: usize = 10;
const CORR_SHARDS: usize = 6;

fn gff_records(d: Dialect) -> Vec<GffRec> {
    let mut v = vec![];
    let maps = attribute_maps(d);
    for (mi, m) in maps.iter().enumerate() {
        // the fixed columns cycle through their grid while every map is visited; the full
        // product is visited for the first 40 maps
        let full = mi < 40;
        let mut n = 0;
        for score in [".", "5", "0.5"] {
            for strand in [".", "+", "-"] {
                for phase in [None, Some(0u8), Some(1), Some(2)] {
                    n += 1;
                    if !full && n % 36 != mi % 36 {
                        continue;
                    }
                    v.push(GffRec { seqname: "chr1".into(), source: "src".into(), feature: "gene".into(), start: 3, end: 9, score: score.into(), strand: strand.into(), phase, attrs: m.clone() });
                }
            }
        }
    }
    // wide attribute columns: N pairs over few keys, values in an order that no sort reproduces
    // (library sorts switch algorithm with the slice length; per-key value order must survive)
    for (wi, m) in wide_attribute_maps(d).into_iter().enumerate() {
        v.push(GffRec {
            seqname: "chr1".into(),
            source: "src".into(),
            feature: "wide".into(),
            start: 3,
            end: 9,
            score: [".", "5"][wi % 2].into(),
            strand: ["+", "-", "."][wi % 3].into(),
            phase: [None, Some(0u8), Some(2)][wi % 3],
            attrs: m,
        });
    }
    v
}

fn wide_attribute_maps(d: Dialect) -> Vec<Vec<(String, String)>> {
    let keys: Vec<&str> = match d.gff3_like() {
        true => vec!["ID", "Note", "k 2", "x", "Parent"],
        false => vec!["ID", "Note", "gene_id", "x", "transcript_id"],
    };
    let mut maps = vec![];
    for &n in &[17usize, 20, 21, 31, 32, 33, 34, 48, 64, 65, 100, 129] {
        // values: a permutation of 0..n that is neither ascending nor descending, rendered with
        // varying width so that lexicographic and numeric order differ as well
        let val = |j: usize| format!("w{}", (j * 7 + 3) % n.max(1) * if j % 2 == 0 { 1 } else { 11 });
        // (a) round robin over the keys, (b) everything under one key, (c) two keys, long runs
        maps.push((0..n).map(|j| (keys[j % keys.len()].to_string(), val(j))).collect());
        maps.push((0..n).map(|j| (keys[1].to_string(), val(j))).collect());
        maps.push((0..n).map(|j| (keys[if (j / 9) % 2 == 0 { 3 } else { 0 }].to_string(), val(j))).collect());
    }
    maps
}

fn gff_unit(shard: usize, ctx: &mut Ctx) {
    let mut idx = 0usize;
    // record lists through one writer: every ordered pair and triple of five records
    for d in [Dialect::GFF3, Dialect::GFF2, Dialect::GTF2] {
        let recs = gff_list_records(d);
        let n = recs.len();
        let mut lists: Vec<Vec<usize>> = vec![];
        for a in 0..n {
            for b in 0..n {
                lists.push(vec![a, b]);
                for c in 0..n {
                    lists.push(vec![a, b, c]);
                }
            }
        }
        for l in lists {
            idx += 1;
            if idx % GFF_SHARDS != shard {
                continue;
            }
            let list: Vec<GffRec> = l.iter().map(|&i| recs[i].clone()).collect();
            ctx.case(|| json!({"kind": "gff-list", "dialect": d, "records": list}), |cc| gff_list_roundtrip(&list, d, cc));
        }
    }
    for d in [Dialect::GFF3, Dialect::GFF2, Dialect::GTF2] {
        for r in gff_records(d) {
            idx += 1;
            if idx % GFF_SHARDS != shard {
                continue;
            }
            ctx.case(|| json!({"kind": "gff", "dialect": d, "record": r}), |cc| gff_roundtrip(&r, d, cc));
        }
    }
}

fn bed_unit(tier: Tier, shard: usize, ctx: &mut Ctx) {
    let mut idx = 0usize;
    for k in 0..=4usize {
        let recs = bed_records(k);
        let n = recs.len();
        let mut lists: Vec<Vec<BedRec>> = recs.iter().map(|r| vec![r.clone()]).collect();
        let (si, sj) = tier.pick((3, 7), (1, 3));
        for i in (0..n).step_by(si) {
            for j in (0..n).step_by(sj) {
                lists.push(vec![recs[i].clone(), recs[(i + j) % n].clone()]);
            }
        }
        for i in (0..n).step_by(tier.pick(5, 2)) {
            lists.push(vec![recs[i].clone(), recs[(i * 7 + 3) % n].clone(), recs[(i * 5 + 11) % n].clone()]);
        }
        for list in &lists {
            for comments in 0..4u8 {
                if list.len() == 1 && comments == 2 {
                    continue;
                }
                idx += 1;
                if idx % BED_SHARDS != shard {
                    continue;
                }
                ctx.case(|| json!({"kind": "bed", "records": list, "comments": comments}), |cc| bed_roundtrip(list, comments, cc));
            }
        }
    }
}

fn corruption_unit(tier: Tier, shard: usize, ctx: &mut Ctx) {
    if shard == 0 {
        for (kind, line) in malformed_lines() {
            ctx.case(|| json!({"kind": "malformed", "format": kind, "line": line}), |cc| malformed_clause(kind, line, cc));
        }
    }
    let mut idx = 0usize;
    for (name, base) in corruption_bases() {
        let mut cs = vec![Corruption::None];
        for n in 0..base.len() {
            cs.push(Corruption::Truncate(n));
            cs.push(Corruption::Delete(n));
            for b in SUBST {
                if base[n] != b {
                    cs.push(Corruption::Subst(n, b));
                }
                cs.push(Corruption::Insert(n, b));
            }
        }
        for b in SUBST {
            cs.push(Corruption::Insert(base.len(), b));
        }
        if tier == Tier::Thorough {
            // every pair of single-byte substitutions
            for i in 0..base.len() {
                for j in i + 1..base.len() {
                    for b in SUBST {
                        if base[i] == b {
                            continue;
                        }
                        for c in SUBST {
                            if base[j] != c {
                                cs.push(Corruption::Subst2(i, b, j, c));
                            }
                        }
                    }
                }
            }
        }
        for c in cs {
            idx += 1;
            if idx % CORR_SHARDS != shard {
                continue;
            }
            ctx.case(|| json!({"kind": "corruption", "base": name, "base_bytes": show(&base), "corruption": c}), |cc| corruption_check(&name, &base, &c, cc));
        }
    }
}

const BEDAPI_SHARDS: usize = 2;
const GFFAPI_SHARDS: usize = 8;

/// public accessors / setters / conversions / file constructors of io::bed
fn bedapi_unit(shard: usize, unit_name: &str, ctx: &mut Ctx) {
    let mut idx = 0usize;
    let mut mine = move || {
        idx += 1;
        idx % BEDAPI_SHARDS == shard
    };
    for rec in bed_access_records() {
        if mine() {
            ctx.case(|| json!({"kind": "bed-access", "record": rec}), |cc| bed_access_case(&rec, cc));
        }
    }
    for (base, ops) in bed_set_cases() {
        if mine() {
            ctx.case(|| json!({"kind": "bed-set", "base": base, "ops": ops}), |cc| bed_set_case(&base, &ops, cc));
        }
    }
    for (refid, a, s) in bed_conv_cases() {
        if mine() {
            ctx.case(|| json!({"kind": "bed-conv", "refid": refid, "annot": a, "strand": s}), |cc| bed_conv_case(&refid, &a, s, cc));
        }
    }
    let dir = scratch_dir(unit_name);
    for list in bed_file_lists() {
        if mine() {
            ctx.case(|| json!({"kind": "bed-file", "records": list}), |cc| bed_file_case(&dir, &list, cc));
        }
    }
    if shard == 0 {
        ctx.case(|| json!({"kind": "missing-file"}), |cc| missing_file_case(&dir, cc));
    }
    let _ = std::fs::remove_dir_all(&dir);
}

const ANY_DIALECTS: [Dialect; 3] = [Dialect::AnyGFF3, Dialect::AnyGFF2, Dialect::AnyCustom];

/// getters of io::gff::Record, GffType::from_str, GffType::Any, Phase conversions, file constructors
fn gffapi_unit(tier: Tier, shard: usize, unit_name: &str, ctx: &mut Ctx) {
    let mut idx = 0usize;
    let mut mine = move || {
        idx += 1;
        idx % GFFAPI_SHARDS == shard
    };
    for name in TYPE_NAMES {
        if mine() {
            ctx.case(|| json!({"kind": "gff-type-str", "name": name}), |cc| gff_type_str_case(name, cc));
        }
    }
    for v in std::iter::once(None).chain((0..=255u8).map(Some)) {
        if mine() {
            ctx.case(|| json!({"kind": "phase-conv", "value": v}), |cc| phase_conv_case(v, cc));
        }
    }
    for val in phase_serde_values() {
        if mine() {
            ctx.case(|| json!({"kind": "phase-serde", "value": val}), |cc| phase_serde_case(&val, cc));
        }
    }
    if mine() {
        ctx.case(|| json!({"kind": "record-without-phase"}), record_without_phase_case);
    }
    for (kind, line) in missing_phase_lines() {
        if mine() {
            ctx.case(|| json!({"kind": "malformed", "format": kind, "line": line}), |cc| malformed_clause(kind, line, cc));
        }
    }
    for d in [Dialect::GFF3, Dialect::GFF2, Dialect::GTF2] {
        for r in gff_access_records(d) {
            if mine() {
                ctx.case(|| json!({"kind": "gff", "dialect": d, "record": r}), |cc| gff_roundtrip(&r, d, cc));
            }
        }
    }
    for d in ANY_DIALECTS {
        let (s1, s2) = tier.pick((13, 5), (5, 1));
        let recs: Vec<GffRec> = gff_records(d).into_iter().step_by(s1).chain(gff_access_records(d).into_iter().step_by(s2)).collect();
        for r in recs {
            if mine() {
                ctx.case(|| json!({"kind": "gff", "dialect": d, "record": r}), |cc| gff_roundtrip(&r, d, cc));
            }
        }
        let five = gff_list_records(d);
        for a in 0..five.len() {
            for b in 0..five.len() {
                if mine() {
                    let list = vec![five[a].clone(), five[b].clone()];
                    ctx.case(|| json!({"kind": "gff-list", "dialect": d, "records": list}), |cc| gff_list_roundtrip(&list, d, cc));
                }
            }
        }
    }
    let dir = scratch_dir(unit_name);
    for d in [Dialect::GFF3, Dialect::GFF2, Dialect::GTF2, Dialect::AnyCustom] {
        let five = gff_list_records(d);
        let mut lists: Vec<Vec<GffRec>> = vec![vec![]];
        for a in 0..five.len() {
            lists.push(vec![five[a].clone()]);
            for b in 0..five.len() {
                lists.push(vec![five[a].clone(), five[b].clone(), five[(a + b + 1) % five.len()].clone()]);
            }
        }
        for list in lists {
            if mine() {
                ctx.case(|| json!({"kind": "gff-file", "dialect": d, "records": list}), |cc| gff_file_case(&dir, &list, d, cc));
            }
        }
    }
    let _ = std::fs::remove_dir_all(&dir);
}

impl Prop for C13Prop {
    fn id(&self) -> &'static str {
        "C13"
    }
    fn level(&self) -> &'static str {
        "fault_enumeration"
    }
    fn rule(&self) -> &'static str {
        "BED: every record of a 5x3x8 grid per auxiliary column count k=0..4 as a single-record file, strided pairs and triples with a common k, four comment placements. GFF: three dialects x (score, strand, phase) grid x a family of attribute multimaps (empty, one pair, one key with 2-3 values, two keys interleaved); per record: writer conformance as a multiset of pairs, the reader on EVERY permutation of the written pairs (with and without trailing terminator), and end-to-end. every ordered pair and triple of five GFF records (with and without attributes) through one writer object. Corruptions: every truncation, every single-byte deletion, substitution and insertion from {TAB LF x 9 # . - 3} (thorough: also every PAIR of substitutions at two offsets) of six written files (3 GFF dialects, BED with 0/2/3 extra columns), judged by an independent line classifier: the Ok items must be, in order, a subsequence of the well-formed lines. 24 explicit malformed lines. Non-trivial: multi-valued or multi-key attributes; BED lists with quotes/empty fields/comments/several records; corruptions that change the classification of a line. Public API (units bedapi-*, gffapi-*, and extra assertions in the cases above): every BED/GFF record written is also compared with the record read back through the public getters (BED chrom/start/end/name/score/strand/aux(i); GFF seqname/source/feature_type/start/end/score/strand/phase). BED: a (name x score x strand x 0/1/6 further columns) grid incl. strands + - . empty and other text, each also converted to a Contig; set_name/set_score sequences of length 1-2 on records with 0..5 auxiliary columns against the documented column model and the push_aux route; From<Pos>/From<Contig>/From<Spliced> over positions, lengths, six strand values (ReqStrand, Strand, NoStrand) and every 1-3 exon structure over exon lengths {1,3,10} and intron lengths {1,5} plus the rustdoc example: record, record read back and Contig::from(&record) carry the coordinates/strand, BED12 columns as in the rustdoc/BED definition; Writer::to_file/Reader::from_file against Writer::new/Reader::new on the same records (private scratch directory), missing paths are errors. GFF: an 8 score x 4 strand x 4 phase grid with the other fixed columns cycling; GffType::from_str on the three names and six other strings; GffType::Any with the GFF3 triple and the GFF2/GTF2 triple (same round-trip checks, plus byte-identical output and identical parse as the built-in on the same record object and on a line with delimiter-joined values) and with the triple (: ! /); Phase::from for None and every u8, TryInto<u8>, TryInto<Option<u8>>, the phase through a written file; Phase deserialised from 14 texts and 5 non-text values, a serialised record without its phase field, three lines without a phase column; file constructors as for BED."
    }
    fn assumptions(&self) -> Vec<&'static str> {
        vec![
            "attribute keys and values are non-empty and free of the dialect's syntax characters (key/value delimiter, pair terminator, value delimiter, tab, line breaks, quote characters, leading blank in a key)",
            "a BED chrom starting with '#' is a comment line by the format and is excluded",
            "tolerated: a well-formed line rejected because an earlier line fixed another column count in the csv layer; an unterminated '#' fragment at end of input reported as an error",
            "on corrupted lines the attribute column is compared only when it is byte-identical to an original column",
            "annotation -> BED conversions: non-negative coordinates only (BED has no negative positions); the score of a converted record only has to be a BED score (integer 0..=1000), the item colour 0 or r,g,b, block lists with or without the trailing comma",
            "strand getters: '+' and '-' must be reported as forward and reverse, anything else as neither (None and an unknown strand are not distinguished)",
            "GffType::Any is exercised with delimiter bytes that are not regular-expression metacharacters",
            "file constructors use a private directory under the system temp dir, created and removed by the unit",
        ]
    }
    fn bounds(&self, tier: Tier) -> Value {
        json!({
            "gff_records": [gff_records(Dialect::GFF3).len(), gff_records(Dialect::GFF2).len(), gff_records(Dialect::GTF2).len()],
            "attribute_maps_per_dialect": attribute_maps(Dialect::GFF3).len(),
            "bed_k": "0..=4", "bed_list_strides": tier.pick("pairs (3,7) triples 5", "pairs (1,3) triples 2"),
            "corruption_bases": corruption_bases().iter().map(|(n, b)| format!("{}:{}B", n, b.len())).collect::<Vec<_>>(),
            "substitution_bytes": "TAB LF x 9 # . - 3",
            "bed_access_records": bed_access_records().len(),
            "bed_setter_cases": bed_set_cases().len(),
            "bed_conversion_cases": bed_conv_cases().len(),
            "bed_file_lists": bed_file_lists().len(),
            "gff_access_records_per_dialect": gff_access_records(Dialect::GFF3).len(),
            "gff_any_triples": ["= ; ,", "SPACE ; NUL", ": ! /"],
            "gff_any_record_strides": tier.pick("every 13th grid record, every 5th access record", "every 5th grid record, every access record"),
            "gff_type_names": TYPE_NAMES,
            "phase_values": "None, 0..=255",
        })
    }
    fn units(&self, _tier: Tier) -> Vec<String> {
        let mut v: Vec<String> = (0..GFF_SHARDS).map(|i| format!("gff-{}", i)).collect();
        v.extend((0..BED_SHARDS).map(|i| format!("bed-{}", i)));
        v.extend((0..CORR_SHARDS).map(|i| format!("corrupt-{}", i)));
        v.extend((0..BEDAPI_SHARDS).map(|i| format!("bedapi-{}", i)));
        v.extend((0..GFFAPI_SHARDS).map(|i| format!("gffapi-{}", i)));
        v
    }
    fn run_unit(&self, tier: Tier, unit: usize, ctx: &mut Ctx) {
        let old = GFF_SHARDS + BED_SHARDS + CORR_SHARDS;
        if unit < GFF_SHARDS {
            gff_unit(unit, ctx);
        } else if unit < GFF_SHARDS + BED_SHARDS {
            bed_unit(tier, unit - GFF_SHARDS, ctx);
        } else if unit < old {
            corruption_unit(tier, unit - GFF_SHARDS - BED_SHARDS, ctx);
        } else if unit < old + BEDAPI_SHARDS {
            bedapi_unit(unit - old, &format!("bedapi-{}", unit - old), ctx);
        } else if unit < old + BEDAPI_SHARDS + GFFAPI_SHARDS {
            let shard = unit - old - BEDAPI_SHARDS;
            gffapi_unit(tier, shard, &format!("gffapi-{}", shard), ctx);
        }
    }
    fn replay(&self, case: &Value, ctx: &mut Ctx) {
        match case["kind"].as_str().unwrap_or("") {
            "gff" => {
                let d: Dialect = serde_json::from_value(case["dialect"].clone()).unwrap();
                let r: GffRec = serde_json::from_value(case["record"].clone()).unwrap();
                ctx.case(|| case.clone(), |cc| gff_roundtrip(&r, d, cc));
            }
            "gff-list" => {
                let d: Dialect = serde_json::from_value(case["dialect"].clone()).unwrap();
                let list: Vec<GffRec> = serde_json::from_value(case["records"].clone()).unwrap();
                ctx.case(|| case.clone(), |cc| gff_list_roundtrip(&list, d, cc));
            }
            "bed" => {
                let list: Vec<BedRec> = serde_json::from_value(case["records"].clone()).unwrap();
                let comments = case["comments"].as_u64().unwrap() as u8;
                ctx.case(|| case.clone(), |cc| bed_roundtrip(&list, comments, cc));
            }
            "malformed" => {
                let kind = if case["format"] == "bed" { "bed" } else { "gff" };
                let line = case["line"].as_str().unwrap().to_string();
                ctx.case(|| case.clone(), |cc| malformed_clause(kind, &line, cc));
            }
            "bed-access" => {
                let rec: BedRec = serde_json::from_value(case["record"].clone()).unwrap();
                ctx.case(|| case.clone(), |cc| bed_access_case(&rec, cc));
            }
            "bed-set" => {
                let base: BedRec = serde_json::from_value(case["base"].clone()).unwrap();
                let ops: Vec<SetOp> = serde_json::from_value(case["ops"].clone()).unwrap();
                ctx.case(|| case.clone(), |cc| bed_set_case(&base, &ops, cc));
            }
            "bed-conv" => {
                let refid = case["refid"].as_str().unwrap().to_string();
                let a: Annot = serde_json::from_value(case["annot"].clone()).unwrap();
                let s: StrandIn = serde_json::from_value(case["strand"].clone()).unwrap();
                ctx.case(|| case.clone(), |cc| bed_conv_case(&refid, &a, s, cc));
            }
            "bed-file" => {
                let list: Vec<BedRec> = serde_json::from_value(case["records"].clone()).unwrap();
                let dir = scratch_dir("replay");
                ctx.case(|| case.clone(), |cc| bed_file_case(&dir, &list, cc));
                let _ = std::fs::remove_dir_all(&dir);
            }
            "missing-file" => {
                let dir = scratch_dir("replay");
                ctx.case(|| case.clone(), |cc| missing_file_case(&dir, cc));
                let _ = std::fs::remove_dir_all(&dir);
            }
            "gff-file" => {
                let d: Dialect = serde_json::from_value(case["dialect"].clone()).unwrap();
                let list: Vec<GffRec> = serde_json::from_value(case["records"].clone()).unwrap();
                let dir = scratch_dir("replay");
                ctx.case(|| case.clone(), |cc| gff_file_case(&dir, &list, d, cc));
                let _ = std::fs::remove_dir_all(&dir);
            }
            "gff-type-str" => {
                let name = case["name"].as_str().unwrap().to_string();
                ctx.case(|| case.clone(), |cc| gff_type_str_case(&name, cc));
            }
            "phase-conv" => {
                let v: Option<u8> = serde_json::from_value(case["value"].clone()).unwrap();
                ctx.case(|| case.clone(), |cc| phase_conv_case(v, cc));
            }
            "phase-serde" => {
                let val = case["value"].clone();
                ctx.case(|| case.clone(), |cc| phase_serde_case(&val, cc));
            }
            "record-without-phase" => {
                ctx.case(|| case.clone(), record_without_phase_case);
            }
            "corruption" => {
                let name = case["base"].as_str().unwrap().to_string();
                let base = unshow(case["base_bytes"].as_str().unwrap());
                let c: Corruption = serde_json::from_value(case["corruption"].clone()).unwrap();
                ctx.case(|| case.clone(), |cc| corruption_check(&name, &base, &c, cc));
            }
            _ => {}
        }
    }
}
