//! C12 — indexed FASTA random access returns exactly the requested slice.
//! K3 (+K2): every (record, start, stop), both reading APIs, every fragmentation schedule of a
//! family (uniform + deviation-bounded), fetch/read histories on one reader, error clauses, and
//! every truncation offset of the file with the index left intact.

use super::Prop;
use crate::ctx::{guard, CaseCtx, Ctx, Tier};
use crate::env::{Env, Schedule};
use bio::io::fasta::{Index, IndexedReader};
use serde::{Deserialize, Serialize};
use serde_json::{json, Value};

pub struct C12Prop;
pub static C12: C12Prop = C12Prop;

#[derive(Clone, Debug, PartialEq, Eq, Serialize, Deserialize)]
struct FileCfg {
    width: usize,
    crlf: bool,
    lens: Vec<usize>,
    /// header line of record i is "><name i>" plus this suffix (exercises the offsets)
    header_suffix: String,
    /// record names; default s1, s2, ...
    #[serde(default)]
    names: Vec<String>,
}

impl FileCfg {
    fn name(&self, r: usize) -> String {
        self.names.get(r).cloned().unwrap_or_else(|| format!("s{}", r + 1))
    }
}

fn seq_of(rec: usize, len: usize) -> Vec<u8> {
    // printable, no line breaks, no short period: a shift by one position, by one line, or by a
    // line terminator changes the bytes
    (0..len)
        .map(|i| b'!' + ((i * 7 + i / 13 + (i * i) % 5 + rec * 11) % 90) as u8)
        .collect()
}

fn build(cfg: &FileCfg) -> (Vec<u8>, String, Vec<Vec<u8>>) {
    let nl: &[u8] = if cfg.crlf { b"\r\n" } else { b"\n" };
    let mut file = vec![];
    let mut fai = String::new();
    let mut seqs = vec![];
    for (r, &len) in cfg.lens.iter().enumerate() {
        let s = seq_of(r, len);
        file.extend_from_slice(format!(">{}{}", cfg.name(r), cfg.header_suffix).as_bytes());
        file.extend_from_slice(nl);
        let off = file.len();
        for ch in s.chunks(cfg.width) {
            file.extend_from_slice(ch);
            file.extend_from_slice(nl);
        }
        fai.push_str(&format!("{}\t{}\t{}\t{}\t{}\n", cfg.name(r), len, off, cfg.width, cfg.width + nl.len()));
        seqs.push(s);
    }
    (file, fai, seqs)
}

#[derive(Clone, Copy, Debug, PartialEq, Eq, Serialize, Deserialize)]
enum How {
    /// fetch(name) + read(&mut buf)
    NameRead,
    /// fetch_by_rid + read_iter().collect()
    RidIter,
    /// fetch(name) + read_iter
    NameIter,
    /// fetch_by_rid + read
    RidRead,
}

#[derive(Clone, Debug, Serialize, Deserialize)]
struct Query {
    rec: usize,
    start: u64,
    stop: u64,
    how: How,
}

fn run_query<R: std::io::Read + std::io::Seek>(rd: &mut IndexedReader<R>, q: &Query, cfg: &FileCfg) -> std::io::Result<Vec<u8>> {
    let name = cfg.name(q.rec);
    match q.how {
        How::NameRead | How::NameIter => rd.fetch(&name, q.start, q.stop)?,
        How::RidIter | How::RidRead => rd.fetch_by_rid(q.rec, q.start, q.stop)?,
    }
    match q.how {
        How::NameRead | How::RidRead => {
            let mut out = vec![b'#'; 3]; // stale content must be cleared by read()
            rd.read(&mut out)?;
            Ok(out)
        }
        How::RidIter | How::NameIter => rd.read_iter()?.collect(),
    }
}

fn fname(cfg: &FileCfg) -> &'static str {
    if cfg.crlf {
        "crlf"
    } else {
        "lf"
    }
}

fn query_check(cfg: &FileCfg, sched: &Schedule, q: &Query, truncate_at: Option<usize>, cc: &mut CaseCtx) {
    let (file, fai, seqs) = build(cfg);
    let data: &[u8] = match truncate_at {
        Some(t) => &file[..t.min(file.len())],
        None => &file,
    };
    let want = seqs[q.rec][q.start as usize..q.stop as usize].to_vec();
    let crosses_line = (q.start as usize / cfg.width) != ((q.stop as usize).saturating_sub(1) / cfg.width) && q.stop > q.start;
    cc.set_nontrivial(crosses_line || truncate_at.is_some());
    let r = guard(|| {
        let index = Index::new(fai.as_bytes()).expect("index parses");
        let mut rd = IndexedReader::with_index(Env::new(data, sched.clone()).with_max_calls(200 + 40 * file.len()), index);
        run_query(&mut rd, q, cfg).map_err(|e| e.to_string())
    });
    let class = if truncate_at.is_some() { "truncated" } else { "complete" };
    match r {
        Err(msg) => {
            let sym = if msg.contains("no termination") { "no-termination" } else { "panic" };
            cc.violation(format!("C12/{}/{}", class, sym), msg)
        }
        Ok(Ok(got)) => {
            cc.outcome(&(true, got.len()));
            if got != want {
                let sym = if got.len() < want.len() { "short-data" } else if got.len() == want.len() { "shifted-or-wrong-data" } else { "too-much-data" };
                cc.violation(
                    format!("C12/{}/{}/{}", class, fname(cfg), sym),
                    format!("got {:?} expected {:?}", String::from_utf8_lossy(&got), String::from_utf8_lossy(&want)),
                );
            }
        }
        Ok(Err(e)) => {
            cc.outcome(&(false, 0usize));
            if truncate_at.is_none() {
                cc.violation(format!("C12/complete/{}/error-on-valid-query", fname(cfg)), e);
            }
            // on a truncated file an error is accepted (required when data is missing; when the
            // slice happens to be fully present an error is tolerated: "a file shorter than the
            // index promises yields an error")
        }
    }
}

#[derive(Clone, Debug, Serialize, Deserialize)]
enum Op {
    Q(Query),
    /// fetch + read_iter, consume only k items, drop the iterator
    Partial(Query, usize),
    /// read again WITHOUT a new fetch (true: read(), false: read_iter()): the reader still holds
    /// the last fetched interval, so the same slice must come back
    Again(bool),
    /// a fetch that must fail (true: unknown name, false: record number out of range) carrying
    /// an interval of its own; whatever the reader does afterwards, it must not hand out a slice
    /// that no successful fetch asked for
    BadFetch(bool, u64, u64),
}

fn history_check(cfg: &FileCfg, sched: &Schedule, ops: &[Op], cc: &mut CaseCtx) {
    let (file, fai, seqs) = build(cfg);
    cc.nontrivial();
    cc.add_transitions(ops.len() as u64);
    cc.add_traces(1);
    let r = guard(|| {
        let index = Index::new(fai.as_bytes()).expect("index parses");
        let mut rd = IndexedReader::with_index(Env::new(&file, sched.clone()).with_max_calls(400 + 100 * file.len()), index);
        let mut outs: Vec<Result<Vec<u8>, String>> = vec![];
        for op in ops {
            match op {
                Op::Again(use_read) => {
                    let r = if *use_read {
                        let mut out = vec![b'#'; 2];
                        rd.read(&mut out).map(|_| out)
                    } else {
                        rd.read_iter().and_then(|it| it.collect::<std::io::Result<Vec<u8>>>())
                    };
                    outs.push(r.map_err(|e| e.to_string()));
                }
                Op::BadFetch(by_name, start, stop) => {
                    let r = if *by_name { rd.fetch("no-such-record", *start, *stop) } else { rd.fetch_by_rid(cfg.lens.len() + 3, *start, *stop) };
                    outs.push(r.map(|_| b"fetch accepted".to_vec()).map_err(|e| e.to_string()));
                }
                Op::Q(q) => outs.push(run_query(&mut rd, q, cfg).map_err(|e| e.to_string())),
                Op::Partial(q, k) => {
                    let r = (|| -> std::io::Result<Vec<u8>> {
                        rd.fetch_by_rid(q.rec, q.start, q.stop)?;
                        let mut it = rd.read_iter()?;
                        let mut v = vec![];
                        for _ in 0..*k {
                            match it.next() {
                                Some(b) => v.push(b?),
                                None => break,
                            }
                        }
                        Ok(v)
                    })();
                    outs.push(r.map_err(|e| e.to_string()));
                }
            }
        }
        outs
    });
    match r {
        Err(msg) => cc.violation("C12/history/panic", msg),
        Ok(outs) => {
            cc.outcome(&outs);
            let mut fetched: Option<Vec<u8>> = None;
            let mut after_bad_fetch = false;
            for (i, (op, out)) in ops.iter().zip(&outs).enumerate() {
                if let Op::BadFetch(..) = op {
                    if out.is_ok() {
                        cc.violation("C12/history/bad-fetch-accepted", format!("operation #{} (fetch of an unknown record) returned Ok", i));
                        return;
                    }
                    after_bad_fetch = true;
                    continue;
                }
                if let (Op::Again(_), true, Err(_)) = (op, after_bad_fetch, out) {
                    // refusing to read after a failed fetch is as good as keeping the old interval
                    continue;
                }
                if !matches!(op, Op::Again(_)) {
                    after_bad_fetch = false;
                }
                let want = match op {
                    Op::BadFetch(..) => unreachable!(),
                    Op::Q(q) => {
                        let w = seqs[q.rec][q.start as usize..q.stop as usize].to_vec();
                        fetched = Some(w.clone());
                        w
                    }
                    Op::Partial(q, k) => {
                        let s = &seqs[q.rec][q.start as usize..q.stop as usize];
                        fetched = Some(s.to_vec());
                        s[..(*k).min(s.len())].to_vec()
                    }
                    Op::Again(_) => match &fetched {
                        Some(w) => w.clone(),
                        None => {
                            // nothing fetched yet: reading must be refused
                            if out.is_ok() {
                                cc.violation("C12/history/read-without-fetch-answered", format!("operation #{} returned {:?}", i, out));
                                return;
                            }
                            continue;
                        }
                    },
                };
                if out.as_ref().ok() != Some(&want) {
                    cc.violation(
                        "C12/history/fetch-depends-on-earlier-calls",
                        format!("operation #{} returned {:?}, expected {:?}", i, out.as_ref().map(|v| String::from_utf8_lossy(v).to_string()), String::from_utf8_lossy(&want)),
                    );
                    return;
                }
            }
        }
    }
}

fn error_clauses(cfg: &FileCfg, cc: &mut CaseCtx) {
    let (file, fai, _seqs) = build(cfg);
    cc.nontrivial();
    let len0 = cfg.lens[0] as u64;
    let r = guard(|| {
        let mut v: Vec<(&'static str, bool)> = vec![];
        let mk = || IndexedReader::new(Env::new(&file, Schedule::Uniform(usize::MAX)), fai.as_bytes()).unwrap();
        let mut buf = vec![];
        // reading without a fetch
        let mut rd = mk();
        v.push(("read-without-fetch", rd.read(&mut buf).is_err()));
        let mut rd = mk();
        v.push(("read_iter-without-fetch", rd.read_iter().is_err()));
        // unknown name / rid
        let mut rd = mk();
        v.push(("unknown-name", rd.fetch("nope", 0, 0).is_err() && rd.fetch_all("nope").is_err()));
        let n0 = cfg.name(0);
        let n0 = n0.as_str();
        let mut rd = mk();
        v.push(("rid-out-of-range", rd.fetch_by_rid(cfg.lens.len(), 0, 0).is_err() && rd.fetch_all_by_rid(cfg.lens.len() + 7).is_err()));
        // inverted interval
        if len0 >= 1 {
            let mut rd = mk();
            let f = rd.fetch(n0, 1, 0);
            v.push(("inverted-interval", f.is_err() || rd.read(&mut buf).is_err()));
            let mut rd = mk();
            let f = rd.fetch(n0, 1, 0);
            v.push(("inverted-interval-iter", f.is_err() || rd.read_iter().is_err()));
        }
        // out of range
        let mut rd = mk();
        let f = rd.fetch(n0, 0, len0 + 1);
        v.push(("stop-beyond-length", f.is_err() || rd.read(&mut buf).is_err()));
        let mut rd = mk();
        let f = rd.fetch_by_rid(0, len0 + 1, len0 + 2);
        v.push(("start-beyond-length", f.is_err() || rd.read_iter().is_err()));
        let mut rd = mk();
        let f = rd.fetch_by_rid(0, len0 + 3, len0 + 1);
        v.push(("inverted-and-beyond-length", f.is_err() || rd.read(&mut buf).is_err()));
        // fetch_all
        let mut rd = mk();
        let ok_all = rd.fetch_all(n0).is_ok() && rd.read(&mut buf).is_ok() && buf == seq_of(0, cfg.lens[0]);
        v.push(("fetch_all", ok_all));
        let mut rd = mk();
        let last = cfg.lens.len() - 1;
        let ok_all = rd.fetch_all_by_rid(last).is_ok() && rd.read_iter().and_then(|it| it.collect::<std::io::Result<Vec<u8>>>()).ok() == Some(seq_of(last, cfg.lens[last]));
        v.push(("fetch_all_by_rid", ok_all));
        v
    });
    match r {
        Err(msg) => cc.violation("C12/errors/panic-instead-of-error", msg),
        Ok(v) => {
            cc.outcome(&v);
            for (name, ok) in v {
                if !ok {
                    cc.violation(format!("C12/errors/{}", name), "clause does not hold".to_string());
                }
            }
        }
    }
}

// ------------------------------------------------------------------ enumeration

fn small_files(tier: Tier) -> Vec<FileCfg> {
    let mut v = vec![];
    let widths: &[usize] = &[1, 2, 3, 4, 5, 7];
    let l1: &[usize] = match tier {
        Tier::Quick => &[1, 2, 5, 7, 11],
        Tier::Thorough => &[1, 2, 5, 7, 11, 13],
    };
    for &w in widths {
        for crlf in [false, true] {
            for &a in l1 {
                for &b in &[1usize, 6] {
                    v.push(FileCfg { width: w, crlf, lens: vec![a, b], header_suffix: if (a + b + w) % 2 == 0 { String::new() } else { " some description".into() }, names: match (a + w) % 3 { 0 => vec![], 1 => vec!["#1".into(), "chr|2;x".into()], _ => vec!["\u{e9}".into(), "\"q\"x".into()] } });
                }
            }
        }
    }
    v
}

fn wide_files() -> Vec<FileCfg> {
    let mut v = vec![];
    for &w in &[60usize, 511, 512, 513, 600] {
        for crlf in [false, true] {
            v.push(FileCfg { width: w, crlf, lens: vec![1300, 700], header_suffix: String::new(), names: vec![] });
        }
    }
    v
}

/// upper estimate of the number of read() calls of the default (unbounded-answer) run of a
/// query: one fill per line touched plus the EOF probe; deviations are placed at these calls
fn default_calls(cfg: &FileCfg, q: &Query) -> usize {
    let lines = ((q.stop as usize).saturating_sub(1) / cfg.width + 1).saturating_sub((q.start as usize) / cfg.width).max(1);
    lines + 2
}

fn schedules_for(cfg: &FileCfg, q: &Query, tier: Tier) -> Vec<Schedule> {
    let mut v = vec![
        Schedule::Uniform(1),
        Schedule::Uniform(2),
        Schedule::Uniform(3),
        Schedule::Cycle(vec![1, 3]),
        Schedule::Cycle(vec![2, 1, 1]),
        Schedule::Uniform(usize::MAX),
    ];
    // with unbounded default answers the reader issues one fill after the seek; short answers at
    // the first calls then decide how every later line arrives
    let n = default_calls(cfg, q).min(tier.pick(5, 7));
    for i in 0..n {
        for s in 1..=3usize {
            v.push(Schedule::At(vec![(i, s)]));
        }
    }
    if tier == Tier::Thorough {
        for i in 0..n {
            for j in i + 1..n {
                for s in 1..=3usize {
                    for t in 1..=3usize {
                        v.push(Schedule::At(vec![(i, s), (j, t)]));
                    }
                }
            }
        }
    }
    v
}

const SMALL_SHARDS: usize = 32;

fn small_unit(tier: Tier, shard: usize, ctx: &mut Ctx) {
    for (fi, cfg) in small_files(tier).iter().enumerate() {
        if fi % SMALL_SHARDS != shard {
            continue;
        }
        ctx.case(|| json!({"kind": "errors", "file": cfg}), |cc| error_clauses(cfg, cc));
        let (file, _, _) = build(cfg);
        for (rec, &len) in cfg.lens.iter().enumerate() {
            for start in 0..=len {
                for stop in start..=len {
                    for how in [How::NameRead, How::RidIter] {
                        let q = Query { rec, start: start as u64, stop: stop as u64, how };
                        for sched in schedules_for(cfg, &q, tier) {
                            ctx.case(|| json!({"kind": "query", "file": cfg, "sched": sched, "query": q}), |cc| query_check(cfg, &sched, &q, None, cc));
                        }
                    }
                    // the two other API pairings on the default schedule
                    for how in [How::NameIter, How::RidRead] {
                        let q = Query { rec, start: start as u64, stop: stop as u64, how };
                        let sched = Schedule::Uniform(2);
                        ctx.case(|| json!({"kind": "query", "file": cfg, "sched": sched, "query": q}), |cc| query_check(cfg, &sched, &q, None, cc));
                    }
                    // every truncation offset, index intact
                    if (start + stop + fi) % tier.pick(2, 1) == 0 {
                        for cut in 0..file.len() {
                            for (how, sched) in [(How::NameRead, Schedule::Uniform(usize::MAX)), (How::RidIter, Schedule::Uniform(2))] {
                                let q = Query { rec, start: start as u64, stop: stop as u64, how };
                                ctx.case(|| json!({"kind": "query", "file": cfg, "sched": sched, "query": q, "truncate_at": cut}), |cc| query_check(cfg, &sched, &q, Some(cut), cc));
                            }
                        }
                    }
                }
            }
        }
        if ctx.res.capped {
            return;
        }
    }
}

fn history_ops(cfg: &FileCfg) -> Vec<Op> {
    let (a, b) = (cfg.lens[0] as u64, cfg.lens[1] as u64);
    let mut v = vec![];
    let qs = [
        Query { rec: 0, start: 0, stop: a, how: How::NameRead },
        Query { rec: 0, start: a / 2, stop: a, how: How::RidIter },
        Query { rec: 1, start: 0, stop: b, how: How::RidIter },
        Query { rec: 1, start: 1.min(b), stop: b, how: How::NameRead },
        Query { rec: 0, start: 0, stop: 0, how: How::NameRead },
        Query { rec: 1, start: b, stop: b, how: How::RidIter },
        Query { rec: 0, start: 1.min(a), stop: (a / 2 + 1).min(a).max(1.min(a)), how: How::RidRead },
    ];
    for q in qs.iter() {
        v.push(Op::Q(q.clone()));
    }
    v.push(Op::Partial(qs[0].clone(), 1));
    v.push(Op::Partial(qs[2].clone(), 2));
    v.push(Op::Partial(qs[0].clone(), (a / 2) as usize + 1));
    v.push(Op::Again(true));
    v.push(Op::Again(false));
    v.push(Op::BadFetch(true, 1.min(a), a));
    v.push(Op::BadFetch(false, 0, (a / 2).max(1)));
    v
}

fn history_unit(tier: Tier, shard: usize, nshards: usize, ctx: &mut Ctx) {
    let depth = tier.pick(3, 4);
    let files: Vec<FileCfg> = small_files(tier).into_iter().filter(|c| c.lens[0] >= 5).collect();
    for (fi, cfg) in files.iter().enumerate() {
        if fi % nshards != shard {
            continue;
        }
        let ops = history_ops(cfg);
        let radices = vec![ops.len(); depth];
        for sched in [Schedule::Uniform(usize::MAX), Schedule::Uniform(1), Schedule::Cycle(vec![1, 3])] {
            crate::gen::odometer(&radices, |d| {
                let seq: Vec<Op> = d.iter().map(|&i| ops[i].clone()).collect();
                ctx.case(|| json!({"kind": "history", "file": cfg, "sched": sched, "ops": seq}), |cc| history_check(cfg, &sched, &seq, cc));
            });
        }
        if ctx.res.capped {
            return;
        }
    }
}

fn wide_unit(tier: Tier, idx: usize, ctx: &mut Ctx) {
    let files = wide_files();
    let cfg = &files[idx];
    let w = cfg.width;
    let len = cfg.lens[0];
    let mut marks = vec![0usize, 1, len - 1, len];
    for m in [w, 2 * w, 512, 1024, 513, 8192 % len] {
        for d in 0..=2usize {
            if m + d <= len {
                marks.push(m + d);
            }
            if m >= d {
                marks.push(m - d);
            }
        }
    }
    marks.sort();
    marks.dedup();
    let scheds = match tier {
        Tier::Quick => vec![Schedule::Uniform(7), Schedule::Cycle(vec![100, 3]), Schedule::Uniform(usize::MAX)],
        Tier::Thorough => vec![Schedule::Uniform(1), Schedule::Uniform(7), Schedule::Cycle(vec![100, 3]), Schedule::Uniform(511), Schedule::Uniform(513), Schedule::Uniform(usize::MAX)],
    };
    ctx.case(|| json!({"kind": "errors", "file": cfg}), |cc| error_clauses(cfg, cc));
    for sched in &scheds {
        for &s in &marks {
            for &e in &marks {
                if s > e {
                    continue;
                }
                for how in [How::NameRead, How::RidIter] {
                    let q = Query { rec: 0, start: s as u64, stop: e as u64, how };
                    ctx.case(|| json!({"kind": "query", "file": cfg, "sched": sched, "query": q}), |cc| query_check(cfg, sched, &q, None, cc));
                }
            }
        }
        // second record (after a long first one) on a few intervals
        for (s, e) in [(0usize, 700usize), (w.min(699), 700), (1, w.min(700))] {
            let q = Query { rec: 1, start: s as u64, stop: e as u64, how: How::RidIter };
            ctx.case(|| json!({"kind": "query", "file": cfg, "sched": sched, "query": q}), |cc| query_check(cfg, sched, &q, None, cc));
        }
    }
}

const HISTORY_SHARDS: usize = 8;

// ================================================================== path constructors, Index
// accessors, malformed index rows and injected I/O errors (appended units; everything above is
// unchanged)

use std::cell::Cell;
use std::io::{self, Read, Seek, SeekFrom};
use std::path::{Path, PathBuf};

/// scratch directory of one unit; removed when dropped
struct TempDir(PathBuf);

impl TempDir {
    fn new(tag: &str) -> TempDir {
        let p = std::env::temp_dir().join(format!("bmc-{}-{}", std::process::id(), tag));
        let _ = std::fs::remove_dir_all(&p);
        if let Err(e) = std::fs::create_dir_all(&p) {
            // no verdict is possible without a scratch directory
            panic!("cannot create scratch directory {:?}: {}", p, e);
        }
        TempDir(p)
    }
    fn path(&self) -> &Path {
        &self.0
    }
}

impl Drop for TempDir {
    fn drop(&mut self) {
        let _ = std::fs::remove_dir_all(&self.0);
    }
}

/// files with 0, 1 and 5 records whose names are not in sorted order (for `sequences()`)
fn extra_files() -> Vec<FileCfg> {
    vec![
        FileCfg { width: 2, crlf: false, lens: vec![], header_suffix: String::new(), names: vec![] },
        FileCfg { width: 3, crlf: true, lens: vec![4], header_suffix: " d".into(), names: vec!["only".into()] },
        FileCfg { width: 2, crlf: false, lens: vec![3, 1, 2, 5, 4], header_suffix: String::new(), names: vec!["zz".into(), "b".into(), "a".into(), "m".into(), "B".into()] },
        FileCfg { width: 4, crlf: true, lens: vec![9, 2, 7], header_suffix: " x y".into(), names: vec!["s3".into(), "s1".into(), "s2".into()] },
    ]
}

fn api_files(tier: Tier) -> Vec<FileCfg> {
    let mut v = small_files(tier);
    v.extend(wide_files());
    v.extend(extra_files());
    v
}

/// a few intervals per record through all four API pairings
fn probe_queries(cfg: &FileCfg) -> Vec<Query> {
    let mut v = vec![];
    for (rec, &len) in cfg.lens.iter().enumerate() {
        let len = len as u64;
        for (i, (s, e)) in [(0, len), (len / 2, len), (0, 0), (1.min(len), len), (0, (len / 2 + 1).min(len))].into_iter().enumerate() {
            let how = [How::NameRead, How::RidIter, How::NameIter, How::RidRead][(i + rec) % 4];
            v.push(Query { rec, start: s, stop: e, how });
        }
    }
    v
}

/// run the probe queries; Err(description) for the first one that does not return its slice
fn probe<R: Read + Seek>(rd: &mut IndexedReader<R>, cfg: &FileCfg, seqs: &[Vec<u8>]) -> Result<usize, String> {
    let mut n = 0;
    for q in probe_queries(cfg) {
        let want = &seqs[q.rec][q.start as usize..q.stop as usize];
        match run_query(rd, &q, cfg) {
            Ok(got) if got == want => n += got.len(),
            other => return Err(format!("{:?}: {:?}, expected {:?}", q, other.map(|v| String::from_utf8_lossy(&v).to_string()).map_err(|e| e.to_string()), String::from_utf8_lossy(want))),
        }
    }
    Ok(n)
}

/// Index::new / IndexedReader::new / with_index agree, and sequences() lists (name, len) of every
/// row in file order
fn index_api_check(cfg: &FileCfg, cc: &mut CaseCtx) {
    let (file, fai, seqs) = build(cfg);
    cc.set_nontrivial(cfg.lens.len() != 1);
    let want: Vec<(String, u64)> = cfg.lens.iter().enumerate().map(|(r, &l)| (cfg.name(r), l as u64)).collect();
    let r = guard(|| {
        let mut viol: Vec<(String, String)> = vec![];
        let index = match Index::new(fai.as_bytes()) {
            Ok(i) => i,
            Err(e) => {
                viol.push(("C12/index/new/error-on-valid-index".to_string(), e.to_string()));
                return viol;
            }
        };
        // the same text parsed several times: an order that depends on a per-instance hash seed
        // shows up reproducibly
        let mut got: Vec<(String, u64)> = index.sequences().into_iter().map(|s| (s.name, s.len)).collect();
        for _ in 0..16 {
            if got != want {
                break;
            }
            got = match Index::new(fai.as_bytes()) {
                Ok(i) => i.sequences().into_iter().map(|s| (s.name, s.len)).collect(),
                Err(_) => break,
            };
        }
        if got != want {
            let sym = if got.len() != want.len() {
                "row-count-differs"
            } else {
                let (mut a, mut b) = (got.clone(), want.clone());
                a.sort();
                b.sort();
                if a == b { "not-in-file-order" } else { "name-or-len-differs" }
            };
            viol.push((format!("C12/index/sequences/{}", sym), format!("{:?}, index rows {:?}", got, want)));
        }
        match IndexedReader::new(Env::new(&file, Schedule::Uniform(usize::MAX)), fai.as_bytes()) {
            Err(e) => viol.push(("C12/indexed-reader/new/error-on-valid-index".to_string(), e.to_string())),
            Ok(mut rd) => {
                if rd.index != index {
                    viol.push(("C12/indexed-reader/new/index-differs-from-index-new".to_string(), format!("{:?} vs {:?}", rd.index, index)));
                }
                if let Err(d) = probe(&mut rd, cfg, &seqs) {
                    viol.push(("C12/indexed-reader/new/wrong-data".to_string(), d));
                }
            }
        }
        let mut rd = IndexedReader::with_index(Env::new(&file, Schedule::Uniform(usize::MAX)), index.clone());
        if rd.index != index {
            viol.push(("C12/indexed-reader/with_index/index-differs".to_string(), String::new()));
        }
        if let Err(d) = probe(&mut rd, cfg, &seqs) {
            viol.push(("C12/indexed-reader/with_index/wrong-data".to_string(), d));
        }
        viol
    });
    match r {
        Err(msg) => cc.violation("C12/index/api/panic", msg),
        Ok(viol) => {
            cc.outcome(&want);
            for (k, d) in viol {
                cc.violation(k, d);
            }
        }
    }
}

/// Index::from_file, Index::with_fasta_file (= "<fasta path>.fai") and IndexedReader::from_file
/// against the in-memory constructors
fn index_file_check(dir: &Path, cfg: &FileCfg, fasta_name: &str, cc: &mut CaseCtx) {
    let (file, fai, seqs) = build(cfg);
    cc.nontrivial();
    let fa = dir.join(fasta_name);
    let fai_path = dir.join(format!("{}.fai", fasta_name));
    let r = guard(|| {
        let mut viol: Vec<(String, String)> = vec![];
        std::fs::write(&fa, &file).expect("scratch file is writable");
        std::fs::write(&fai_path, fai.as_bytes()).expect("scratch file is writable");
        let index = Index::new(fai.as_bytes()).expect("index parses");
        match Index::from_file(&fai_path) {
            Err(e) => viol.push(("C12/index/from_file/error-on-existing-file".to_string(), format!("{:#}", e))),
            Ok(i) => {
                if i != index {
                    viol.push(("C12/index/from_file/differs-from-index-new".to_string(), format!("{:?} vs {:?}", i, index)));
                }
            }
        }
        match Index::with_fasta_file(&fa) {
            Err(e) => viol.push(("C12/index/with_fasta_file/error-although-fai-exists".to_string(), format!("{:?}: {:#}", fai_path, e))),
            Ok(i) => {
                if i != index {
                    viol.push(("C12/index/with_fasta_file/differs-from-index-new".to_string(), format!("{:?} vs {:?}", i, index)));
                }
            }
        }
        match IndexedReader::from_file(&fa) {
            Err(e) => viol.push(("C12/indexed-reader/from_file/error-on-existing-files".to_string(), format!("{:#}", e))),
            Ok(mut rd) => {
                if rd.index != index {
                    viol.push(("C12/indexed-reader/from_file/index-differs-from-index-new".to_string(), format!("{:?} vs {:?}", rd.index, index)));
                }
                if let Err(d) = probe(&mut rd, cfg, &seqs) {
                    viol.push(("C12/indexed-reader/from_file/wrong-data".to_string(), d));
                }
            }
        }
        let _ = std::fs::remove_file(&fa);
        let _ = std::fs::remove_file(&fai_path);
        viol
    });
    match r {
        Err(msg) => cc.violation("C12/index/file-constructors/panic", msg),
        Ok(viol) => {
            cc.outcome(&(cfg.lens.len(), fasta_name.len()));
            for (k, d) in viol {
                cc.violation(k, d);
            }
        }
    }
}

/// missing files give Err from every path constructor
fn index_missing_check(dir: &Path, cc: &mut CaseCtx) {
    cc.nontrivial();
    let cfg = FileCfg { width: 3, crlf: false, lens: vec![5, 2], header_suffix: String::new(), names: vec![] };
    let (file, fai, _) = build(&cfg);
    let r = guard(|| {
        let mut oks: Vec<(&'static str, bool)> = vec![];
        let nothing = dir.join("nothing.fa");
        let _ = std::fs::remove_file(&nothing);
        let nothing_fai = dir.join("nothing.fa.fai");
        let _ = std::fs::remove_file(&nothing_fai);
        oks.push(("index/from_file/ok-on-missing-path", Index::from_file(&nothing_fai).is_ok()));
        oks.push(("index/with_fasta_file/ok-on-missing-fai", Index::with_fasta_file(&nothing).is_ok()));
        oks.push(("indexed-reader/from_file/ok-on-missing-files", IndexedReader::from_file(&nothing).is_ok()));
        // fasta present, index missing
        let only_fa = dir.join("only.fa");
        std::fs::write(&only_fa, &file).expect("scratch file is writable");
        let _ = std::fs::remove_file(dir.join("only.fa.fai"));
        oks.push(("index/with_fasta_file/ok-on-missing-fai", Index::with_fasta_file(&only_fa).is_ok()));
        oks.push(("indexed-reader/from_file/ok-on-missing-fai", IndexedReader::from_file(&only_fa).is_ok()));
        // index present, fasta missing
        let only_fai = dir.join("gone.fa.fai");
        std::fs::write(&only_fai, fai.as_bytes()).expect("scratch file is writable");
        let gone = dir.join("gone.fa");
        let _ = std::fs::remove_file(&gone);
        oks.push(("indexed-reader/from_file/ok-on-missing-fasta", IndexedReader::from_file(&gone).is_ok()));
        let _ = std::fs::remove_file(&only_fa);
        let _ = std::fs::remove_file(&only_fai);
        oks
    });
    match r {
        Err(msg) => cc.violation("C12/index/file-constructors/panic", msg),
        Ok(oks) => {
            cc.outcome(&oks);
            for (name, ok) in oks {
                if ok {
                    cc.violation(format!("C12/{}", name), "Ok although the file does not exist".to_string());
                }
            }
        }
    }
}

/// .fai texts with one malformed row (too few columns / a length, offset or width that is not an
/// unsigned integer), alone, after and before a well-formed row
fn bad_indexes() -> Vec<(String, String)> {
    let good = ["s1", "5", "4", "5", "6"];
    let mut rows: Vec<(String, String)> = vec![];
    for n in 1..5 {
        rows.push((format!("{}-columns", n), good[..n].join("\t")));
    }
    for col in 1..5 {
        for (what, bad) in [("letters", "x"), ("empty", ""), ("negative", "-1"), ("decimal", "1.5"), ("beyond-u64", "18446744073709551616"), ("digits-then-letter", "5x")] {
            let mut r: Vec<&str> = good.to_vec();
            r[col] = bad;
            rows.push((format!("column-{}-{}", col + 1, what), r.join("\t")));
        }
    }
    let other = "s0\t2\t4\t2\t3";
    let mut v = vec![];
    for (name, row) in rows {
        v.push((format!("{}/alone", name), format!("{}\n", row)));
        v.push((format!("{}/after-good-row", name), format!("{}\n{}\n", other, row)));
        v.push((format!("{}/before-good-row", name), format!("{}\n{}\n", row, other)));
    }
    v
}

fn bad_index_check(dir: &Path, fai: &str, cc: &mut CaseCtx) {
    cc.nontrivial();
    let file = b">s1\nABCDE\n>s0\nAB\n";
    let r = guard(|| {
        let mut oks: Vec<(&'static str, bool)> = vec![];
        oks.push(("index/new", Index::new(fai.as_bytes()).is_ok()));
        oks.push(("indexed-reader/new", IndexedReader::new(io::Cursor::new(&file[..]), fai.as_bytes()).is_ok()));
        let fa = dir.join("bad.fa");
        let fai_path = dir.join("bad.fa.fai");
        std::fs::write(&fa, &file[..]).expect("scratch file is writable");
        std::fs::write(&fai_path, fai.as_bytes()).expect("scratch file is writable");
        oks.push(("index/from_file", Index::from_file(&fai_path).is_ok()));
        oks.push(("index/with_fasta_file", Index::with_fasta_file(&fa).is_ok()));
        oks.push(("indexed-reader/from_file", IndexedReader::from_file(&fa).is_ok()));
        let _ = std::fs::remove_file(&fa);
        let _ = std::fs::remove_file(&fai_path);
        oks
    });
    match r {
        Err(msg) => cc.violation("C12/index/malformed-row/panic", msg),
        Ok(oks) => {
            cc.outcome(&oks);
            for (name, ok) in oks {
                if ok {
                    cc.violation(format!("C12/{}/malformed-row-accepted", name), format!("Ok for index text {:?}", fai));
                }
            }
        }
    }
}

// ------------------------------------------------------------------ injected I/O errors

#[derive(Clone, Copy, Debug, PartialEq, Eq, Serialize, Deserialize)]
enum Fault {
    /// the k-th read() call of the stream fails with ErrorKind::Other
    Read(usize),
    /// the j-th seek() call fails with ErrorKind::Other
    Seek(usize),
}

#[derive(Default)]
struct FaultState {
    reads: Cell<usize>,
    seeks: Cell<usize>,
    triggered: Cell<bool>,
    disarmed: Cell<bool>,
}

/// `Read + Seek` over an `Env` with one injected failure (every later call of the same kind fails
/// too when `sticky`) until it is disarmed; a failing call changes nothing
struct FaultyEnv<'a> {
    env: Env<'a>,
    fault: Option<Fault>,
    sticky: bool,
    st: &'a FaultState,
    max_calls: usize,
}

impl<'a> FaultyEnv<'a> {
    fn hit(&self, at: usize, now: usize) -> bool {
        !self.st.disarmed.get() && (now == at || (self.sticky && now > at))
    }
}

impl<'a> Read for FaultyEnv<'a> {
    fn read(&mut self, buf: &mut [u8]) -> io::Result<usize> {
        let c = self.st.reads.get();
        self.st.reads.set(c + 1);
        if c >= self.max_calls {
            panic!("environment: reader issued more than {} read calls (no termination)", self.max_calls);
        }
        if let Some(Fault::Read(k)) = self.fault {
            if self.hit(k, c) {
                self.st.triggered.set(true);
                return Err(io::Error::new(io::ErrorKind::Other, "read fault (injected)"));
            }
        }
        self.env.read(buf)
    }
}

impl<'a> Seek for FaultyEnv<'a> {
    fn seek(&mut self, s: SeekFrom) -> io::Result<u64> {
        let c = self.st.seeks.get();
        self.st.seeks.set(c + 1);
        if c >= self.max_calls {
            panic!("environment: reader issued more than {} seek calls (no termination)", self.max_calls);
        }
        if let Some(Fault::Seek(j)) = self.fault {
            if self.hit(j, c) {
                self.st.triggered.set(true);
                return Err(io::Error::new(io::ErrorKind::Other, "seek fault (injected)"));
            }
        }
        self.env.seek(s)
    }
}

/// (read() calls, seek() calls) of the fault-free query: enumeration bounds for the fault index
fn query_calls(cfg: &FileCfg, sched: &Schedule, q: &Query) -> (usize, usize) {
    guard(|| {
        let (file, fai, _) = build(cfg);
        let st = FaultState::default();
        let index = Index::new(fai.as_bytes()).expect("index parses");
        let mut rd = IndexedReader::with_index(FaultyEnv { env: Env::new(&file, sched.clone()).with_max_calls(usize::MAX), fault: None, sticky: false, st: &st, max_calls: 400 + 40 * file.len() }, index);
        let _ = run_query(&mut rd, q, cfg);
        (st.reads.get(), st.seeks.get())
    })
    .unwrap_or((0, 0))
}

/// one query with an injected failure, then (failure disarmed) the same query again on the same
/// reader.  Ok data must be the exact slice - an I/O error may only surface as Err - and the
/// second query is an ordinary one on an intact file
fn fault_check(cfg: &FileCfg, sched: &Schedule, q: &Query, fault: Fault, sticky: bool, cc: &mut CaseCtx) {
    let (file, fai, seqs) = build(cfg);
    let want = seqs[q.rec][q.start as usize..q.stop as usize].to_vec();
    let class = match fault {
        Fault::Read(_) => "read-error",
        Fault::Seek(_) => "seek-error",
    };
    let r = guard(|| {
        let st = FaultState::default();
        let index = Index::new(fai.as_bytes()).expect("index parses");
        let mut rd = IndexedReader::with_index(FaultyEnv { env: Env::new(&file, sched.clone()).with_max_calls(usize::MAX), fault: Some(fault), sticky, st: &st, max_calls: 800 + 80 * file.len() }, index);
        let first = run_query(&mut rd, q, cfg).map_err(|e| e.to_string());
        let triggered = st.triggered.get();
        st.disarmed.set(true);
        let second = run_query(&mut rd, q, cfg).map_err(|e| e.to_string());
        (first, triggered, second)
    });
    match r {
        Err(msg) => {
            let sym = if msg.contains("no termination") { "no-termination" } else { "panic" };
            cc.violation(format!("C12/fault/{}/{}", class, sym), msg)
        }
        Ok((first, triggered, second)) => {
            cc.set_nontrivial(triggered);
            cc.outcome(&(first.is_ok(), triggered, second.is_ok()));
            if let Ok(got) = &first {
                if *got != want {
                    let sym = if got.len() < want.len() { "short-data-instead-of-error" } else { "wrong-data-instead-of-error" };
                    cc.violation(
                        format!("C12/fault/{}/{}", class, sym),
                        format!("{:?} (sticky: {}): Ok({:?}), expected {:?} or Err", fault, sticky, String::from_utf8_lossy(got), String::from_utf8_lossy(&want)),
                    );
                }
            } else if !triggered {
                cc.violation(format!("C12/fault/{}/error-without-fault", class), format!("{:?}", first));
            }
            match &second {
                Ok(got) if *got == want => {}
                Ok(got) => cc.violation(
                    format!("C12/fault/{}/next-query-wrong-data", class),
                    format!("after {:?} (first answer {:?}) the same query on the intact stream returned {:?}, expected {:?}", fault, first.as_ref().map(|v| String::from_utf8_lossy(v).to_string()), String::from_utf8_lossy(got), String::from_utf8_lossy(&want)),
                ),
                Err(e) => cc.violation(format!("C12/fault/{}/next-query-fails", class), format!("after {:?} the same query on the intact stream failed: {}", fault, e)),
            }
        }
    }
}

// ------------------------------------------------------------------ enumeration of the appended units

const FAULT_SHARDS: usize = 8;
const FASTA_NAMES: [&str; 3] = ["ref.fasta", "ref", "a.b.fa"];

fn api_unit(tier: Tier, ctx: &mut Ctx) {
    let dir = TempDir::new("C12-api");
    for (fi, cfg) in api_files(tier).iter().enumerate() {
        ctx.case(|| json!({"kind": "index-api", "file": cfg}), |cc| index_api_check(cfg, cc));
        let name = FASTA_NAMES[fi % FASTA_NAMES.len()];
        ctx.case(|| json!({"kind": "index-file", "file": cfg, "fasta_name": name}), |cc| index_file_check(dir.path(), cfg, name, cc));
    }
    ctx.case(|| json!({"kind": "index-missing"}), |cc| index_missing_check(dir.path(), cc));
    for (class, fai) in bad_indexes() {
        ctx.case(|| json!({"kind": "bad-index", "class": class, "fai": fai}), |cc| bad_index_check(dir.path(), &fai, cc));
    }
}

fn fault_unit(tier: Tier, shard: usize, ctx: &mut Ctx) {
    let hows: &[How] = match tier {
        Tier::Quick => &[How::NameRead, How::RidIter],
        Tier::Thorough => &[How::NameRead, How::RidIter, How::NameIter, How::RidRead],
    };
    for (fi, cfg) in small_files(tier).iter().enumerate() {
        if fi % FAULT_SHARDS != shard {
            continue;
        }
        for (rec, &len) in cfg.lens.iter().enumerate() {
            for start in 0..=len {
                for stop in start..=len {
                    if (start + stop + fi) % tier.pick(2, 1) != 0 {
                        continue;
                    }
                    for &how in hows {
                        let q = Query { rec, start: start as u64, stop: stop as u64, how };
                        for sched in [Schedule::Uniform(usize::MAX), Schedule::Uniform(2), Schedule::Uniform(1)] {
                            let (reads, seeks) = query_calls(cfg, &sched, &q);
                            let faults: Vec<Fault> = (0..seeks).map(Fault::Seek).chain((0..reads).map(Fault::Read)).collect();
                            for fault in faults {
                                for sticky in [false, true] {
                                    ctx.case(|| json!({"kind": "fault", "file": cfg, "sched": sched, "query": q, "fault": fault, "sticky": sticky}), |cc| fault_check(cfg, &sched, &q, fault, sticky, cc));
                                }
                            }
                        }
                    }
                }
            }
        }
        if ctx.res.capped {
            return;
        }
    }
}

/// replay of the appended case kinds; false if `case` is not one of them
fn replay_ext(case: &Value, ctx: &mut Ctx) -> bool {
    let cfg = || -> FileCfg { serde_json::from_value(case["file"].clone()).unwrap() };
    match case["kind"].as_str().unwrap_or("") {
        "index-api" => {
            let cfg = cfg();
            ctx.case(|| case.clone(), |cc| index_api_check(&cfg, cc));
        }
        "index-file" => {
            let cfg = cfg();
            let name = case["fasta_name"].as_str().unwrap_or("ref.fasta").to_string();
            let dir = TempDir::new("C12-replay");
            ctx.case(|| case.clone(), |cc| index_file_check(dir.path(), &cfg, &name, cc));
        }
        "index-missing" => {
            let dir = TempDir::new("C12-replay");
            ctx.case(|| case.clone(), |cc| index_missing_check(dir.path(), cc));
        }
        "bad-index" => {
            let fai = case["fai"].as_str().unwrap_or("").to_string();
            let dir = TempDir::new("C12-replay");
            ctx.case(|| case.clone(), |cc| bad_index_check(dir.path(), &fai, cc));
        }
        "fault" => {
            let cfg = cfg();
            let sched: Schedule = serde_json::from_value(case["sched"].clone()).unwrap();
            let q: Query = serde_json::from_value(case["query"].clone()).unwrap();
            let fault: Fault = serde_json::from_value(case["fault"].clone()).unwrap();
            let sticky = case["sticky"].as_bool().unwrap_or(false);
            ctx.case(|| case.clone(), |cc| fault_check(&cfg, &sched, &q, fault, sticky, cc));
        }
        _ => return false,
    }
    true
}

impl Prop for C12Prop {
    fn id(&self) -> &'static str {
        "C12"
    }
    fn level(&self) -> &'static str {
        "fault_enumeration"
    }
    fn rule(&self) -> &'static str {
        "Two-record FASTA files over a grid of line widths, terminators and lengths with a matching .fai; every (record, start, stop) with 0<=start<=stop<=len through fetch-by-name+read and fetch-by-rid+read_iter under every schedule of a family (uniform 1,2,3, cycles, unbounded, every single short answer of 1..3 bytes at one of the first calls; thorough: every pair of such deviations), the two other API pairings on one schedule; error clauses per file; every truncation offset of the file (index intact) for the queries of a stride; fetch/read/read_iter/partially-consumed-iterator/read-again-without-fetch histories of depth 3/4 on one reader; wide-line files (60, 511..513, 600) with boundary marks. Non-trivial: the interval crosses a line boundary, or the file is truncated; histories: all. Appended units: (index-api) every file of the grids plus files with 0, 1, 3 and 5 records: Index::new / IndexedReader::new / with_index agree, sequences() lists (name, len) of every row in file order; Index::from_file, Index::with_fasta_file and IndexedReader::from_file through a scratch directory (fasta names ref.fasta, ref, a.b.fa) against the in-memory constructors, with probe queries; missing files; every .fai text with one malformed row (1-4 columns; letters, empty, negative, decimal, beyond u64, trailing letter in each numeric column; alone / after / before a good row) must be refused by all five constructors; (io-fault) for the small files, every (record, start, stop) of a stride, fetch-by-name+read and fetch-by-rid+read_iter (thorough: all four pairings), answers unbounded/2/1: every index of a failing seek() or read() call (ErrorKind::Other) up to the call count of the fault-free query, failing once or from then on; then the same query again with the fault gone. Non-trivial there: the injected fault was reached."
    }
    fn assumptions(&self) -> Vec<&'static str> {
        vec![
            "line width >= 1 (the statement's quantifier); the .fai is written by the check from the layout it generated",
            "sequence bytes are position-coded so that short, shifted or terminator-contaminated data cannot equal the expected slice",
            "on a truncated file: Ok(exact slice) or Err are accepted, anything else (short/shifted data, panic, non-termination) is a violation",
            "under an injected I/O error (ErrorKind::Other): Err, or Ok with exactly the requested slice, are accepted; the next query on the same reader, with the stream intact again, must return its slice",
            "malformed .fai rows are limited to too few columns and numeric columns that are not unsigned 64-bit integers; surplus columns are not judged",
            "path constructors are exercised in a per-process scratch directory under std::env::temp_dir()",
        ]
    }
    fn bounds(&self, tier: Tier) -> Value {
        json!({
            "small_files": small_files(tier).len(), "widths": "1,2,3,4,5,7", "lengths": tier.pick("{1,2,5,7,11} x {1,6}", "{1,2,5,7,11,13} x {1,6}"),
            "deviations": tier.pick("<=1 (size 1..3 at one of the first 5 calls)", "<=2 (sizes 1..3 at the first 7 calls)"),
            "history_depth": tier.pick(3, 4), "history_alphabet": "7 fetch+read queries, 3 partially consumed iterators, read()/read_iter() again without a new fetch",
            "wide": "width 60,511,512,513,600 x LF/CRLF, len 1300/700, marks within +-2 of multiples of w and 512",
            "truncation": tier.pick("every offset, for every second (start,stop)", "every offset, every (start,stop)"),
            "index_api_files": api_files(tier).len(), "malformed_index_texts": bad_indexes().len(),
            "io_faults": tier.pick("every failing seek()/read() call index, once / from then on; every second (start,stop); 2 API pairings; answers unbounded,2,1", "every failing seek()/read() call index, once / from then on; every (start,stop); 4 API pairings; answers unbounded,2,1"),
        })
    }
    fn units(&self, _tier: Tier) -> Vec<String> {
        let mut v: Vec<String> = (0..SMALL_SHARDS).map(|i| format!("small-{}", i)).collect();
        v.extend((0..HISTORY_SHARDS).map(|i| format!("history-{}", i)));
        v.extend((0..wide_files().len()).map(|i| format!("wide-{}", i)));
        v.push("index-api".to_string());
        v.extend((0..FAULT_SHARDS).map(|i| format!("io-fault-{}", i)));
        v
    }
    fn run_unit(&self, tier: Tier, unit: usize, ctx: &mut Ctx) {
        if unit < SMALL_SHARDS {
            small_unit(tier, unit, ctx);
        } else if unit < SMALL_SHARDS + HISTORY_SHARDS {
            history_unit(tier, unit - SMALL_SHARDS, HISTORY_SHARDS, ctx);
        } else if unit < SMALL_SHARDS + HISTORY_SHARDS + wide_files().len() {
            wide_unit(tier, unit - SMALL_SHARDS - HISTORY_SHARDS, ctx);
        } else if unit == SMALL_SHARDS + HISTORY_SHARDS + wide_files().len() {
            api_unit(tier, ctx);
        } else {
            fault_unit(tier, unit - SMALL_SHARDS - HISTORY_SHARDS - wide_files().len() - 1, ctx);
        }
    }
    fn replay(&self, case: &Value, ctx: &mut Ctx) {
        if replay_ext(case, ctx) {
            return;
        }
        let cfg: FileCfg = serde_json::from_value(case["file"].clone()).unwrap();
        match case["kind"].as_str().unwrap_or("") {
            "errors" => ctx.case(|| case.clone(), |cc| error_clauses(&cfg, cc)),
            "query" => {
                let sched: Schedule = serde_json::from_value(case["sched"].clone()).unwrap();
                let q: Query = serde_json::from_value(case["query"].clone()).unwrap();
                let t = case.get("truncate_at").and_then(|t| t.as_u64()).map(|t| t as usize);
                ctx.case(|| case.clone(), |cc| query_check(&cfg, &sched, &q, t, cc));
            }
            "history" => {
                let sched: Schedule = serde_json::from_value(case["sched"].clone()).unwrap();
                let ops: Vec<Op> = serde_json::from_value(case["ops"].clone()).unwrap();
                ctx.case(|| case.clone(), |cc| history_check(&cfg, &sched, &ops, cc));
            }
            _ => {}
        }
    }
}
