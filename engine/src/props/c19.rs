//! C19 — q-gram index, k-mer matches and LCSk++/SDP chaining are exact.
//!
//! K1 sweeps executed on the real code:
//!  * `qgram-*`  : (alphabet, text, q, max_count) index listings and (alphabet, text, q, pattern)
//!                 `exact_matches` / `matches` against naive occurrence / diagonal scans;
//!  * `codes-*`  : q-gram code injectivity and forward/reverse mirroring for every alphabet size
//!                 1..=256 (all |A|^q q-grams where that is small, a substitution family of q-grams at
//!                 q*bits = word size otherwise);
//!  * `sparse-*` : every pair of sequences, k: the three `find_kmer_matches*` variants, `lcskpp`,
//!                 `sdpkpp`, `sdpkpp_union_lcskpp_path`, `expand_kmer_matches` on the true match list;
//!  * `chain-*`  : arbitrary sorted match lists (all subsets of a small grid, and all lists with few
//!                 points on a larger grid) through `lcskpp`, `sdpkpp`, `sdpkpp_union_lcskpp_path`.
//! Results that the subject collects through a HashMap are compared as sorted multisets.

use super::Prop;
use crate::ctx::{guard, show, unshow, CaseCtx, Ctx, Tier};
use crate::gen;
use bio::alignment::sparse::{
    expand_kmer_matches, find_kmer_matches, find_kmer_matches_seq1_hashed, find_kmer_matches_seq2_hashed,
    hash_kmers, lcskpp, sdpkpp, sdpkpp_union_lcskpp_path,
};
use bio::alphabets::{Alphabet, RankTransform};
use bio::data_structures::qgram_index::{Interval, Match, QGramIndex};
use serde_json::{json, Value};

pub struct C19Prop;
pub static C19: C19Prop = C19Prop;

// ------------------------------------------------------------------------------------------------
// helpers

fn panic_kind(msg: &str) -> &'static str {
    if msg.contains("out of bounds") || msg.contains("out of range") {
        "index-out-of-bounds"
    } else if msg.contains("overflow") {
        "arith-overflow"
    } else {
        "other"
    }
}

/// number of the q-gram `g` in base |alpha| (digit = position of the symbol in `alpha`)
fn gram_number(alpha: &[u8], g: &[u8]) -> usize {
    let mut n = 0usize;
    for c in g {
        n = n * alpha.len() + alpha.iter().position(|a| a == c).expect("symbol outside alphabet");
    }
    n
}

fn gram_of_number(alpha: &[u8], q: usize, mut num: usize, out: &mut Vec<u8>) {
    out.clear();
    out.resize(q, 0);
    for i in (0..q).rev() {
        out[i] = alpha[num % alpha.len()];
        num /= alpha.len();
    }
}

// ------------------------------------------------------------------------------------------------
// q-gram index: listing

/// one case = (alphabet, text, q, max_count).  `mc == None` means unlimited; in that case the code
/// properties of RankTransform (injective, rolling == fresh, reverse mirrors forward) are checked too.
fn check_index(alpha: &[u8], text: &[u8], q: u32, mc: Option<usize>, cc: &mut CaseCtx) {
    let qq = q as usize;
    let a = alpha.len();
    let ngrams = a.pow(q);
    let n = text.len();
    let max_count = mc.unwrap_or(usize::MAX);

    // oracle: naive occurrence lists
    let mut occ: Vec<Vec<usize>> = vec![vec![]; ngrams];
    if n >= qq {
        for i in 0..=n - qq {
            occ[gram_number(alpha, &text[i..i + qq])].push(i);
        }
    }
    let repeated = occ.iter().any(|o| o.len() >= 2);
    let masked = occ.iter().any(|o| o.len() > max_count);
    let want: Vec<Vec<usize>> = occ
        .iter()
        .map(|o| if o.len() > max_count { vec![] } else { o.clone() })
        .collect();
    cc.set_nontrivial(repeated || masked);
    cc.outcome(&want);

    let alphabet = Alphabet::new(alpha);
    let rt = RankTransform::new(&alphabet);

    // code of every q-gram over the full alphabet, computed standalone
    let codes = guard(|| {
        let mut g = Vec::with_capacity(qq);
        let mut codes = Vec::with_capacity(ngrams);
        for num in 0..ngrams {
            gram_of_number(alpha, qq, num, &mut g);
            codes.push(rt.qgrams(q, &g[..]).next());
        }
        codes
    });
    let codes: Vec<usize> = match codes {
        Err(msg) => {
            cc.violation("C19/qgrams/panic", format!("qgrams({}, <single q-gram>) panicked: {}", q, msg));
            return;
        }
        Ok(c) => {
            if c.iter().any(|x| x.is_none()) {
                cc.violation("C19/qgrams/no-code-for-qgram", format!("qgrams({}, g) yields nothing for a text of exactly q symbols", q));
                return;
            }
            c.into_iter().map(|x| x.unwrap()).collect()
        }
    };

    if mc.is_none() {
        // injective
        let mut sorted: Vec<(usize, usize)> = codes.iter().cloned().zip(0..).collect();
        sorted.sort();
        if let Some(w) = sorted.windows(2).find(|w| w[0].0 == w[1].0) {
            let (mut g1, mut g2) = (vec![], vec![]);
            gram_of_number(alpha, qq, w[0].1, &mut g1);
            gram_of_number(alpha, qq, w[1].1, &mut g2);
            cc.violation(
                "C19/qgrams/code-collision",
                format!("q={} q-grams {:?} and {:?} both get code {}", q, show(&g1), show(&g2), w[0].0),
            );
        }
        // rolling == fresh, reverse mirrors forward
        match guard(|| {
            let f: Vec<usize> = rt.qgrams(q, text).collect();
            let mut r: Vec<usize> = rt.rev_qgrams(q, text).collect();
            r.reverse();
            (f, r)
        }) {
            Err(msg) => cc.violation("C19/qgrams/panic", format!("qgrams/rev_qgrams over the text panicked: {}", msg)),
            Ok((f, r)) => {
                let fresh: Vec<usize> = if n >= qq {
                    (0..=n - qq).map(|i| codes[gram_number(alpha, &text[i..i + qq])]).collect()
                } else {
                    vec![]
                };
                if f != fresh {
                    cc.violation(
                        "C19/qgrams/rolling-differs-from-fresh",
                        format!("qgrams over text {:?}, codes of the windows taken one by one {:?}", f, fresh),
                    );
                }
                if r != f {
                    cc.violation("C19/rev_qgrams/not-mirror", format!("forward {:?}, reverse reversed {:?}", f, r));
                }
            }
        }
    }

    // the index
    let idx = match guard(|| QGramIndex::with_max_count(q, text, &alphabet, max_count)) {
        Ok(i) => i,
        Err(msg) => {
            cc.violation(
                format!("C19/qgram-index/construct/panic/{}", panic_kind(&msg)),
                format!("with_max_count panicked: {}", msg),
            );
            return;
        }
    };
    if idx.q() != q {
        cc.violation(
            "C19/qgram-index/q/differs-from-constructor-argument",
            format!("with_max_count({}, ..).q() = {}", q, idx.q()),
        );
    }
    let res = guard(|| {
        for num in 0..ngrams {
            let got = idx.qgram_matches(codes[num]);
            if got != &want[num][..] {
                return Some((num, got.to_vec()));
            }
        }
        None
    });
    match res {
        Err(msg) => cc.violation(
            format!("C19/qgram-index/qgram_matches/panic/{}", panic_kind(&msg)),
            format!("qgram_matches panicked: {}", msg),
        ),
        Ok(Some((num, got))) => {
            let mut g = vec![];
            gram_of_number(alpha, qq, num, &mut g);
            let key = if occ[num].len() > max_count {
                "C19/qgram-index/max_count/not-masked"
            } else if want[num].len() > 0 && got.is_empty() && mc.is_some() {
                "C19/qgram-index/max_count/masked-although-within-limit"
            } else {
                "C19/qgram-index/qgram_matches/wrong-positions"
            };
            cc.violation(key, format!("q-gram {:?}: got {:?}, naive scan {:?} (occurrences {:?})", show(&g), got, want[num], occ[num]));
        }
        Ok(None) => {}
    }
}

// ------------------------------------------------------------------------------------------------
// q-gram index: pattern queries

const MIN_COUNTS: [usize; 3] = [1, 2, 3];

/// `Interval::get(s)` is the slice s[start..stop].  Intervals that do not lie inside `s` are not
/// queried (such a match is reported as a wrong match set by the caller).  Returns the slice the
/// subject gave; at most one violation per key and case (`flags`: wrong slice, panic).
fn interval_get<'a>(what: &str, iv: &Interval, s: &'a [u8], flags: &mut [bool; 2], cc: &mut CaseCtx) -> Option<&'a [u8]> {
    if !(iv.start <= iv.stop && iv.stop <= s.len()) {
        return None;
    }
    match guard(|| iv.get(s)) {
        Err(msg) => {
            if !flags[1] {
                flags[1] = true;
                cc.violation(
                    "C19/interval-get/panic",
                    format!("{} interval {}..{} on a sequence of length {}: {}", what, iv.start, iv.stop, s.len(), msg),
                );
            }
            None
        }
        Ok(g) => {
            if g != &s[iv.start..iv.stop] && !flags[0] {
                flags[0] = true;
                cc.violation(
                    "C19/interval-get/wrong-slice",
                    format!("{} interval {}..{}: get() = {:?}, the slice is {:?}", what, iv.start, iv.stop, show(g), show(&s[iv.start..iv.stop])),
                );
            }
            Some(g)
        }
    }
}

/// `Match` is ordered by `count` alone: every comparison route (cmp, partial_cmp, the operators,
/// max/min, sort) is compared with the same operation on the counts.  No order among matches of
/// equal count is demanded.
fn check_match_order(ms: &[Match], cc: &mut CaseCtx) {
    use std::cmp::Ordering;
    let r = guard(|| {
        let mut bad: Option<(&'static str, String)> = None;
        'outer: for a in ms {
            for b in ms {
                let want = a.count.cmp(&b.count);
                let got = a.cmp(b);
                if got != want {
                    bad = Some(("C19/match-ord/cmp-not-by-count", format!("counts {} and {}: cmp = {:?}", a.count, b.count, got)));
                    break 'outer;
                }
                let pc = a.partial_cmp(b);
                let ops = (a < b, a <= b, a > b, a >= b);
                let want_ops = (want == Ordering::Less, want != Ordering::Greater, want == Ordering::Greater, want != Ordering::Less);
                if pc != Some(want) || ops != want_ops {
                    bad = Some((
                        "C19/match-ord/partial_cmp-not-by-count",
                        format!("counts {} and {}: partial_cmp = {:?}, (<, <=, >, >=) = {:?}", a.count, b.count, pc, ops),
                    ));
                    break 'outer;
                }
            }
        }
        if bad.is_none() {
            let (mx, mn) = (ms.iter().max().map(|m| m.count), ms.iter().min().map(|m| m.count));
            let (wmx, wmn) = (ms.iter().map(|m| m.count).max(), ms.iter().map(|m| m.count).min());
            if mx != wmx || mn != wmn {
                bad = Some((
                    "C19/match-ord/max-min-not-by-count",
                    format!("count of max() {:?} / min() {:?}, largest / smallest count {:?} / {:?}", mx, mn, wmx, wmn),
                ));
            }
        }
        if bad.is_none() {
            let mut sorted = ms.to_vec();
            sorted.sort();
            let counts: Vec<usize> = sorted.iter().map(|m| m.count).collect();
            let mut want: Vec<usize> = ms.iter().map(|m| m.count).collect();
            want.sort();
            if counts != want {
                bad = Some(("C19/match-ord/sort-not-by-count", format!("counts after sort() {:?}, ascending counts {:?}", counts, want)));
            }
        }
        bad
    });
    match r {
        Err(msg) => cc.violation("C19/match-ord/panic", msg),
        Ok(Some((key, detail))) => cc.violation(key, detail),
        Ok(None) => {}
    }
}

fn check_pattern(idx: &QGramIndex, alpha_len: usize, text: &[u8], q: u32, p: &[u8], cc: &mut CaseCtx) {
    let qq = q as usize;
    let (m, n) = (p.len(), text.len());

    // oracle 1: maximal exact matches of length >= q
    let mut exact: Vec<(usize, usize, usize, usize)> = vec![];
    for i in 0..m {
        for j in 0..n {
            if p[i] == text[j] && (i == 0 || j == 0 || p[i - 1] != text[j - 1]) {
                let mut l = 0;
                while i + l < m && j + l < n && p[i + l] == text[j + l] {
                    l += 1;
                }
                if l >= qq {
                    exact.push((i, i + l, j, j + l));
                }
            }
        }
    }
    exact.sort();
    // oracle 2: per diagonal (count, first hit, last hit); diagonals indexed by j - i + m
    let mut diag: Vec<(usize, usize, usize)> = vec![(0, 0, 0); m + n + 1];
    let mut hits = 0usize;
    let mut negative = false;
    if m >= qq && n >= qq {
        for i in 0..=m - qq {
            for j in 0..=n - qq {
                if p[i..i + qq] == text[j..j + qq] {
                    hits += 1;
                    negative |= j < i;
                    let e = &mut diag[j + m - i];
                    if e.0 == 0 {
                        e.1 = i;
                    }
                    e.0 += 1;
                    e.2 = i; // i ascends
                }
            }
        }
    }
    let multi = diag.iter().any(|d| d.0 >= 2);
    let diag_want = |min_count: usize| -> Vec<(usize, usize, usize, usize, usize)> {
        let mut v: Vec<_> = diag
            .iter()
            .enumerate()
            .filter(|(_, e)| e.0 >= min_count && e.0 > 0)
            .map(|(d, e)| (e.1, e.2 + qq, e.1 + d - m, e.2 + d - m + qq, e.0))
            .collect();
        v.sort();
        v
    };
    cc.set_nontrivial(hits > 0 && (!alpha_len.is_power_of_two() || negative || multi));
    cc.outcome(&exact);
    cc.outcome(&diag_want(1));

    if idx.q() != q {
        cc.violation("C19/qgram-index/q/differs-from-constructor-argument", format!("new({}, ..).q() = {}", q, idx.q()));
    }
    let mut iv_flags = [false; 2];
    match guard(|| idx.exact_matches(p)) {
        Err(msg) => cc.violation(
            format!("C19/qgram-index/exact_matches/panic/{}", panic_kind(&msg)),
            format!("exact_matches panicked: {}", msg),
        ),
        Ok(got) => {
            // Interval::get on both intervals of every reported exact match; the two slices of an
            // exact match are the same string
            let mut slices_differ = false;
            for x in &got {
                let ps = interval_get("pattern", &x.pattern, p, &mut iv_flags, cc);
                let ts = interval_get("text", &x.text, text, &mut iv_flags, cc);
                if let (Some(ps), Some(ts)) = (ps, ts) {
                    if ps != ts && !slices_differ {
                        slices_differ = true;
                        cc.violation(
                            "C19/qgram-index/exact_matches/slices-differ",
                            format!(
                                "pattern {}..{} = {:?} but text {}..{} = {:?}",
                                x.pattern.start, x.pattern.stop, show(ps), x.text.start, x.text.stop, show(ts)
                            ),
                        );
                    }
                }
            }
            let mut got: Vec<_> = got
                .iter()
                .map(|x| (x.pattern.start, x.pattern.stop, x.text.start, x.text.stop))
                .collect();
            got.sort();
            let before = got.len();
            let full = got.clone();
            got.dedup();
            if got.len() != before {
                cc.violation("C19/qgram-index/exact_matches/duplicate", format!("result (sorted) {:?}", full));
            }
            if got != exact {
                cc.violation(
                    "C19/qgram-index/exact_matches/wrong-set",
                    format!("got (sorted) {:?}, maximal exact matches of length >= {}: {:?}", got, q, exact),
                );
            }
        }
    }
    for &min_count in &MIN_COUNTS {
        match guard(|| idx.matches(p, min_count)) {
            Err(msg) => {
                cc.violation(
                    format!("C19/qgram-index/matches/panic/{}", panic_kind(&msg)),
                    format!("matches(p, {}) panicked: {}", min_count, msg),
                );
                break;
            }
            Ok(got) => {
                if min_count == 1 {
                    // the complete list (every diagonal with a hit): Interval::get and the order
                    for x in &got {
                        interval_get("pattern", &x.pattern, p, &mut iv_flags, cc);
                        interval_get("text", &x.text, text, &mut iv_flags, cc);
                    }
                    check_match_order(&got, cc);
                }
                let mut got: Vec<_> = got
                    .iter()
                    .map(|x| (x.pattern.start, x.pattern.stop, x.text.start, x.text.stop, x.count))
                    .collect();
                got.sort();
                let want = diag_want(min_count);
                if got != want {
                    cc.violation(
                        "C19/qgram-index/matches/wrong-set",
                        format!("matches(p, {}) (sorted) {:?}, per-diagonal scan {:?}", min_count, got, want),
                    );
                    break;
                }
            }
        }
    }
}

struct QAlpha {
    name: &'static str,
    /// the alphabet handed to the subject
    syms: Vec<u8>,
    /// the symbols texts and patterns are drawn from
    tsyms: Vec<u8>,
    tmax: (usize, usize),
    pmax: (usize, usize),
    /// largest q (the address table has 2^(bits*q) entries)
    qmax: u32,
}

fn qalphas() -> Vec<QAlpha> {
    let qa = |name, syms: &[u8], tsyms: &[u8], tmax, pmax| QAlpha {
        name,
        syms: syms.to_vec(),
        tsyms: tsyms.to_vec(),
        tmax,
        pmax,
        qmax: 3,
    };
    let all: Vec<u8> = (0..=255u8).collect();
    let wide = |name, syms: &[u8], tsyms: &[u8]| QAlpha { name, syms: syms.to_vec(), tsyms: tsyms.to_vec(), tmax: (3, 4), pmax: (2, 3), qmax: 2 };
    let mut v = vec![
        qa("a", b"a", b"a", (10, 14), (7, 9)),
        qa("ab", b"ab", b"ab", (9, 10), (6, 7)),
        qa("abc", b"abc", b"abc", (6, 7), (5, 5)),
        qa("abcd", b"abcd", b"abcd", (5, 6), (4, 4)),
        qa("abcde", b"abcde", b"abcde", (5, 6), (4, 4)),
        qa("bytes 00,80,ff", &[0x00, 0x80, 0xFF], &[0x00, 0x80, 0xFF], (5, 6), (4, 5)),
        qa("abcdef", b"abcdef", b"abcdef", (4, 5), (3, 3)),
        qa("abcdefg", b"abcdefg", b"abcdefg", (4, 4), (3, 4)),
        qa("dna::n_alphabet, texts over ANgt", b"ACGTNacgtn", b"ANgt", (5, 6), (4, 4)),
        qa("abcdefghi, texts over aei", b"abcdefghi", b"aei", (5, 6), (4, 5)),
        qa("17 symbols a..q, texts over aiq", b"abcdefghijklmnopq", b"aiq", (5, 6), (4, 4)),
    ];
    // the widest alphabets: ranks up to 254 / 255 (the largest value a u8 rank can hold)
    v.push(wide("255 symbols 01..ff, texts over 01,80,ff", &all[1..], &[0x01, 0x80, 0xFF]));
    v.push(wide("256 symbols 00..ff, texts over 00,80,ff", &all, &[0x00, 0x80, 0xFF]));
    v.push(wide("128 symbols 00..7f, texts over 00,40,7f", &all[..128], &[0x00, 0x40, 0x7F]));
    v.push(wide("129 symbols 00..80, texts over 00,40,80", &all[..129], &[0x00, 0x40, 0x80]));
    v
}

const QS: [u32; 3] = [1, 2, 3];

fn max_counts(tier: Tier) -> Vec<Option<usize>> {
    match tier {
        Tier::Quick => vec![None, Some(1), Some(2)],
        Tier::Thorough => vec![None, Some(1), Some(2), Some(3)],
    }
}

fn qgram_unit(tier: Tier, shard: usize, nshards: usize, ctx: &mut Ctx) {
    let mut counter = 0usize;
    for qa in qalphas() {
        let (tm, pm) = (tier.pick(qa.tmax.0, qa.tmax.1), tier.pick(qa.pmax.0, qa.pmax.1));
        let texts = gen::strings(&qa.tsyms, 0, tm);
        let pats = gen::strings(&qa.tsyms, 0, pm);
        let alphabet = Alphabet::new(&qa.syms);
        for t in &texts {
            counter += 1;
            if counter % nshards != shard {
                continue;
            }
            for &q in &QS {
                if q > qa.qmax {
                    continue;
                }
                for mc in max_counts(tier) {
                    ctx.case(
                        || json!({"kind": "index", "alpha": show(&qa.syms), "text": show(t), "q": q, "max_count": mc}),
                        |cc| check_index(&qa.syms, t, q, mc, cc),
                    );
                }
                // a construction panic has been reported by the index case above
                let idx = match guard(|| QGramIndex::new(q, &t[..], &alphabet)) {
                    Ok(i) => i,
                    Err(_) => continue,
                };
                for p in &pats {
                    ctx.case(
                        || json!({"kind": "pattern", "alpha": show(&qa.syms), "text": show(t), "q": q, "p": show(p)}),
                        |cc| check_pattern(&idx, qa.syms.len(), t, q, p, cc),
                    );
                }
            }
            if ctx.res.capped {
                return;
            }
        }
    }
}

// ------------------------------------------------------------------------------------------------
// q-gram codes for every alphabet size

fn spread_alphabet(n: usize) -> Vec<u8> {
    if n == 1 {
        return vec![b'a'];
    }
    (0..n).map(|i| (i * 255 / (n - 1)) as u8).collect()
}

fn bits_of(n: usize) -> u32 {
    // ceil(log2 n) in integers
    let mut b = 0;
    while (1usize << b) < n {
        b += 1;
    }
    b
}

/// all n^q q-grams: codes pairwise different, reverse iterator gives the same code
fn check_codes_full(n: usize, q: u32, cc: &mut CaseCtx) {
    let alpha = spread_alphabet(n);
    let alphabet = Alphabet::new(&alpha);
    let rt = RankTransform::new(&alphabet);
    let total = n.pow(q);
    cc.set_nontrivial(!n.is_power_of_two() && q >= 2);
    cc.outcome(&(n, q, total));
    let r = guard(|| {
        let qq = q as usize;
        let mut g = vec![alpha[0]; qq];
        let mut digits = vec![0usize; qq];
        let mut codes: Vec<usize> = Vec::with_capacity(total);
        let mut bad_rev: Option<(Vec<u8>, Option<usize>, Option<usize>)> = None;
        loop {
            let f = rt.qgrams(q, &g[..]).next();
            let r = rt.rev_qgrams(q, &g[..]).next();
            if (f != r || f.is_none()) && bad_rev.is_none() {
                bad_rev = Some((g.clone(), f, r));
            }
            codes.push(f.unwrap_or(usize::MAX));
            // increment
            let mut i = qq;
            loop {
                if i == 0 {
                    return (codes, bad_rev);
                }
                i -= 1;
                digits[i] += 1;
                if digits[i] < n {
                    g[i] = alpha[digits[i]];
                    break;
                }
                digits[i] = 0;
                g[i] = alpha[0];
            }
        }
    });
    match r {
        Err(msg) => cc.violation("C19/qgrams/panic", format!("alphabet of {} symbols, q={}: {}", n, q, msg)),
        Ok((codes, bad_rev)) => {
            if let Some((g, f, r)) = bad_rev {
                cc.violation(
                    "C19/rev_qgrams/not-mirror",
                    format!("alphabet of {} symbols, q-gram {:?}: forward code {:?}, reverse code {:?}", n, show(&g), f, r),
                );
            }
            let mut sorted: Vec<(usize, usize)> = codes.iter().cloned().zip(0..).collect();
            sorted.sort();
            if let Some(w) = sorted.windows(2).find(|w| w[0].0 == w[1].0) {
                let (mut g1, mut g2) = (vec![], vec![]);
                gram_of_number(&alpha, q as usize, w[0].1, &mut g1);
                gram_of_number(&alpha, q as usize, w[1].1, &mut g2);
                cc.violation(
                    "C19/qgrams/code-collision",
                    format!("alphabet of {} symbols, q={}: {:?} and {:?} both get code {}", n, q, show(&g1), show(&g2), w[0].0),
                );
            }
        }
    }
}

/// q too large to enumerate all q-grams (up to q*bits == 64): a substitution family of q-grams
/// must get pairwise different codes, reverse == forward, and rolling codes == fresh codes
fn check_codes_wide(n: usize, q: u32, cc: &mut CaseCtx) {
    let alpha = spread_alphabet(n);
    let alphabet = Alphabet::new(&alpha);
    let rt = RankTransform::new(&alphabet);
    let qq = q as usize;
    let bits = bits_of(n);
    cc.set_nontrivial(bits * q > 56 || n == 1);
    let sym_idx: Vec<usize> = {
        let mut v = vec![0, 1 % n, n - 1, n / 2];
        v.sort();
        v.dedup();
        v
    };
    let units: Vec<Vec<usize>> = {
        let mut u = vec![vec![0], vec![n - 1], vec![0, n - 1], vec![1 % n, 0], vec![0, 1 % n, n - 1]];
        u.sort();
        u.dedup();
        u
    };
    let positions: Vec<usize> = {
        let mut v = vec![0, 1.min(qq - 1), qq / 2, qq.saturating_sub(2), qq - 1];
        v.sort();
        v.dedup();
        v
    };
    let mut grams: Vec<Vec<u8>> = vec![];
    let mut texts: Vec<Vec<u8>> = vec![];
    for u in &units {
        let base: Vec<u8> = (0..qq).map(|i| alpha[u[i % u.len()]]).collect();
        grams.push(base.clone());
        for (pi, &p1) in positions.iter().enumerate() {
            for &s1 in &sym_idx {
                let mut g = base.clone();
                g[p1] = alpha[s1];
                grams.push(g.clone());
                for &p2 in &positions[pi + 1..] {
                    for &s2 in &sym_idx {
                        let mut h = g.clone();
                        h[p2] = alpha[s2];
                        grams.push(h);
                    }
                }
            }
        }
        // a text of q+3 symbols: the periodic base continued, one flipped symbol after the first window
        let mut t: Vec<u8> = (0..qq + 3).map(|i| alpha[u[i % u.len()]]).collect();
        t[qq] = alpha[(u[qq % u.len()] + 1) % n];
        texts.push(t);
    }
    grams.sort();
    grams.dedup();
    cc.outcome(&(n, q, grams.len()));
    let r = guard(|| {
        let codes: Vec<(Option<usize>, Option<usize>)> = grams
            .iter()
            .map(|g| (rt.qgrams(q, &g[..]).next(), rt.rev_qgrams(q, &g[..]).next()))
            .collect();
        let rolls: Vec<(Vec<usize>, Vec<usize>, Vec<Option<usize>>)> = texts
            .iter()
            .map(|t| {
                let f: Vec<usize> = rt.qgrams(q, &t[..]).collect();
                let mut r: Vec<usize> = rt.rev_qgrams(q, &t[..]).collect();
                r.reverse();
                let fresh: Vec<Option<usize>> = (0..=t.len() - qq).map(|i| rt.qgrams(q, &t[i..i + qq]).next()).collect();
                (f, r, fresh)
            })
            .collect();
        (codes, rolls)
    });
    match r {
        Err(msg) => cc.violation("C19/qgrams/panic", format!("alphabet of {} symbols, q={}: {}", n, q, msg)),
        Ok((codes, rolls)) => {
            if let Some(i) = codes.iter().position(|c| c.0 != c.1 || c.0.is_none()) {
                cc.violation(
                    "C19/rev_qgrams/not-mirror",
                    format!("alphabet of {} symbols, q-gram {:?}: forward code {:?}, reverse code {:?}", n, show(&grams[i]), codes[i].0, codes[i].1),
                );
            }
            let mut sorted: Vec<(Option<usize>, usize)> = codes.iter().map(|c| c.0).zip(0..).collect();
            sorted.sort();
            if let Some(w) = sorted.windows(2).find(|w| w[0].0 == w[1].0) {
                cc.violation(
                    "C19/qgrams/code-collision",
                    format!("alphabet of {} symbols, q={}: {:?} and {:?} both get code {:?}", n, q, show(&grams[w[0].1]), show(&grams[w[1].1]), w[0].0),
                );
            }
            for (t, (f, r, fresh)) in texts.iter().zip(rolls.iter()) {
                let fo: Vec<Option<usize>> = f.iter().map(|&x| Some(x)).collect();
                if &fo != fresh {
                    cc.violation(
                        "C19/qgrams/rolling-differs-from-fresh",
                        format!("alphabet of {} symbols, q={}, text {:?}: rolling {:?}, window by window {:?}", n, q, show(t), f, fresh),
                    );
                    break;
                }
                if f != r {
                    cc.violation(
                        "C19/rev_qgrams/not-mirror",
                        format!("alphabet of {} symbols, q={}, text {:?}: forward {:?}, reverse reversed {:?}", n, q, show(t), f, r),
                    );
                    break;
                }
            }
        }
    }
}

fn wide_qs(n: usize) -> Vec<u32> {
    let bits = bits_of(n);
    let mut v: Vec<u32> = if bits == 0 {
        vec![4, 64, 65, 200]
    } else {
        let qmax = 64 / bits;
        vec![qmax / 2, qmax - 1, qmax]
    };
    v.retain(|&q| q >= 4);
    v.sort();
    v.dedup();
    v
}

fn codes_unit(tier: Tier, shard: usize, nshards: usize, ctx: &mut Ctx) {
    let limit = tier.pick(70_000usize, 1_100_000usize);
    // largest alphabets are the most expensive: deal them out round-robin from the top
    for n in (1..=256usize).rev() {
        if n % nshards != shard {
            continue;
        }
        for q in 1..=4u32 {
            if (n as u64).pow(q) > limit as u64 || (n == 1 && q > 3) {
                continue;
            }
            ctx.case(|| json!({"kind": "codes", "n": n, "q": q}), |cc| check_codes_full(n, q, cc));
        }
        for q in wide_qs(n) {
            if (n as u64).checked_pow(q).map_or(false, |t| t <= limit as u64) && n > 1 {
                continue; // already enumerated completely above
            }
            ctx.case(|| json!({"kind": "codes-wide", "n": n, "q": q}), |cc| check_codes_wide(n, q, cc));
        }
    }
}

// ------------------------------------------------------------------------------------------------
// chaining oracles

type M = (u32, u32);

/// gain of appending `m` after `p` to a chain, None if the step is not allowed
fn step_gain(p: M, m: M, k: u64) -> Option<u64> {
    let (px, py, mx, my) = (p.0 as u64, p.1 as u64, m.0 as u64, m.1 as u64);
    if mx >= px + k && my >= py + k {
        Some(k)
    } else if mx == px + 1 && my == py + 1 {
        Some(1)
    } else {
        None
    }
}

/// score of a chain given as matches; Err(position) at the first illegal step
fn chain_score(chain: &[M], k: u64) -> Result<u64, usize> {
    let mut sc = 0u64;
    for (i, m) in chain.iter().enumerate() {
        if i == 0 {
            sc += k;
        } else {
            match step_gain(chain[i - 1], *m, k) {
                Some(g) => sc += g,
                None => return Err(i),
            }
        }
    }
    Ok(sc)
}

/// quadratic DP over the sorted list (legal steps strictly increase both coordinates, hence
/// follow the sorted order)
fn best_quadratic(ms: &[M], k: u64) -> u64 {
    let mut best = vec![0u64; ms.len()];
    let mut all = 0;
    for i in 0..ms.len() {
        let mut b = k;
        for j in 0..i {
            if let Some(g) = step_gain(ms[j], ms[i], k) {
                b = b.max(best[j] + g);
            }
        }
        best[i] = b;
        all = all.max(b);
    }
    all
}

/// maximum over every sub-list that forms a legal chain, by explicit enumeration of all legal
/// chains (depth-first); gives up (None) after `budget` chains
fn best_enumerated(ms: &[M], k: u64, budget: u64) -> Option<u64> {
    fn rec(ms: &[M], k: u64, i: usize, sc: u64, best: &mut u64, left: &mut u64) -> bool {
        if *left == 0 {
            return false;
        }
        *left -= 1;
        if sc > *best {
            *best = sc;
        }
        for j in i + 1..ms.len() {
            if let Some(g) = step_gain(ms[i], ms[j], k) {
                if !rec(ms, k, j, sc + g, best, left) {
                    return false;
                }
            }
        }
        true
    }
    let mut best = 0u64;
    let mut left = budget;
    for i in 0..ms.len() {
        if !rec(ms, k, i, k, &mut best, &mut left) {
            return None;
        }
    }
    Some(best)
}

const ENUM_BUDGET: u64 = 60_000;

/// (match_score, gap_open, gap_extend)
const SDP_PARAMS: [(u32, i32, i32); 4] = [(1, 0, 0), (1, -1, -1), (1, -5, -1), (2, -3, -2)];

fn path_to_chain(path: &[usize], ms: &[M]) -> Option<Vec<M>> {
    let mut out = Vec::with_capacity(path.len());
    for &i in path {
        out.push(*ms.get(i)?);
    }
    Some(out)
}

/// lcskpp / sdpkpp / union on a sorted match list; returns the optimal score
fn check_chaining(ms: &[M], k: usize, cc: &mut CaseCtx) -> u64 {
    let kk = k as u64;
    let best = best_quadratic(ms, kk);
    match best_enumerated(ms, kk, ENUM_BUDGET) {
        Some(b) => assert!(b == best, "oracle disagreement: chain enumeration {} vs quadratic DP {}", b, best),
        None => cc.count("chain_enumeration_over_budget", 1),
    }
    cc.outcome(&best);

    match guard(|| lcskpp(ms, k)) {
        Err(msg) => cc.violation(format!("C19/lcskpp/panic/{}", panic_kind(&msg)), format!("lcskpp panicked: {}", msg)),
        Ok(res) => match path_to_chain(&res.path, ms) {
            None => cc.violation("C19/lcskpp/invalid-chain", format!("path {:?} has an index outside the match list (len {})", res.path, ms.len())),
            Some(chain) => match chain_score(&chain, kk) {
                Err(pos) => cc.violation(
                    "C19/lcskpp/invalid-chain",
                    format!("chain {:?}: step {} neither continues the diagonal by one nor starts >= k later in both", chain, pos),
                ),
                Ok(sc) => {
                    if sc != best {
                        cc.violation(
                            "C19/lcskpp/suboptimal-chain",
                            format!("chain {:?} scores {}, best possible {}", chain, sc, best),
                        );
                    }
                    if res.score as u64 != sc {
                        cc.violation(
                            "C19/lcskpp/score-differs-from-chain",
                            format!("reported score {}, returned chain {:?} scores {}", res.score, chain, sc),
                        );
                    }
                    if !ms.is_empty() && chain.is_empty() {
                        cc.violation("C19/lcskpp/suboptimal-chain", "empty chain for a non-empty match list");
                    }
                }
            },
        },
    }
    for &(msc, go, ge) in &SDP_PARAMS {
        match guard(|| sdpkpp(ms, k, msc, go, ge)) {
            Err(msg) => {
                cc.violation(format!("C19/sdpkpp/panic/{}", panic_kind(&msg)), format!("sdpkpp(.., {}, {}, {}, {}) panicked: {}", k, msc, go, ge, msg));
            }
            Ok(res) => {
                let ok = path_to_chain(&res.path, ms).map(|c| (chain_score(&c, kk), c));
                match ok {
                    Some((Ok(_), _)) => {}
                    Some((Err(pos), c)) => cc.violation(
                        "C19/sdpkpp/invalid-chain",
                        format!("match_score {} gap ({}, {}): chain {:?} illegal at step {}", msc, go, ge, c, pos),
                    ),
                    None => cc.violation("C19/sdpkpp/invalid-chain", format!("path {:?} has an index outside the match list", res.path)),
                }
            }
        }
        match guard(|| sdpkpp_union_lcskpp_path(ms, k, msc, go, ge)) {
            Err(msg) => {
                cc.violation(
                    format!("C19/sdpkpp_union_lcskpp_path/panic/{}", panic_kind(&msg)),
                    format!("sdpkpp_union_lcskpp_path(.., {}, {}, {}, {}) panicked: {}", k, msc, go, ge, msg),
                );
            }
            Ok(path) => {
                let ok = path_to_chain(&path, ms).map(|c| (chain_score(&c, kk), c));
                match ok {
                    Some((Ok(_), _)) => {}
                    Some((Err(pos), c)) => cc.violation(
                        "C19/sdpkpp_union_lcskpp_path/invalid-chain",
                        format!("match_score {} gap ({}, {}): chain {:?} illegal at step {}", msc, go, ge, c, pos),
                    ),
                    None => cc.violation("C19/sdpkpp_union_lcskpp_path/invalid-chain", format!("path {:?} has an index outside the match list", path)),
                }
            }
        }
    }
    best
}

// ------------------------------------------------------------------------------------------------
// sparse: sequence pairs

fn check_sparse(a: &[u8], b: &[u8], k: usize, cc: &mut CaseCtx) {
    let mut want: Vec<M> = vec![];
    if a.len() >= k && b.len() >= k {
        for i in 0..=a.len() - k {
            for j in 0..=b.len() - k {
                if a[i..i + k] == b[j..j + k] {
                    want.push((i as u32, j as u32));
                }
            }
        }
    }
    cc.outcome(&want);
    const NAMES: [&str; 3] = ["find_kmer_matches", "find_kmer_matches_seq1_hashed", "find_kmer_matches_seq2_hashed"];
    for (v, name) in NAMES.iter().enumerate() {
        let r = guard(|| match v {
            0 => find_kmer_matches(a, b, k),
            1 => find_kmer_matches_seq1_hashed(&hash_kmers(a, k), b, k),
            _ => find_kmer_matches_seq2_hashed(a, &hash_kmers(b, k), k),
        });
        match r {
            Err(msg) => cc.violation(format!("C19/{}/panic/{}", name, panic_kind(&msg)), format!("{} panicked: {}", name, msg)),
            Ok(got) => {
                if got != want {
                    let mut s = got.clone();
                    s.sort();
                    let symptom = if s == want { "not-sorted" } else { "wrong-set" };
                    cc.violation(format!("C19/{}/{}", name, symptom), format!("got {:?}, naive scan {:?}", got, want));
                }
            }
        }
    }
    let best = check_chaining(&want, k, cc);
    cc.set_nontrivial(best > k as u64);
    for mm in 0..2usize {
        match guard(|| expand_kmer_matches(a, b, k, &want, mm)) {
            Err(msg) => cc.violation(
                format!("C19/expand_kmer_matches/panic/{}", panic_kind(&msg)),
                format!("expand_kmer_matches(.., {}) panicked: {}", mm, msg),
            ),
            Ok(e) => {
                if !e.windows(2).all(|w| w[0] < w[1]) {
                    cc.violation(
                        "C19/expand_kmer_matches/not-sorted-or-duplicate",
                        format!("allowed_mismatches {}: {:?}", mm, e),
                    );
                }
                if let Some(m) = e.iter().find(|m| m.0 as usize + k > a.len() || m.1 as usize + k > b.len()) {
                    cc.violation(
                        "C19/expand_kmer_matches/out-of-range",
                        format!("allowed_mismatches {}: match {:?} does not fit a k-mer into the sequences", mm, m),
                    );
                }
                if mm == 0 && e != want {
                    cc.violation(
                        "C19/expand_kmer_matches/mm0-differs-from-input",
                        format!("expanded {:?}, complete exact match list {:?}", e, want),
                    );
                }
            }
        }
    }
}

/// (alphabet, max length quick, max length thorough)
const SPARSE_ALPHAS: [(&[u8], usize, usize); 2] = [(b"ab", 8, 10), (b"abc", 5, 6)];

fn sparse_ks(tier: Tier) -> Vec<usize> {
    tier.pick(vec![1, 2, 3], vec![1, 2, 3, 4])
}

fn sparse_unit(tier: Tier, shard: usize, nshards: usize, ctx: &mut Ctx) {
    let mut counter = 0usize;
    for &(alpha, lq, lt) in SPARSE_ALPHAS.iter() {
        let seqs = gen::strings(alpha, 0, tier.pick(lq, lt));
        for a in &seqs {
            counter += 1;
            if counter % nshards != shard {
                continue;
            }
            for b in &seqs {
                for k in sparse_ks(tier) {
                    ctx.case(
                        || json!({"kind": "sparse", "a": show(a), "b": show(b), "k": k}),
                        |cc| check_sparse(a, b, k, cc),
                    );
                }
            }
            if ctx.res.capped {
                return;
            }
        }
    }
}

// ------------------------------------------------------------------------------------------------
// chain: arbitrary sorted match lists

fn check_chain_case(ms: &[M], k: usize, cc: &mut CaseCtx) {
    let best = check_chaining(ms, k, cc);
    cc.outcome(&ms.len());
    cc.set_nontrivial(best > k as u64);
}

fn chain_case(ctx: &mut Ctx, ms: &[M], k: usize) {
    ctx.case(
        || json!({"kind": "chain", "matches": ms.iter().map(|m| vec![m.0, m.1]).collect::<Vec<_>>(), "k": k}),
        |cc| check_chain_case(ms, k, cc),
    );
}

/// (side of the completely enumerated grid, side of the sparse grid, max points on the sparse grid)
fn chain_bounds(tier: Tier) -> (u32, u32, usize) {
    tier.pick((4, 6, 5), (4, 7, 6))
}

fn chain_unit(tier: Tier, shard: usize, nshards: usize, ctx: &mut Ctx) {
    let (g1, g2, maxpts) = chain_bounds(tier);
    let extra_rows = tier.pick(0u32, 1u32); // thorough: full grid is g1 x (g1+1)
    let ks = [1usize, 2, 3];
    // family 1: every subset of the g1 x (g1 + extra) grid, sorted by construction
    let (w, h) = (g1, g1 + extra_rows);
    let cells = (w * h) as usize;
    let mut ms: Vec<M> = Vec::with_capacity(cells);
    for mask in 0u32..(1u32 << cells) {
        if mask as usize % nshards != shard {
            continue;
        }
        ms.clear();
        for bit in 0..cells {
            if mask >> bit & 1 == 1 {
                ms.push((bit as u32 / h, bit as u32 % h));
            }
        }
        for &k in &ks {
            chain_case(ctx, &ms, k);
        }
        if ctx.res.capped {
            return;
        }
    }
    // family 2: every list of 1..=maxpts points of the g2 x g2 grid that does not fit family 1
    let pts: Vec<M> = (0..g2).flat_map(|x| (0..g2).map(move |y| (x, y))).collect();
    let mut counter = 0usize;
    let mut stack: Vec<usize> = vec![];
    fn rec(
        pts: &[M],
        start: usize,
        stack: &mut Vec<usize>,
        maxpts: usize,
        f: &mut dyn FnMut(&[usize]),
    ) {
        if !stack.is_empty() {
            f(stack);
        }
        if stack.len() == maxpts {
            return;
        }
        for i in start..pts.len() {
            stack.push(i);
            rec(pts, i + 1, stack, maxpts, f);
            stack.pop();
        }
    }
    let mut cur: Vec<M> = vec![];
    rec(&pts, 0, &mut stack, maxpts, &mut |sel: &[usize]| {
        if sel.iter().all(|&i| pts[i].0 < w && pts[i].1 < h) {
            return; // inside family 1
        }
        counter += 1;
        if counter % nshards != shard || ctx.res.capped {
            return;
        }
        cur.clear();
        cur.extend(sel.iter().map(|&i| pts[i]));
        for &k in &ks {
            chain_case(ctx, &cur, k);
        }
    });
    // family 3: long thinned lists (17..64 points: event arrays beyond the small-slice regime of
    // the library's sorts).  Cell (x, y) of a G x G grid is kept iff (a*x + b*y + c) mod m is in a
    // residue set S — every (G, m, a, b, c, S): diagonals with matches exactly k apart and the
    // ones in between missing, full and empty anti-diagonals, stripes, checkerboards.
    let mut counter3 = 0usize;
    for g in tier.pick(vec![6u32, 8], vec![6u32, 7, 8, 9]) {
        for m in 2u32..=5 {
            for a in 0..m {
                for b in 0..m {
                    for c in 0..m {
                        for set in 1u32..(1u32 << m) - 1 {
                            counter3 += 1;
                            if counter3 % nshards != shard || ctx.res.capped {
                                continue;
                            }
                            cur.clear();
                            for x in 0..g {
                                for y in 0..g {
                                    if set >> ((a * x + b * y + c) % m) & 1 == 1 {
                                        cur.push((x, y));
                                    }
                                }
                            }
                            if cur.len() < 17 {
                                continue;
                            }
                            for &k in &ks {
                                chain_case(ctx, &cur, k);
                            }
                        }
                    }
                }
            }
        }
    }
}

// ------------------------------------------------------------------------------------------------
// Prop

const QGRAM_SHARDS: usize = 32;
const CODES_SHARDS: usize = 4;
const SPARSE_SHARDS: usize = 16;
const CHAIN_SHARDS: usize = 8;

impl Prop for C19Prop {
    fn id(&self) -> &'static str {
        "C19"
    }
    fn level(&self) -> &'static str {
        "exploration"
    }
    fn rule(&self) -> &'static str {
        "Complete sweeps, each tuple enumerated once: (alphabet, text, q, max_count) index listings over all |A|^q q-grams; (alphabet, text, q, pattern) exact_matches/matches(min_count 1,2,3), with Interval::get on both intervals of every reported match compared with the slice [start, stop) (and pattern slice = text slice for exact matches), every comparison route of Match (cmp, partial_cmp, <, <=, >, >=, max, min, sort) on all pairs of the matches(p, 1) list compared with the same operation on the counts, and QGramIndex::q() compared with the constructor argument; (alphabet size 1..=256, q) code injectivity / reverse mirror over all q-grams, or over a two-substitution family when q*bits reaches the word size; (seq1, seq2, k) k-mer matches, chaining and expansion on the true match list; (sorted match list, k) chaining on arbitrary lists. Non-trivial: index case - some q-gram occurs at least twice or is masked by max_count; pattern case - at least one shared q-gram and (alphabet size not a power of two, or a hit below the main diagonal, or a diagonal with >= 2 hits); codes - alphabet size not a power of two with q >= 2, or q*bits > 56; sparse/chain - the optimal chain has more than one match."
    }
    fn assumptions(&self) -> Vec<&'static str> {
        vec![
            "oracles: naive window scans; per-diagonal scan; LCSk++ optimum = quadratic DP over the sorted list, cross-checked against explicit enumeration of every legal chain (up to 60000 chains per case, count of cases above that is reported as chain_enumeration_over_budget)",
            "results of matches()/exact_matches() are compared as sorted multisets (the subject collects them through a HashMap)",
            "texts and patterns only contain symbols of the alphabet (anything else is a documented panic)",
            "Match is ordered by count alone (its Ord impl); among matches of equal count no order is demanded (max/min/sort are only checked through the counts they yield); Interval::get is only called for intervals that lie inside the sequence",
            "exact_matches/matches are checked for max_count = unlimited only (the statement does not say what masking does to them)",
            "sdpkpp / sdpkpp_union_lcskpp_path: only legality of the returned chain is demanded; expand_kmer_matches: sorted, duplicate-free, in range, and equal to the complete exact match list when 0 mismatches are allowed",
            "q*ceil(log2|A|) <= 64 (larger q is refused by an assertion and out of scope); QGramIndex only for code spaces <= 2^15",
        ]
    }
    fn bounds(&self, tier: Tier) -> Value {
        let qa: Vec<Value> = qalphas()
            .iter()
            .map(|a| json!({"alphabet": a.name, "text_len": format!("0..={}", tier.pick(a.tmax.0, a.tmax.1)), "pattern_len": format!("0..={}", tier.pick(a.pmax.0, a.pmax.1))}))
            .collect();
        let (g1, g2, maxpts) = chain_bounds(tier);
        json!({
            "qgram": {"alphabets": qa, "q": "1,2,3", "max_count": tier.pick("unlimited,1,2", "unlimited,1,2,3"), "min_count": "1,2,3"},
            "codes": {"alphabet_sizes": "1..=256 (symbols spread over 0x00..0xFF)", "complete_enumeration_while": format!("|A|^q <= {} (q <= 4)", tier.pick(70_000, 1_100_000)),
                      "wide_q": "q in {qmax/2, qmax-1, qmax}, qmax = 64/ceil(log2|A|); |A|=1: q in {4,64,65,200}; family: 5 periodic bases, <=2 substitutions at 5 positions by 4 symbols; rolling texts of q+3 symbols"},
            "sparse": {"pairs": SPARSE_ALPHAS.iter().map(|(a, q, t)| format!("{}^<={}", show(a), tier.pick(*q, *t))).collect::<Vec<_>>(),
                       "k": tier.pick("1,2,3", "1,2,3,4"), "sdpkpp (match_score, gap_open, gap_extend)": "(1,0,0),(1,-1,-1),(1,-5,-1),(2,-3,-2)", "allowed_mismatches": "0,1"},
            "chain": {"all_subsets_of_grid": format!("{}x{}", g1, g1 + tier.pick(0, 1)), "all_lists_up_to_points": maxpts, "on_grid": format!("{}x{} (lists inside the first grid excluded)", g2, g2), "k": "1,2,3", "thinned_lists": tier.pick("G in {6,8}: cells with (a*x+b*y+c) mod m in S, every m in 2..=5, a,b,c < m, non-trivial S; lists of >= 17 points", "G in {6,7,8,9}, same")}
        })
    }
    fn units(&self, _tier: Tier) -> Vec<String> {
        let mut v: Vec<String> = (0..QGRAM_SHARDS).map(|i| format!("qgram-{}", i)).collect();
        v.extend((0..CODES_SHARDS).map(|i| format!("codes-{}", i)));
        v.extend((0..SPARSE_SHARDS).map(|i| format!("sparse-{}", i)));
        v.extend((0..CHAIN_SHARDS).map(|i| format!("chain-{}", i)));
        v
    }
    fn run_unit(&self, tier: Tier, unit: usize, ctx: &mut Ctx) {
        let mut u = unit;
        if u < QGRAM_SHARDS {
            return qgram_unit(tier, u, QGRAM_SHARDS, ctx);
        }
        u -= QGRAM_SHARDS;
        if u < CODES_SHARDS {
            return codes_unit(tier, u, CODES_SHARDS, ctx);
        }
        u -= CODES_SHARDS;
        if u < SPARSE_SHARDS {
            return sparse_unit(tier, u, SPARSE_SHARDS, ctx);
        }
        u -= SPARSE_SHARDS;
        if u < CHAIN_SHARDS {
            chain_unit(tier, u, CHAIN_SHARDS, ctx);
        }
    }
    fn replay(&self, case: &Value, ctx: &mut Ctx) {
        let s = |f: &str| unshow(case[f].as_str().unwrap_or(""));
        let u = |f: &str| case[f].as_u64().unwrap_or(0);
        match case["kind"].as_str().unwrap_or("") {
            "index" => {
                let (alpha, text, q) = (s("alpha"), s("text"), u("q") as u32);
                let mc = case["max_count"].as_u64().map(|x| x as usize);
                ctx.case(|| case.clone(), |cc| check_index(&alpha, &text, q, mc, cc));
            }
            "pattern" => {
                let (alpha, text, q, p) = (s("alpha"), s("text"), u("q") as u32, s("p"));
                ctx.case(
                    || case.clone(),
                    |cc| {
                        let alphabet = Alphabet::new(&alpha);
                        match guard(|| QGramIndex::new(q, &text[..], &alphabet)) {
                            Ok(idx) => check_pattern(&idx, alpha.len(), &text, q, &p, cc),
                            Err(msg) => cc.violation(
                                format!("C19/qgram-index/construct/panic/{}", panic_kind(&msg)),
                                format!("QGramIndex::new panicked: {}", msg),
                            ),
                        }
                    },
                );
            }
            "codes" => {
                let (n, q) = (u("n") as usize, u("q") as u32);
                ctx.case(|| case.clone(), |cc| check_codes_full(n, q, cc));
            }
            "codes-wide" => {
                let (n, q) = (u("n") as usize, u("q") as u32);
                ctx.case(|| case.clone(), |cc| check_codes_wide(n, q, cc));
            }
            "sparse" => {
                let (a, b, k) = (s("a"), s("b"), u("k") as usize);
                ctx.case(|| case.clone(), |cc| check_sparse(&a, &b, k, cc));
            }
            "chain" => {
                let ms: Vec<M> = case["matches"]
                    .as_array()
                    .map(|v| v.iter().map(|m| (m[0].as_u64().unwrap() as u32, m[1].as_u64().unwrap() as u32)).collect())
                    .unwrap_or_default();
                let k = u("k") as usize;
                ctx.case(|| case.clone(), |cc| check_chain_case(&ms, k, cc));
            }
            _ => {}
        }
    }
}
