//! C08 — ShiftAnd, BNDM, BOM, Horspool, KMP return exactly all occurrences.
//! K1 sweep over (pattern, text) with three byte embeddings, word-size boundary families, and a
//! reuse clause (one matcher object, interleaved iterators over several texts).

use super::Prop;
use crate::ctx::{guard, show, unshow, CaseCtx, Ctx, Tier};
use crate::gen;
use bio::pattern_matching::{bndm::BNDM, bom::BOM, horspool::Horspool, kmp::KMP, shift_and::ShiftAnd};
use serde_json::{json, Value};

pub struct C08Prop;
pub static C08: C08Prop = C08Prop;

const MATCHERS: [&str; 5] = ["shift_and", "bndm", "bom", "horspool", "kmp"];

pub fn naive(p: &[u8], t: &[u8]) -> Vec<usize> {
    if p.is_empty() || t.len() < p.len() {
        return vec![];
    }
    (0..=t.len() - p.len()).filter(|&i| &t[i..i + p.len()] == p).collect()
}

fn run_matcher(which: usize, p: &[u8], t: &[u8]) -> Result<Vec<usize>, String> {
    guard(|| match which {
        0 => ShiftAnd::new(p).find_all(t).collect(),
        1 => BNDM::new(p).find_all(t).collect(),
        2 => BOM::new(p).find_all(t).collect(),
        3 => Horspool::new(p).find_all(t).collect(),
        _ => KMP::new(p).find_all(t).collect(),
    })
}

fn len_class(m: usize) -> &'static str {
    if m < 64 {
        "len<=63"
    } else if m == 64 {
        "len64"
    } else {
        "len>64"
    }
}

fn has_border(p: &[u8]) -> bool {
    (1..p.len()).any(|b| p[..b] == p[p.len() - b..])
}

fn check_pair(p: &[u8], t: &[u8], cc: &mut CaseCtx) {
    let want = naive(p, t);
    check_pair_against(p, t, want, None, cc)
}

/// all occurrences by the Z-function of the pattern (linear time; used where the quadratic scan
/// is too slow).  z[i] = length of the longest common prefix of p and p[i..].
pub fn z_occurrences(p: &[u8], t: &[u8]) -> Vec<usize> {
    let m = p.len();
    if m == 0 || t.len() < m {
        return vec![];
    }
    let mut z = vec![0usize; m];
    z[0] = m;
    let (mut l, mut r) = (0usize, 0usize);
    for i in 1..m {
        if i < r {
            z[i] = z[i - l].min(r - i);
        }
        while i + z[i] < m && p[z[i]] == p[i + z[i]] {
            z[i] += 1;
        }
        if i + z[i] > r {
            l = i;
            r = i + z[i];
        }
    }
    // match the text against p with the same window technique
    let mut out = vec![];
    let (mut l, mut r) = (0usize, 0usize); // t[l..r) matches p[0..r-l)
    for i in 0..t.len() {
        let mut k = 0usize;
        if i < r {
            k = z[i - l].min(r - i);
            if i - l >= m {
                k = 0;
            }
        }
        while k < m && i + k < t.len() && p[k] == t[i + k] {
            k += 1;
        }
        if i + k > r {
            l = i;
            r = i + k;
        }
        if k == m {
            out.push(i);
        }
    }
    out
}

/// `only`: restrict to one matcher (the quadratic worst case of Horspool/BOM makes some huge
/// inputs infeasible for them; KMP is linear)
fn check_pair_against(p: &[u8], t: &[u8], want: Vec<usize>, only: Option<usize>, cc: &mut CaseCtx) {
    cc.set_nontrivial(has_border(p) && want.len() >= 1 || want.len() >= 2);
    cc.outcome(&want);
    for (w, name) in MATCHERS.iter().enumerate() {
        if only.map_or(false, |o| o != w) {
            continue;
        }
        let bitparallel = w < 2;
        match run_matcher(w, p, t) {
            Err(msg) => {
                if bitparallel && p.len() > 64 {
                    continue; // documented limit: refusing is the required behaviour
                }
                cc.violation(
                    format!("C08/{}/{}/panic", name, len_class(p.len())),
                    format!("{} panicked: {}", name, msg),
                );
            }
            Ok(got) => {
                if bitparallel && p.len() > 64 {
                    cc.violation(
                        format!("C08/{}/len>64/answered-instead-of-refusing", name),
                        format!("pattern of {} symbols accepted, result {:?}", p.len(), got),
                    );
                    continue;
                }
                if got != want {
                    let symptom = if got.iter().any(|x| !want.contains(x)) {
                        "spurious-or-misordered"
                    } else {
                        "missing"
                    };
                    cc.violation(
                        format!("C08/{}/{}/{}", name, len_class(p.len()), symptom),
                        format!("{} returned {:?}, naive scan {:?}", name, got, want),
                    );
                }
            }
        }
    }
}

/// one matcher object, three texts, iterators interleaved; each answer must equal the naive one
fn check_reuse(p: &[u8], ts: &[Vec<u8>; 3], cc: &mut CaseCtx) {
    let wants: Vec<Vec<usize>> = ts.iter().map(|t| naive(p, t)).collect();
    cc.set_nontrivial(wants.iter().filter(|w| !w.is_empty()).count() >= 2);
    cc.outcome(&wants);
    macro_rules! interleave {
        ($name:expr, $m:expr) => {{
            let r = guard(|| {
                let m = $m;
                let mut a = m.find_all(&ts[0][..]);
                let first = a.next();
                let b: Vec<usize> = m.find_all(&ts[1][..]).collect();
                let mut c = m.find_all(&ts[2][..]);
                let c1 = c.next();
                let mut av: Vec<usize> = first.into_iter().collect();
                av.extend(a);
                let mut cv: Vec<usize> = c1.into_iter().collect();
                cv.extend(c);
                let again: Vec<usize> = m.find_all(&ts[0][..]).collect();
                vec![av, b, cv, again]
            });
            match r {
                Err(msg) => cc.violation(format!("C08/{}/reuse/panic", $name), msg),
                Ok(got) => {
                    let exp = vec![wants[0].clone(), wants[1].clone(), wants[2].clone(), wants[0].clone()];
                    if got != exp {
                        cc.violation(
                            format!("C08/{}/reuse/answer-depends-on-history", $name),
                            format!("got {:?} expected {:?}", got, exp),
                        );
                    }
                }
            }
        }};
    }
    interleave!("shift_and", ShiftAnd::new(p));
    interleave!("bndm", BNDM::new(p));
    interleave!("bom", BOM::new(p));
    interleave!("horspool", Horspool::new(p));
    interleave!("kmp", KMP::new(p));
}

const EMBEDDINGS: [&[u8]; 3] = [b"abc", &[0x00, 0xFF, 0x80], &[0x7F, 0x80, 0x01]];

fn pair_case(ctx: &mut Ctx, p: &[u8], t: &[u8]) {
    ctx.case(
        || json!({"kind": "pair", "p": show(p), "t": show(t)}),
        |cc| check_pair(p, t, cc),
    );
}

fn small_sweep(tier: Tier, shard: usize, nshards: usize, ctx: &mut Ctx) {
    // {a,b}: p in 1..=P, t in 0..=T ; {a,b,c}: p<=P3, t<=T3
    let (pmax, tmax, p3, t3) = tier.pick((7, 13, 4, 8), (9, 15, 5, 10));
    let mut idx = 0usize;
    for (alpha, pm, tm) in [(&b"ab"[..], pmax, tmax), (&b"abc"[..], p3, t3)] {
        let pats = gen::strings(alpha, 1, pm);
        let texts = gen::strings(alpha, 0, tm);
        for p in &pats {
            idx += 1;
            if idx % nshards != shard {
                continue;
            }
            for (e, emb) in EMBEDDINGS.iter().enumerate() {
                if e > 0 && tier == Tier::Quick && p.len() > 4 {
                    continue;
                }
                let pe = gen::embed(p, b"abc", emb);
                for t in &texts {
                    let te = gen::embed(t, b"abc", emb);
                    pair_case(ctx, &pe, &te);
                }
            }
        }
    }
}

fn boundary_patterns(tier: Tier) -> Vec<Vec<u8>> {
    let lens: &[usize] = match tier {
        Tier::Quick => &[31, 32, 33, 63, 64, 65],
        Tier::Thorough => &[15, 16, 17, 31, 32, 33, 62, 63, 64, 65, 66, 128],
    };
    let mut out = vec![];
    for u in gen::strings(b"ab", 1, 3) {
        for &l in lens {
            let base = gen::periodic(&u, l);
            out.push(base.clone());
            let flip = |c: u8| if c == b'a' { b'b' } else { b'a' };
            let mut x = base.clone();
            x[l - 1] = flip(x[l - 1]);
            out.push(x);
            let mut y = base.clone();
            y[0] = flip(y[0]);
            out.push(y);
            if tier == Tier::Thorough {
                let mut z = base.clone();
                z[l / 2] = flip(z[l / 2]);
                out.push(z);
            }
        }
    }
    out.sort();
    out.dedup();
    out
}

fn boundary_texts(p: &[u8]) -> Vec<Vec<u8>> {
    let l = p.len();
    let mut out: Vec<Vec<u8>> = vec![];
    let flip = |c: u8| if c == b'a' { b'b' } else { b'a' };
    for flank in [&b""[..], &b"b"[..], &b"ab"[..], &b"aaa"[..]] {
        for extra in [0usize, 1, l / 2, l] {
            let mut t = flank.to_vec();
            t.extend_from_slice(p);
            t.extend_from_slice(&p[..extra]);
            t.extend_from_slice(flank);
            out.push(t);
        }
    }
    for pos in [0usize, 1, l / 2, l - 1] {
        let mut t = p.to_vec();
        t.extend_from_slice(p);
        t[pos] = flip(t[pos]);
        out.push(t.clone());
        let mut t2 = p.to_vec();
        t2.extend_from_slice(p);
        t2[l + pos] = flip(t2[l + pos]);
        out.push(t2);
    }
    out.push(p[..l - 1].to_vec()); // one shorter than the pattern
    out.push(p.to_vec());
    out.push(vec![]);
    let mut ppp = p.to_vec();
    ppp.extend_from_slice(p);
    ppp.extend_from_slice(p);
    out.push(ppp);
    out.sort();
    out.dedup();
    out
}

fn boundary_family(tier: Tier, shard: usize, nshards: usize, ctx: &mut Ctx) {
    for (i, p) in boundary_patterns(tier).iter().enumerate() {
        if i % nshards != shard {
            continue;
        }
        for t in boundary_texts(p) {
            pair_case(ctx, p, &t);
            if tier == Tier::Thorough || p.len() >= 63 {
                let pe = gen::embed(p, b"abc", EMBEDDINGS[1]);
                let te = gen::embed(&t, b"abc", EMBEDDINGS[1]);
                pair_case(ctx, &pe, &te);
            }
        }
    }
}

// ------------------------------------------------------------------ patterns beyond 2^16 symbols
// (tables indexed or filled with pattern positions must not be narrower than usize)

fn huge_pattern(u: &[u8], m: usize, break_last: bool) -> Vec<u8> {
    let mut p: Vec<u8> = u.iter().cycle().take(m).cloned().collect();
    if break_last {
        let last = p[m - 1];
        p[m - 1] = if last == b'z' { b'y' } else { b'z' };
    }
    p
}

/// text shapes: 0 = the period continued for 8 more symbols (overlapping occurrences),
/// 1 = the pattern with its last symbol spoiled, then the pattern (partial occurrence, then a real
/// one that overlaps nothing), 2 = one symbol, then the pattern twice overlapping by half
fn huge_text(u: &[u8], p: &[u8], shape: u8) -> Vec<u8> {
    let m = p.len();
    match shape {
        0 => {
            let mut t: Vec<u8> = u.iter().cycle().take(m + 8).cloned().collect();
            // keep the pattern's own last symbol where the first occurrence ends
            t[m - 1] = p[m - 1];
            t
        }
        1 => {
            let mut t = p[..m - 1].to_vec();
            t.push(b'#');
            t.extend_from_slice(p);
            t
        }
        _ => {
            let mut t = vec![b'#'];
            t.extend_from_slice(p);
            let h = (m / 2 / u.len()) * u.len();
            t.extend_from_slice(&p[m - h..]);
            t.extend_from_slice(&p[..]);
            t
        }
    }
}

fn huge_case(u: &[u8], m: usize, break_last: bool, shape: u8, cc: &mut CaseCtx) {
    let p = huge_pattern(u, m, break_last);
    let t = huge_text(u, &p, shape);
    let want = z_occurrences(&p, &t);
    // shapes 1 and 2 have |t| - |p| of the order of |p|: only the linear-time matcher
    let only = if shape == 0 || m <= 300 { None } else { Some(4) };
    check_pair_against(&p, &t, want, only, cc);
}

fn huge_unit(tier: Tier, ctx: &mut Ctx) {
    let lens: Vec<usize> = tier.pick(vec![255, 256, 257, 65_535, 65_536, 65_537, 70_000], vec![255, 256, 257, 65_535, 65_536, 65_537, 70_000, 131_073, 200_001]);
    // the linear oracle is validated against the quadratic scan on every pair over {a,b}^<=6 x
    // {a,b}^<=9 and on the small members of the family; a disagreement is a bug of this check
    // (machinery error), never a verdict
    for p in gen::strings(b"ab", 1, 6) {
        for t in gen::strings(b"ab", 0, 9) {
            assert_eq!(z_occurrences(&p, &t), naive(&p, &t), "oracle self-check failed on {:?} {:?}", p, t);
        }
    }
    for u in [&b"a"[..], b"ab", b"aab"] {
        for &m in &lens {
            for break_last in [false, true] {
                for shape in 0..3u8 {
                    if m <= 300 {
                        let p = huge_pattern(u, m, break_last);
                        let t = huge_text(u, &p, shape);
                        assert_eq!(z_occurrences(&p, &t), naive(&p, &t), "oracle self-check failed (family member)");
                    }
                    ctx.case(
                        || json!({"kind": "huge", "u": show(u), "m": m, "break_last": break_last, "shape": shape}),
                        |cc| huge_case(u, m, break_last, shape, cc),
                    );
                }
            }
        }
    }
}

fn reuse_unit(tier: Tier, ctx: &mut Ctx) {
    let pats = gen::strings(b"ab", 1, tier.pick(3, 4));
    let texts: Vec<Vec<u8>> = vec![
        b"".to_vec(),
        b"a".to_vec(),
        b"abab".to_vec(),
        b"aaaaaa".to_vec(),
        b"bbabbabab".to_vec(),
        b"abaabaaabaabab".to_vec(),
    ];
    for p in &pats {
        for a in &texts {
            for b in &texts {
                for c in &texts {
                    let ts = [a.clone(), b.clone(), c.clone()];
                    ctx.case(
                        || json!({"kind": "reuse", "p": show(p), "texts": [show(a), show(b), show(c)]}),
                        |cc| check_reuse(p, &ts, cc),
                    );
                }
            }
        }
    }
}

const SWEEP_SHARDS: usize = 24;
const BOUNDARY_SHARDS: usize = 6;

impl Prop for C08Prop {
    fn id(&self) -> &'static str {
        "C08"
    }
    fn level(&self) -> &'static str {
        "exploration"
    }
    fn rule(&self) -> &'static str {
        "Complete sweep of (pattern, text) pairs over small alphabets pushed through three byte embeddings, plus periodic patterns of lengths around 32/64 with flank/overlap/one-flip texts, plus one-object reuse with interleaved iterators; every (pattern,text[,texts]) tuple is enumerated once. Non-trivial: the pattern has a proper border and occurs, or occurs at least twice (reuse: at least two of the three texts contain it)."
    }
    fn assumptions(&self) -> Vec<&'static str> {
        vec![
            "oracle: naive window comparison",
            "patterns longer than 64 must be refused by ShiftAnd/BNDM (constructor panic is the documented contract)",
            "subject built with overflow checks and debug assertions on, as in the pinned test profile",
        ]
    }
    fn bounds(&self, tier: Tier) -> Value {
        let (pmax, tmax, p3, t3) = tier.pick((7, 13, 4, 8), (9, 15, 5, 10));
        json!({
            "binary": {"pattern_len": format!("1..={}", pmax), "text_len": format!("0..={}", tmax)},
            "ternary": {"pattern_len": format!("1..={}", p3), "text_len": format!("0..={}", t3)},
            "embeddings": ["a,b,c", "0x00,0xFF,0x80", "0x7F,0x80,0x01"],
            "boundary_lengths": tier.pick("31,32,33,63,64,65", "15,16,17,31,32,33,62,63,64,65,66,128"),
            "reuse": "patterns {a,b}^{1..3|4} x ordered triples of 6 texts, iterators interleaved",
            "huge_patterns": tier.pick("periodic patterns u^r (u in a, ab, aab; last symbol kept or broken) of length 255,256,257,65535,65536,65537,70000 x 3 text shapes (period continued, spoiled partial occurrence then a real one, two occurrences overlapping by half — the last two shapes for KMP only above length 300, the others are quadratic there); oracle = Z-function", "as quick plus lengths 131073, 200001")
        })
    }
    fn units(&self, _tier: Tier) -> Vec<String> {
        let mut v: Vec<String> = (0..SWEEP_SHARDS).map(|i| format!("sweep-{}", i)).collect();
        v.extend((0..BOUNDARY_SHARDS).map(|i| format!("boundary-{}", i)));
        v.push("reuse".into());
        v.push("huge-patterns".into());
        v
    }
    fn run_unit(&self, tier: Tier, unit: usize, ctx: &mut Ctx) {
        if unit < SWEEP_SHARDS {
            small_sweep(tier, unit, SWEEP_SHARDS, ctx);
        } else if unit < SWEEP_SHARDS + BOUNDARY_SHARDS {
            boundary_family(tier, unit - SWEEP_SHARDS, BOUNDARY_SHARDS, ctx);
        } else if unit == SWEEP_SHARDS + BOUNDARY_SHARDS {
            reuse_unit(tier, ctx);
        } else {
            huge_unit(tier, ctx);
        }
    }
    fn replay(&self, case: &Value, ctx: &mut Ctx) {
        if case["kind"] == "huge" {
            let u = unshow(case["u"].as_str().unwrap_or("a"));
            let m = case["m"].as_u64().unwrap() as usize;
            let bl = case["break_last"].as_bool().unwrap_or(false);
            let shape = case["shape"].as_u64().unwrap_or(0) as u8;
            ctx.case(|| case.clone(), |cc| huge_case(&u, m, bl, shape, cc));
            return;
        }
        let p = unshow(case["p"].as_str().unwrap_or(""));
        if case["kind"] == "reuse" {
            let ts: Vec<Vec<u8>> = case["texts"]
                .as_array()
                .unwrap()
                .iter()
                .map(|t| unshow(t.as_str().unwrap()))
                .collect();
            let ts = [ts[0].clone(), ts[1].clone(), ts[2].clone()];
            ctx.case(|| case.clone(), |cc| check_reuse(&p, &ts, cc));
        } else {
            let t = unshow(case["t"].as_str().unwrap_or(""));
            ctx.case(|| case.clone(), |cc| check_pair(&p, &t, cc));
        }
    }
}
