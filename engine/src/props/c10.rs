//! C10 — Myers traceback yields valid alignments, consistent across the eager API, the lazy API
//! and find_all_end, identical between the one-word and the block-based implementations; lazy
//! queries at ends not yet searched are refused; one object can be reused across searches.
//!
//! * K1: (pattern, text, k) sweeps through every entry point of `FullMatches` and a scripted
//!   `LazyMatches` session, path validator + DP as oracle, cross-implementation comparison;
//! * K2 "lazy-bfs": breadth-first search over the states of a `LazyMatches` session (state key =
//!   complete Debug rendering of the object, which derives Debug over all fields), every operation
//!   {next, hit_at(e), path_at(e), alignment_at(e) | e in 0..=|t|} from every reachable state;
//!   `LazyMatches` borrows the matcher, so every history is replayed from a fresh object;
//! * K2 "lazy-interleave": all operation sequences of a fixed length, no state merging;
//! * K2 "reuse": breadth-first search over one `Myers` object (Clone + Hash + Eq over all fields)
//!   driven through sequences of complete/abandoned searches; every answer equals a fresh object's.
//! * states of a `FullMatches` without a current hit: every K1 case also calls alignment() on a
//!   fresh object (`Pass::Fresh`) and start/path/path_reverse/alignment and every next_*() after
//!   next_end() has returned None (end of `Pass::Current`); K2 "eager-seq": all call sequences of a fixed length over the
//!   nine methods of `FullMatches`; "fresh-alignment": the rustdoc of alignment() on a fresh object;
//! * K1 "deact": the block de-activation family of C09 through every entry point.

use super::c09::{
    ambig_model, boundary_patterns, boundary_texts, build, clamp_set, classify_list, deact_plan, deact_texts, panic_symptom,
    AnyMyers, Imp, FOREIGN, IMPS, K,
};
use super::Prop;
use crate::bfs;
use crate::ctx::{guard, hash_of, show, unshow, CaseCtx, Ctx, Tier};
use crate::gen;
use crate::on_myers;
use crate::oracles::edit::{self, EqModel};
use bio::alignment::{Alignment, AlignmentMode, AlignmentOperation};
use serde::{Deserialize, Serialize};
use serde_json::{json, Value};

pub struct C10Prop;
pub static C10: C10Prop = C10Prop;

type Ops = Vec<AlignmentOperation>;

/// a hit with its alignment; `end` is exclusive
#[derive(Clone, Debug, PartialEq, Eq, Hash)]
struct Hit {
    start: usize,
    end: usize,
    dist: u64,
    ops: Ops,
}

/// observable content of an `Alignment`
/// (score, xstart, xend, xlen, ystart, yend, ylen, mode is Semiglobal, operations)
type AlnT = (i32, usize, usize, usize, usize, usize, usize, bool, Ops);

fn aln_tuple(a: &Alignment) -> AlnT {
    (
        a.score,
        a.xstart,
        a.xend,
        a.xlen,
        a.ystart,
        a.yend,
        a.ylen,
        a.mode == AlignmentMode::Semiglobal,
        a.operations.clone(),
    )
}

fn expected_aln(h: &Hit, m: usize, tlen: usize) -> AlnT {
    (h.dist as i32, 0, m, m, h.start, h.end, tlen, true, h.ops.clone())
}

/// an Alignment filled with values no search can produce, so that a field the subject forgets to
/// set is visible
fn poisoned() -> Alignment {
    Alignment {
        score: -77,
        ystart: 91,
        xstart: 92,
        yend: 93,
        xend: 94,
        ylen: 95,
        xlen: 96,
        operations: vec![AlignmentOperation::Xclip(3)],
        mode: AlignmentMode::Global,
    }
}

fn fam(imp: Imp, m: usize, via_builder: bool) -> String {
    format!("{}{}", imp.family(m), if via_builder { "-builder" } else { "" })
}

fn vkey(fam: &str, entry: &str, symptom: &str) -> String {
    format!("C10/{}/{}/{}", fam, entry, symptom)
}

// ------------------------------------------------------------------ executing the eager API

#[derive(Clone, Copy, Debug, PartialEq, Eq)]
enum Pass {
    Ends,
    NextPath,
    Iter,
    Current,
    NextPathRev,
    NextAln,
    /// alignment() on the fresh object, nothing else
    Fresh,
}

/// what the current-hit accessors answer in a state without a current hit
#[derive(Clone, Debug, Default, PartialEq, Eq, Hash)]
struct NoHit {
    start: Option<usize>,
    path_start: Option<usize>,
    path: Ops,
    rev_start: Option<usize>,
    rev: Ops,
    aln_ok: bool,
    aln: Option<AlnT>,
    start_again: Option<usize>,
}

/// the vector handed to path()/path_reverse()/next_path() in a state without a current hit
fn marker_ops() -> Ops {
    vec![AlignmentOperation::Xclip(1)]
}

/// results of the advancing calls once the search is exhausted
#[derive(Clone, Debug, Default, PartialEq, Eq, Hash)]
struct Beyond {
    next_end: Option<(usize, u64)>,
    next: Option<(usize, usize, u64)>,
    next_path: Option<(usize, usize, u64)>,
    next_path_ops: Ops,
    next_path_rev: Option<(usize, usize, u64)>,
    next_path_rev_ops: Ops,
    next_aln_ok: bool,
    next_aln: Option<AlnT>,
}

#[derive(Clone, Debug, Default)]
struct Cur {
    end: usize,
    dist: u64,
    start: Option<usize>,
    path_start: Option<usize>,
    path: Ops,
    aln_ok: bool,
    aln: Option<AlnT>,
    rev_start: Option<usize>,
    rev: Ops,
    start_again: Option<usize>,
}

#[derive(Clone, Debug, Default)]
struct EagerObs {
    ends: Vec<(usize, u64)>,
    hits: Vec<Hit>,
    triples: Vec<(usize, usize, u64)>,
    cur: Vec<Cur>,
    alns: Vec<AlnT>,
    /// Fresh pass: alignment() on the fresh object
    fresh_aln: Option<(bool, AlnT)>,
    /// Current pass: accessors after next_end() returned None, and once more after the advancing calls
    after: Vec<NoHit>,
    beyond: Option<Beyond>,
    /// Current pass: panic message of a call made after next_end() returned None
    after_panic: Option<String>,
}

fn exec_eager(my: &mut AnyMyers, t: &[u8], k: u64, pass: Pass) -> Result<EagerObs, String> {
    guard(|| {
        on_myers!(my, m => {
            let mut o = EagerObs::default();
            match pass {
                Pass::Ends => {
                    o.ends = m.find_all_end(t, k as _).map(|(e, d)| (e, d as u64)).collect();
                }
                Pass::NextPath => {
                    let mut fm = m.find_all(t, k as _);
                    let mut ops = vec![AlignmentOperation::Xclip(1)];
                    while let Some((s, e, d)) = fm.next_path(&mut ops) {
                        o.hits.push(Hit { start: s, end: e, dist: d as u64, ops: ops.clone() });
                    }
                }
                Pass::NextPathRev => {
                    let mut fm = m.find_all(t, k as _);
                    let mut ops = vec![AlignmentOperation::Xclip(1)];
                    while let Some((s, e, d)) = fm.next_path_reverse(&mut ops) {
                        o.hits.push(Hit { start: s, end: e, dist: d as u64, ops: ops.clone() });
                    }
                }
                Pass::Iter => {
                    o.triples = m.find_all(t, k as _).map(|(s, e, d)| (s, e, d as u64)).collect();
                }
                Pass::NextAln => {
                    let mut fm = m.find_all(t, k as _);
                    loop {
                        let mut a = poisoned();
                        if !fm.next_alignment(&mut a) {
                            break;
                        }
                        o.alns.push(aln_tuple(&a));
                    }
                }
                Pass::Fresh => {
                    let mut fm = m.find_all(t, k as _);
                    let mut a = poisoned();
                    let ok = fm.alignment(&mut a);
                    o.fresh_aln = Some((ok, aln_tuple(&a)));
                }
                Pass::Current => {
                    let mut fm = m.find_all(t, k as _);
                    while let Some((e, d)) = fm.next_end() {
                        let mut c = Cur { end: e, dist: d as u64, ..Default::default() };
                        c.start = fm.start();
                        c.path = vec![AlignmentOperation::Xclip(1)];
                        c.path_start = fm.path(&mut c.path);
                        let mut a = poisoned();
                        c.aln_ok = fm.alignment(&mut a);
                        c.aln = Some(aln_tuple(&a));
                        c.rev = vec![AlignmentOperation::Xclip(1)];
                        c.rev_start = fm.path_reverse(&mut c.rev);
                        c.start_again = fm.start();
                        o.cur.push(c);
                    }
                    // next_end() has returned None: the accessors without a current hit, every
                    // next_*() once more, the accessors again (guarded on its own so that a panic
                    // here is not taken for one at a current hit)
                    let r = guard(|| {
                        let mut after = vec![];
                        let mut beyond = None;
                        for round in 0..2 {
                            let mut x = NoHit { start: fm.start(), path: marker_ops(), rev: marker_ops(), ..Default::default() };
                            x.path_start = fm.path(&mut x.path);
                            x.rev_start = fm.path_reverse(&mut x.rev);
                            let mut a = poisoned();
                            x.aln_ok = fm.alignment(&mut a);
                            x.aln = Some(aln_tuple(&a));
                            x.start_again = fm.start();
                            after.push(x);
                            if round == 0 {
                                let mut b = Beyond { next_path_ops: marker_ops(), next_path_rev_ops: marker_ops(), ..Default::default() };
                                b.next_end = fm.next_end().map(|(e, d)| (e, d as u64));
                                b.next = fm.next().map(|(s, e, d)| (s, e, d as u64));
                                b.next_path = fm.next_path(&mut b.next_path_ops).map(|(s, e, d)| (s, e, d as u64));
                                b.next_path_rev = fm.next_path_reverse(&mut b.next_path_rev_ops).map(|(s, e, d)| (s, e, d as u64));
                                let mut a = poisoned();
                                b.next_aln_ok = fm.next_alignment(&mut a);
                                b.next_aln = Some(aln_tuple(&a));
                                beyond = Some(b);
                            }
                        }
                        (after, beyond)
                    });
                    match r {
                        Ok((after, beyond)) => {
                            o.after = after;
                            o.beyond = beyond;
                        }
                        Err(msg) => o.after_panic = Some(msg),
                    }
                }
            }
            o
        })
    })
}

// ------------------------------------------------------------------ executing the lazy API

#[derive(Clone, Copy, Debug, PartialEq, Eq, Hash, Serialize, Deserialize)]
enum LOp {
    Next,
    HitAt(usize),
    PathAt(usize),
    AlnAt(usize),
}

impl LOp {
    fn entry(&self) -> &'static str {
        match self {
            LOp::Next => "lazy-next",
            LOp::HitAt(_) => "hit_at",
            LOp::PathAt(_) => "path_at",
            LOp::AlnAt(_) => "alignment_at",
        }
    }
}

#[derive(Clone, Debug, PartialEq, Eq, Hash)]
enum LObs {
    Next(Option<(usize, u64)>),
    Hit(Option<(usize, u64)>),
    Path(Option<(usize, u64)>, Ops),
    Aln(bool, AlnT),
    /// the query panicked (message)
    Panicked(String),
}

/// 128-bit digest of the complete Debug rendering (two independent SipHash passes)
fn digest(s: &str) -> u128 {
    ((hash_of(&(0x9e37u64, s)) as u128) << 64) | hash_of(&(0x85ebu64, s)) as u128
}

/// Run `ops` on a fresh `LazyMatches` of `my`; observations are appended to `out`. Every query is
/// guarded on its own (queries take &self, so the session survives a panicking query); a panic in
/// next() or in find_all_lazy ends the history with Err. With `want_key` the digest of the Debug
/// rendering of the session object after the last operation is returned.
fn exec_lazy(
    my: &mut AnyMyers,
    t: &[u8],
    k: u64,
    ops: &[LOp],
    out: &mut Vec<LObs>,
    want_key: bool,
) -> Result<Option<u128>, String> {
    guard(|| {
        on_myers!(my, m => {
            let mut lz = m.find_all_lazy(t, k as _);
            for op in ops {
                let o = match *op {
                    LOp::Next => LObs::Next(lz.next().map(|(e, d)| (e, d as u64))),
                    LOp::HitAt(e) => match guard(|| lz.hit_at(e).map(|(s, d)| (s, d as u64))) {
                        Ok(r) => LObs::Hit(r),
                        Err(msg) => LObs::Panicked(msg),
                    },
                    LOp::PathAt(e) => {
                        // path_at appends to the vector it is given (it does not clear it), so it
                        // gets an empty one
                        let mut v = vec![];
                        match guard(|| lz.path_at(e, &mut v).map(|(s, d)| (s, d as u64))) {
                            Ok(r) => LObs::Path(r, v),
                            Err(msg) => LObs::Panicked(msg),
                        }
                    }
                    LOp::AlnAt(e) => {
                        let mut a = poisoned();
                        match guard(|| lz.alignment_at(e, &mut a)) {
                            Ok(ok) => LObs::Aln(ok, aln_tuple(&a)),
                            Err(msg) => LObs::Panicked(msg),
                        }
                    }
                };
                out.push(o);
            }
            if want_key {
                Some(digest(&format!("{:?}", lz)))
            } else {
                None
            }
        })
    })
}

/// everything the reference model of a lazy session needs
struct LazyModel<'a> {
    fam: &'a str,
    m: usize,
    /// the pattern spans more than one block of this implementation
    multiblock: bool,
    /// block-based implementation
    long: bool,
    tlen: usize,
    /// hits by the DP: (end, distance)
    want: &'a [(usize, u64)],
    /// the same hits as reported (and validated) through the eager API of a fresh object
    reference: &'a [Hit],
}

/// Compare the observations of a lazy history with the model. Violations are reported for
/// operations with index >= `report_from` only (earlier ones were reported by the transition that
/// introduced them). Returns false if a violation was reported.
fn check_lazy(model: &LazyModel, ops: &[LOp], obs: &[LObs], report_from: usize, cc: &mut CaseCtx) -> bool {
    let mut consumed = 0usize; // text positions 0..consumed have been searched
    let mut next_idx = 0usize;
    let mut ok = true;
    let mut interesting = false;
    for (i, (op, ob)) in ops.iter().zip(obs).enumerate() {
        let rep = i >= report_from;
        match (*op, ob) {
            (LOp::Next, LObs::Next(got)) => {
                let exp = model.want.get(next_idx).cloned();
                match exp {
                    Some((e, _)) => {
                        consumed = e + 1;
                        next_idx += 1;
                    }
                    None => consumed = model.tlen,
                }
                if *got != exp {
                    if rep {
                        cc.violation(
                            vkey(model.fam, "lazy-next", "hit-list-differs"),
                            format!("op #{} next() returned {:?}, DP gives {:?}", i, got, exp),
                        );
                        ok = false;
                    }
                    // the model and the object are out of step now
                    return ok;
                }
            }
            (LOp::HitAt(e), _) | (LOp::PathAt(e), _) | (LOp::AlnAt(e), _) => {
                let searched = e < consumed;
                let hit = model.reference.iter().find(|h| h.end == e + 1);
                if let LObs::Panicked(msg) = ob {
                    // Ends that were searched but are not hits are outside the documented domain of
                    // the block-based version (columns above the threshold are not computed); the
                    // one-word version documents that it answers there.
                    let tolerated = searched && hit.is_none() && model.long;
                    if !tolerated && rep {
                        let class = if !searched {
                            "unsearched-end"
                        } else if hit.is_some() {
                            "searched-hit"
                        } else {
                            "searched-non-hit"
                        };
                        cc.violation(
                            vkey(model.fam, op.entry(), &format!("{}-{}", class, panic_symptom(msg))),
                            format!("op #{} {:?} panicked: {}", i, op, msg),
                        );
                        ok = false;
                    }
                    continue;
                }
                // normalise the three observation shapes
                let (answered, start_dist, path, aln): (bool, Option<(usize, u64)>, Option<&Ops>, Option<&AlnT>) = match ob {
                    LObs::Hit(r) => (r.is_some(), *r, None, None),
                    LObs::Path(r, v) => (r.is_some(), *r, Some(v), None),
                    LObs::Aln(b, a) => (*b, None, None, Some(a)),
                    LObs::Next(_) | LObs::Panicked(_) => unreachable!(),
                };
                if !searched {
                    if answered && rep {
                        cc.violation(
                            vkey(model.fam, op.entry(), "unsearched-end-answered"),
                            format!("op #{} {:?} answered {:?} although only {} text positions have been searched", i, op, ob, consumed),
                        );
                        ok = false;
                    }
                    continue;
                }
                let h = match hit {
                    Some(h) => h,
                    None => continue, // searched position that is not a hit: nothing is demanded
                };
                if h.dist > 0 || model.multiblock {
                    interesting = true;
                }
                if !rep {
                    continue;
                }
                if !answered {
                    cc.violation(
                        vkey(model.fam, op.entry(), "searched-hit-refused"),
                        format!("op #{} {:?} refused although the hit ending at {} was already returned", i, op, e),
                    );
                    ok = false;
                    continue;
                }
                if let Some(sd) = start_dist {
                    if sd != (h.start, h.dist) || path.map(|p| p != &h.ops).unwrap_or(false) {
                        cc.violation(
                            vkey(model.fam, op.entry(), "differs-from-eager"),
                            format!("op #{} {:?} gave {:?}, eager API of a fresh object gave {:?}", i, op, ob, h),
                        );
                        ok = false;
                    }
                }
                if let Some(a) = aln {
                    let exp = expected_aln(h, model.m, model.tlen);
                    if *a != exp {
                        cc.violation(
                            vkey(model.fam, op.entry(), "wrong-fields-or-path"),
                            format!("op #{} {:?} gave {:?}, expected {:?}", i, op, a, exp),
                        );
                        ok = false;
                    }
                }
            }
            _ => unreachable!(),
        }
    }
    cc.set_nontrivial(interesting);
    ok
}

/// attribute a panic inside a lazy history to the operation that raised it
fn lazy_panic_violation(model: &LazyModel, ops: &[LOp], done: usize, msg: &str, cc: &mut CaseCtx) {
    let entry = ops.get(done).map(|o| o.entry()).unwrap_or("find_all_lazy");
    cc.violation(
        vkey(model.fam, entry, panic_symptom(msg)),
        format!("op #{} {:?} panicked: {}", done, ops.get(done), msg),
    );
}

// ------------------------------------------------------------------ K1: one (pattern, text, k) through every entry point

/// reference hits of one implementation: eager next_path of a fresh object, checked against the
/// DP list and the path validator. None (after reporting) if anything is wrong.
fn reference_hits(
    imp: Imp,
    via: Option<&EqModel>,
    p: &[u8],
    t: &[u8],
    ke: u64,
    want: &[(usize, u64)],
    eq: &EqModel,
    cc: &mut CaseCtx,
) -> Option<Vec<Hit>> {
    let f = fam(imp, p.len(), via.is_some());
    let mut my = match build(imp, p, via) {
        Ok(m) => m,
        Err(msg) => {
            cc.violation(vkey(&f, "constructor", panic_symptom(&msg)), msg);
            return None;
        }
    };
    let hits = match exec_eager(&mut my, t, ke, Pass::NextPath) {
        Ok(o) => o.hits,
        Err(msg) => {
            cc.violation(vkey(&f, "next_path", panic_symptom(&msg)), format!("{} k={}: {}", imp.name(), ke, msg));
            return None;
        }
    };
    let ends: Vec<(usize, u64)> = hits.iter().map(|h| (h.end.wrapping_sub(1), h.dist)).collect();
    if ends != want {
        cc.violation(
            vkey(&f, "next_path", &format!("hit-list-{}", classify_list(&ends, want))),
            format!("{} k={}: (end, d) list {:?}, DP gives {:?}", imp.name(), ke, ends, want),
        );
        return None;
    }
    let mut good = true;
    for h in &hits {
        if let Err(e) = edit::check_path(p, t, h.start, h.end, h.dist, &h.ops, eq) {
            cc.violation(
                vkey(&f, "next_path", e.class),
                format!("{} k={}: hit {:?}: {}", imp.name(), ke, h, e.detail),
            );
            good = false;
            break;
        }
    }
    if good {
        Some(hits)
    } else {
        None
    }
}

/// The documented answers of the current-hit accessors in a state without a current hit.
///
/// * `last = None`: no hit has been found in this session (fresh object, or the search finished
///   without a hit). The rustdoc is explicit: start()/path()/path_reverse() return None "if the
///   search is finished and no hit was found", alignment() returns false "and nothing is done" "if
///   no hit has been found yet".
/// * `last = Some(h)`: the search is exhausted after h was returned. The library answers None/false
///   here as well; the wording of the rustdoc also admits an implementation that keeps answering
///   for the last hit, so exactly h's values are accepted too. Anything else is a violation.
///
/// Of a vector handed to a call that returns None nothing is said beyond "existing data will be
/// cleared beforehand": untouched and empty are both accepted. An Alignment handed to a call that
/// returns false must be untouched ("nothing is done").
fn check_no_hit(f: &str, what: &str, x: &NoHit, last: Option<&Hit>, m: usize, tlen: usize, cc: &mut CaseCtx) {
    let state = if last.is_some() { "after-exhaustion" } else { "without-any-hit" };
    let bad = |entry: &str, symptom: String, detail: String, cc: &mut CaseCtx| {
        cc.violation(vkey(f, entry, &symptom), format!("{}: {}", what, detail));
    };
    for (name, got) in [("start", x.start), ("start", x.start_again)] {
        if let Some(s) = got {
            if last.map(|h| h.start) != Some(s) {
                bad(name, format!("answered-{}", state), format!("start() returned {:?}", got), cc);
                break;
            }
        }
    }
    let untouched = marker_ops();
    for (name, got, ops, rev) in [("path", x.path_start, &x.path, false), ("path_reverse", x.rev_start, &x.rev, true)] {
        match got {
            None => {
                if *ops != untouched && !ops.is_empty() {
                    bad(name, "argument-garbled-on-none".into(), format!("returned None and left {:?} in the vector (was {:?})", ops, untouched), cc);
                }
            }
            Some(s) => {
                let same = last.map_or(false, |h| h.start == s && if rev { ops.iter().eq(h.ops.iter().rev()) } else { *ops == h.ops });
                if !same {
                    bad(name, format!("answered-{}", state), format!("returned Some({}) with {:?}", s, ops), cc);
                }
            }
        }
    }
    if let Some(a) = &x.aln {
        if !x.aln_ok {
            if *a != aln_tuple(&poisoned()) {
                bad("alignment", "argument-modified-on-false".into(), format!("returned false but changed the Alignment to {:?}", a), cc);
            }
        } else if last.map(|h| expected_aln(h, m, tlen)).as_ref() != Some(a) {
            bad("alignment", format!("answered-{}", state), format!("returned true with {:?}", a), cc);
        }
    }
}

/// alignment() on a FullMatches on which no next_*() has been called yet. Rustdoc: "If no hit has
/// been found yet, then `false` will be returned and nothing is done."
///
/// The library honours this only while the initial column is incomplete (block-based matcher,
/// threshold smaller than the rows above the last block); otherwise it returns true and fills in
/// the empty-prefix column as if it were a hit: score = |p|, ystart = yend = 1, |p| insertions.
/// That one shape is judged by the small family of the unit `fresh-alignment` (`strict`), under a
/// key of its own, so that it does not show up in every case of the K1 sweeps; everywhere else it
/// is passed over and only answers of any other shape are reported.
fn judge_fresh_alignment(ok: bool, a: &AlnT, m: usize, tlen: usize, strict: bool) -> Option<(&'static str, String)> {
    if !ok {
        if *a != aln_tuple(&poisoned()) {
            return Some(("argument-modified-on-false", format!("alignment() on a fresh FullMatches returned false but changed the Alignment to {:?}", a)));
        }
        return None;
    }
    let pseudo: AlnT = (m as i32, 0, m, m, 1, 1, tlen, true, vec![AlignmentOperation::Ins; m]);
    if *a == pseudo {
        if strict {
            return Some(("answered-before-first-hit", format!("alignment() on a fresh FullMatches returned true and filled in {:?}", a)));
        }
        return None;
    }
    Some(("garbage-before-first-hit", format!("alignment() on a fresh FullMatches returned true with {:?}", a)))
}

/// the advancing calls once next_end() has returned None: the text is used up, there is no next hit
fn check_beyond(f: &str, b: &Beyond, cc: &mut CaseCtx) {
    let untouched = marker_ops();
    if b.next_end.is_some() {
        cc.violation(vkey(f, "next_end", "hit-after-exhaustion"), format!("next_end() after None returned {:?}", b.next_end));
    }
    if b.next.is_some() {
        cc.violation(vkey(f, "next", "hit-after-exhaustion"), format!("next() after exhaustion returned {:?}", b.next));
    }
    for (entry, got, ops) in [("next_path", b.next_path, &b.next_path_ops), ("next_path_reverse", b.next_path_rev, &b.next_path_rev_ops)] {
        if got.is_some() {
            cc.violation(vkey(f, entry, "hit-after-exhaustion"), format!("{}() after exhaustion returned {:?}", entry, got));
        } else if *ops != untouched && !ops.is_empty() {
            cc.violation(vkey(f, entry, "argument-garbled-on-none"), format!("returned None and left {:?} in the vector", ops));
        }
    }
    if b.next_aln_ok {
        cc.violation(vkey(f, "next_alignment", "hit-after-exhaustion"), format!("next_alignment() after exhaustion returned true, {:?}", b.next_aln));
    } else if b.next_aln.as_ref() != Some(&aln_tuple(&poisoned())) {
        // "If no next hit is found, false is returned and aln remains unchanged"
        cc.violation(vkey(f, "next_alignment", "argument-modified-on-false"), format!("returned false but changed the Alignment to {:?}", b.next_aln));
    }
}

/// the scripted lazy session of the K1 sweep
fn scripted_lazy_ops(tlen: usize, want: &[(usize, u64)]) -> Vec<LOp> {
    let mut ops = vec![];
    // nothing searched yet: every query must be refused
    for e in 0..=tlen {
        ops.push(LOp::HitAt(e));
    }
    ops.push(LOp::PathAt(0));
    ops.push(LOp::AlnAt(0));
    for &(e, _) in want {
        ops.push(LOp::Next);
        ops.push(LOp::PathAt(e));
        ops.push(LOp::HitAt(e + 1)); // not searched yet
        ops.push(LOp::AlnAt(e + 1));
    }
    ops.push(LOp::Next); // -> None, everything searched
    ops.push(LOp::Next);
    for &(e, _) in want.iter().rev() {
        ops.push(LOp::AlnAt(e));
        ops.push(LOp::HitAt(e));
        ops.push(LOp::PathAt(e));
    }
    ops.push(LOp::HitAt(tlen));
    ops.push(LOp::PathAt(tlen + 1));
    ops.push(LOp::AlnAt(tlen));
    // searched ends that are not hits: nothing is demanded of the answer, but the call has to return
    for e in 0..tlen {
        if !want.iter().any(|w| w.0 == e) {
            ops.push(LOp::HitAt(e));
            ops.push(LOp::AlnAt(e));
        }
    }
    ops
}

fn check_full_case(
    imps: &[Imp],
    via: Option<&EqModel>,
    p: &[u8],
    t: &[u8],
    k: K,
    d: &[u64],
    cc: &mut CaseCtx,
) {
    let m = p.len();
    let eq = via.cloned().unwrap_or_default();
    let kn = match k {
        K::N(n) => n,
        K::Max => u64::MAX,
    };
    cc.set_nontrivial(
        d.iter().any(|&x| x > 0 && x <= kn) || imps.iter().any(|i| i.is_long() && i.accepts(m) && m > i.word() && d.iter().any(|&x| x <= kn)),
    );
    let mut first: Option<(Imp, Vec<Hit>)> = None;
    for &imp in imps {
        if !imp.accepts(m) {
            continue;
        }
        let f = fam(imp, m, via.is_some());
        let ke = k.for_imp(imp);
        let want = edit::expected_hits(d, ke);
        let hits = match reference_hits(imp, via, p, t, ke, &want, &eq, cc) {
            Some(h) => h,
            None => continue,
        };
        // identical alignments across implementations
        match &first {
            None => {
                cc.outcome(&hits);
                first = Some((imp, hits.clone()));
            }
            Some((imp0, h0)) => {
                if *h0 != hits {
                    let i = h0.iter().zip(&hits).position(|(a, b)| a != b).unwrap_or(0);
                    cc.violation(
                        vkey(&f, "next_path", "alignment-differs-between-implementations"),
                        format!("k={}: {} gave {:?}, {} gave {:?}", ke, imp0.name(), h0.get(i), imp.name(), hits.get(i)),
                    );
                }
            }
        }
        let run = |pass: Pass, cc: &mut CaseCtx| -> Option<EagerObs> {
            let mut my = match build(imp, p, via) {
                Ok(m) => m,
                Err(_) => return None,
            };
            match exec_eager(&mut my, t, ke, pass) {
                Ok(o) => Some(o),
                Err(msg) => {
                    let entry = match pass {
                        Pass::Ends => "find_all_end",
                        Pass::NextPath => "next_path",
                        Pass::Iter => "next",
                        Pass::Current => "current-hit",
                        Pass::NextPathRev => "next_path_reverse",
                        Pass::NextAln => "next_alignment",
                        Pass::Fresh => "alignment",
                    };
                    cc.violation(vkey(&f, entry, panic_symptom(&msg)), format!("{} k={}: {}", imp.name(), ke, msg));
                    None
                }
            }
        };
        if let Some(o) = run(Pass::Ends, cc) {
            if o.ends != want {
                cc.violation(
                    vkey(&f, "find_all_end", "differs-from-find_all"),
                    format!("{} k={}: find_all_end {:?}, find_all {:?}", imp.name(), ke, o.ends, want),
                );
            }
        }
        if let Some(o) = run(Pass::Iter, cc) {
            let exp: Vec<(usize, usize, u64)> = hits.iter().map(|h| (h.start, h.end, h.dist)).collect();
            if o.triples != exp {
                cc.violation(
                    vkey(&f, "next", "differs-from-next_path"),
                    format!("{} k={}: iterator {:?}, next_path {:?}", imp.name(), ke, o.triples, exp),
                );
            }
        }
        if let Some(o) = run(Pass::NextPathRev, cc) {
            let exp: Vec<Hit> = hits
                .iter()
                .map(|h| {
                    let mut r = h.clone();
                    r.ops.reverse();
                    r
                })
                .collect();
            if o.hits != exp {
                cc.violation(
                    vkey(&f, "next_path_reverse", "differs-from-next_path"),
                    format!("{} k={}: {:?}, reversed next_path {:?}", imp.name(), ke, o.hits, exp),
                );
            }
        }
        if let Some(o) = run(Pass::NextAln, cc) {
            let exp: Vec<AlnT> = hits.iter().map(|h| expected_aln(h, m, t.len())).collect();
            if o.alns != exp {
                let i = o.alns.iter().zip(&exp).position(|(a, b)| a != b).unwrap_or(o.alns.len().min(exp.len()));
                cc.violation(
                    vkey(&f, "next_alignment", "wrong-fields-or-path"),
                    format!("{} k={}: alignment #{} {:?}, expected {:?} ({} vs {} alignments)", imp.name(), ke, i, o.alns.get(i), exp.get(i), o.alns.len(), exp.len()),
                );
            }
        }
        if let Some(o) = run(Pass::Current, cc) {
            if o.cur.len() != hits.len() {
                cc.violation(
                    vkey(&f, "next_end", "differs-from-next_path"),
                    format!("{} k={}: next_end gave {} hits, next_path {}", imp.name(), ke, o.cur.len(), hits.len()),
                );
            }
            for (c, h) in o.cur.iter().zip(&hits) {
                let mut bad: Option<(&str, &str)> = None;
                if (c.end + 1, c.dist) != (h.end, h.dist) {
                    bad = Some(("next_end", "differs-from-next_path"));
                } else if c.start != Some(h.start) || c.start_again != Some(h.start) {
                    bad = Some(("start", "differs-from-next_path"));
                } else if c.path_start != Some(h.start) || c.path != h.ops {
                    bad = Some(("path", "differs-from-next_path"));
                } else if c.rev_start != Some(h.start) || !c.rev.iter().eq(h.ops.iter().rev()) {
                    bad = Some(("path_reverse", "differs-from-next_path"));
                } else if !c.aln_ok || c.aln.as_ref() != Some(&expected_aln(h, m, t.len())) {
                    bad = Some(("alignment", "wrong-fields-or-path"));
                }
                if let Some((entry, symptom)) = bad {
                    cc.violation(
                        vkey(&f, entry, symptom),
                        format!("{} k={}: current hit {:?}, next_path gave {:?}", imp.name(), ke, c, h),
                    );
                    break;
                }
            }
            // the states without a current hit (only when the hits came out right: the model is the hit list)
            if o.cur.len() == hits.len() && o.cur.iter().zip(&hits).all(|(c, h)| (c.end + 1, c.dist) == (h.end, h.dist)) {
                for (i, x) in o.after.iter().enumerate() {
                    let what = format!("{} k={}: {} hits, then None{}", imp.name(), ke, hits.len(), if i > 0 { ", then every next_* once more" } else { "" });
                    check_no_hit(&f, &what, x, hits.last(), m, t.len(), cc);
                }
                if let Some(b) = &o.beyond {
                    check_beyond(&f, b, cc);
                }
                if let Some(msg) = &o.after_panic {
                    cc.violation(
                        vkey(&f, "no-current-hit", panic_symptom(msg)),
                        format!("{} k={}: {} hits, then None, then a call of start/path/path_reverse/alignment/next_* panicked: {}", imp.name(), ke, hits.len(), msg),
                    );
                }
            }
        }
        // alignment() on a fresh object, where the documented answer is within reach: the initial
        // column of the block-based matcher can be incomplete only if the pattern spans several
        // blocks (every implementation is taken through this call by the units fresh-alignment
        // and eager-seq)
        let fresh = if imp.is_long() && m > imp.word() { run(Pass::Fresh, cc) } else { None };
        if let Some(o) = fresh {
            if let Some((ok, a)) = &o.fresh_aln {
                if let Some((symptom, detail)) = judge_fresh_alignment(*ok, a, m, t.len(), false) {
                    cc.violation(vkey(&f, "alignment", symptom), format!("{} k={}: {}", imp.name(), ke, detail));
                }
            }
        }
        // scripted lazy session
        let ops = scripted_lazy_ops(t.len(), &want);
        let model = LazyModel { fam: &f, m, multiblock: imp.is_long() && m > imp.word(), long: imp.is_long(), tlen: t.len(), want: &want, reference: &hits };
        if let Ok(mut my) = build(imp, p, via) {
            let mut obs = vec![];
            match exec_lazy(&mut my, t, ke, &ops, &mut obs, false) {
                Ok(_) => {
                    check_lazy(&model, &ops, &obs, 0, cc);
                }
                Err(msg) => lazy_panic_violation(&model, &ops, obs.len(), &msg, cc),
            }
        }
    }
}

fn full_case(ctx: &mut Ctx, imps: &[Imp], ambig: bool, p: &[u8], t: &[u8], k: K, d: &[u64]) {
    let am = ambig_model();
    let via = if ambig { Some(&am) } else { None };
    ctx.case(
        || json!({"kind": "full", "ambig": ambig, "imps": imps.iter().map(|i| i.name()).collect::<Vec<_>>(), "p": show(p), "t": show(t), "k": k.to_json()}),
        |cc| check_full_case(imps, via, p, t, k, d, cc),
    );
}

fn sweep_bounds(tier: Tier) -> (usize, usize) {
    tier.pick((6, 6), (8, 9))
}

/// patterns of more than one u8 block in the quick tier, two u8 blocks + a bit in the thorough one
fn long_sweep_bounds(tier: Tier) -> (usize, usize, usize) {
    tier.pick((9, 9, 5), (9, 10, 7))
}

fn ks_for(m: usize) -> Vec<K> {
    let mut ks: Vec<K> = (0..=m as u64 + 1).map(K::N).collect();
    ks.push(K::Max);
    ks
}

fn eager_unit(tier: Tier, shard: usize, nshards: usize, ctx: &mut Ctx) {
    let (pmax, tmax) = sweep_bounds(tier);
    let (lmin, lmax, ltmax) = long_sweep_bounds(tier);
    let eq = EqModel::plain();
    let mut idx = 0usize;
    let mut go = |pats: Vec<Vec<u8>>, texts: &Vec<Vec<u8>>, imps: &[Imp], ctx: &mut Ctx| {
        for p in &pats {
            idx += 1;
            if idx % nshards != shard {
                continue;
            }
            let ks = ks_for(p.len());
            for t in texts {
                let d = edit::semiglobal_eq(p, t, &eq);
                for &k in &ks {
                    full_case(ctx, imps, false, p, t, k, &d);
                }
            }
        }
    };
    let texts = gen::strings(b"ab", 0, tmax);
    go(gen::strings(b"ab", 1, pmax), &texts, &IMPS, ctx);
    // longer patterns (more than one u8 block) against shorter texts; the u32/u64 one-word
    // versions would only repeat the u16 behaviour here
    let texts = gen::strings(b"ab", 0, ltmax);
    let lo = lmin.max(pmax + 1);
    if lo <= lmax {
        go(gen::strings(b"ab", lo, lmax), &texts, &[Imp::S16, Imp::S64, Imp::L8, Imp::L16, Imp::L64], ctx);
    }
}

fn ambig_unit(tier: Tier, shard: usize, nshards: usize, ctx: &mut Ctx) {
    let (pmax, tmax) = tier.pick((3, 5), (4, 6));
    let am = ambig_model();
    let texts = gen::strings(b"ab*N", 0, tmax);
    for (idx, p) in gen::strings(b"abN", 1, pmax).iter().enumerate() {
        if idx % nshards != shard {
            continue;
        }
        for t in &texts {
            let d = edit::semiglobal_eq(p, t, &am);
            for k in 0..=p.len() as u64 {
                full_case(ctx, &IMPS, true, p, t, K::N(k), &d);
            }
        }
    }
}

fn boundary_lengths(tier: Tier) -> Vec<usize> {
    match tier {
        Tier::Quick => vec![7, 8, 9, 15, 16, 17, 31, 32, 33, 63, 64, 65],
        Tier::Thorough => vec![7, 8, 9, 15, 16, 17, 24, 31, 32, 33, 63, 64, 65, 127, 128, 129],
    }
}

fn boundary_unit(tier: Tier, shard: usize, nshards: usize, ctx: &mut Ctx) {
    let pats = boundary_patterns(&boundary_lengths(tier), 2);
    let eq = EqModel::plain();
    for (idx, p) in pats.iter().enumerate() {
        if idx % nshards != shard {
            continue;
        }
        let l = p.len() as u64;
        let mut kv = match tier {
            Tier::Quick => vec![0u64, 2, l / 2],
            Tier::Thorough => vec![0u64, 1, 2, l / 2, l, l + 1],
        };
        kv.sort();
        kv.dedup();
        let mut ks: Vec<K> = kv.into_iter().map(K::N).collect();
        ks.push(K::Max);
        let d_edits = if tier == Tier::Thorough && p.len() <= 33 { 2 } else { 1 };
        for t in boundary_texts(p, d_edits) {
            let d = edit::semiglobal_eq(p, &t, &eq);
            for &k in &ks {
                full_case(ctx, &IMPS, false, p, &t, k, &d);
            }
        }
    }
}

// ------------------------------------------------------------------ K2: lazy sessions

#[derive(Clone, Debug)]
struct LazyCfg {
    imp: Imp,
    ambig: bool,
    p: Vec<u8>,
    t: Vec<u8>,
    k: u64,
}

impl LazyCfg {
    fn to_json(&self) -> Value {
        json!({"lazy": true, "imp": self.imp.name(), "ambig": self.ambig, "p": show(&self.p), "t": show(&self.t), "k": self.k})
    }
    fn from_json(v: &Value) -> Option<LazyCfg> {
        Some(LazyCfg {
            imp: Imp::parse(v["imp"].as_str()?)?,
            ambig: v["ambig"].as_bool().unwrap_or(false),
            p: unshow(v["p"].as_str()?),
            t: unshow(v["t"].as_str()?),
            k: v["k"].as_u64()?,
        })
    }
    fn via(&self) -> Option<EqModel> {
        if self.ambig {
            Some(ambig_model())
        } else {
            None
        }
    }
}

/// DP list + validated eager reference of a configuration, established inside a case of its own
struct LazyRef {
    fam: String,
    want: Vec<(usize, u64)>,
    hits: Vec<Hit>,
}

fn lazy_reference(cfg: &LazyCfg, cc: &mut CaseCtx) -> Option<LazyRef> {
    let via = cfg.via();
    let eq = via.clone().unwrap_or_default();
    let d = edit::semiglobal_eq(&cfg.p, &cfg.t, &eq);
    let want = edit::expected_hits(&d, cfg.k);
    let hits = reference_hits(cfg.imp, via.as_ref(), &cfg.p, &cfg.t, cfg.k, &want, &eq, cc)?;
    Some(LazyRef { fam: fam(cfg.imp, cfg.p.len(), cfg.ambig), want, hits })
}

fn all_lazy_ops(tlen: usize) -> Vec<LOp> {
    let mut v = vec![LOp::Next];
    for e in 0..=tlen {
        v.push(LOp::HitAt(e));
        v.push(LOp::PathAt(e));
        v.push(LOp::AlnAt(e));
    }
    v
}

/// execute one history on a fresh object and check it; returns the state digest if requested and
/// nothing was wrong
fn run_lazy_history(
    cfg: &LazyCfg,
    r: &LazyRef,
    ops: &[LOp],
    report_from: usize,
    want_key: bool,
    cc: &mut CaseCtx,
) -> Option<u128> {
    let model = LazyModel { fam: &r.fam, m: cfg.p.len(), multiblock: cfg.imp.is_long() && cfg.p.len() > cfg.imp.word(), long: cfg.imp.is_long(), tlen: cfg.t.len(), want: &r.want, reference: &r.hits };
    let via = cfg.via();
    let mut my = match build(cfg.imp, &cfg.p, via.as_ref()) {
        Ok(m) => m,
        Err(msg) => {
            cc.violation(vkey(&r.fam, "constructor", panic_symptom(&msg)), msg);
            return None;
        }
    };
    let mut obs = Vec::with_capacity(ops.len());
    match exec_lazy(&mut my, &cfg.t, cfg.k, ops, &mut obs, want_key) {
        Err(msg) => {
            lazy_panic_violation(&model, ops, obs.len(), &msg, cc);
            None
        }
        Ok(key) => {
            cc.outcome(&obs);
            if check_lazy(&model, ops, &obs, report_from, cc) {
                key.or(Some(0))
            } else {
                None
            }
        }
    }
}

#[derive(Clone)]
struct LState {
    hist: Vec<LOp>,
    key: u128,
}

/// breadth-first search over the session states of one configuration
fn lazy_bfs_config(cfg: &LazyCfg, ctx: &mut Ctx) {
    let mut lref: Option<LazyRef> = None;
    let mut key0: Option<u128> = None;
    ctx.case(
        || json!({"kind": "history", "init": cfg.to_json(), "ops": []}),
        |cc| {
            lref = lazy_reference(cfg, cc);
            if let Some(r) = &lref {
                key0 = run_lazy_history(cfg, r, &[], 0, true, cc);
            }
        },
    );
    let (r, key0) = match (lref, key0) {
        (Some(r), Some(k)) => (r, k),
        _ => return,
    };
    let ops = all_lazy_ops(cfg.t.len());
    // every state is reached after at most |hits|+1 calls of next(); queries are expected to be
    // self-loops, so this depth exhausts the reachable state space unless a query mutates the object
    let depth = r.want.len() + 2;
    bfs::explore(
        ctx,
        vec![(LState { hist: vec![], key: key0 }, cfg.to_json())],
        depth,
        |_s: &LState| ops.clone(),
        |s: &LState, op: &LOp, cc: &mut CaseCtx| {
            let mut h = s.hist.clone();
            h.push(*op);
            let n = h.len();
            run_lazy_history(cfg, &r, &h, n - 1, true, cc).map(|key| LState { hist: h, key })
        },
        |s: &LState| s.key,
        |o: &LOp| serde_json::to_value(o).unwrap(),
        json!({"search": "bfs", "depth": depth}),
    );
}

fn lazy_bfs_configs(tier: Tier) -> Vec<LazyCfg> {
    let mut out = vec![];
    // complete small space
    let (pmax, tmax) = tier.pick((3, 4), (5, 6));
    for p in gen::strings(b"ab", 1, pmax) {
        for t in gen::strings(b"ab", 0, tmax) {
            for k in 0..=p.len() as u64 + 1 {
                for imp in IMPS {
                    out.push(LazyCfg { imp, ambig: false, p: p.clone(), t: t.clone(), k });
                }
            }
        }
    }
    // hand-picked: hit at the text start, k >= |p|, |p|+k > |t|, two and three u8 blocks, block boundaries
    let pats: Vec<&[u8]> = match tier {
        Tier::Quick => vec![b"abbab", b"aaaaaaab", b"aaaaaaaab", b"abababababababab", b"abababababababaab"],
        Tier::Thorough => vec![
            b"abbab", b"aaaaaaab", b"aaaaaaaab", b"abaabaabab", b"abababababababab", b"abababababababaab", b"aabaabaabaabaabaabaabaabaabaabaaa",
        ],
    };
    let texts: [&[u8]; 5] = [b"b", b"abab", b"bbaabab", b"aaaaaaaaabaa", b"babababababababaabab"];
    for p in pats {
        for t in texts {
            let m = p.len() as u64;
            let mut ks = vec![0u64, 1, 2, m - 1, m, m + 1];
            ks.sort();
            ks.dedup();
            for k in ks {
                for imp in IMPS {
                    if imp.accepts(p.len()) {
                        out.push(LazyCfg { imp, ambig: false, p: p.to_vec(), t: t.to_vec(), k });
                    }
                }
            }
        }
    }
    // ambiguity
    for p in [&b"aNb"[..], b"Nab", b"NN"] {
        for t in [&b"a*b"[..], b"ab*Nab", b"bNaab"] {
            for k in 0..=2u64 {
                for imp in [Imp::S8, Imp::S64, Imp::L8, Imp::L64] {
                    out.push(LazyCfg { imp, ambig: true, p: p.to_vec(), t: t.to_vec(), k });
                }
            }
        }
    }
    out
}

fn lazy_bfs_unit(tier: Tier, shard: usize, nshards: usize, ctx: &mut Ctx) {
    for (i, cfg) in lazy_bfs_configs(tier).iter().enumerate() {
        if i % nshards == shard {
            lazy_bfs_config(cfg, ctx);
        }
        if ctx.res.capped {
            break;
        }
    }
}

/// all operation sequences of length `depth` (no state merging); every sequence is one case and is
/// replayed from a fresh object
fn lazy_interleave_config(cfg: &LazyCfg, depth: usize, ctx: &mut Ctx) {
    let mut lref: Option<LazyRef> = None;
    ctx.case(
        || json!({"kind": "history", "init": cfg.to_json(), "ops": [], "cfg": {"search": "reference"}}),
        |cc| {
            lref = lazy_reference(cfg, cc);
            if let Some(r) = &lref {
                cc.outcome(&r.hits);
            }
        },
    );
    let r = match lref {
        Some(r) => r,
        None => return,
    };
    let ops = all_lazy_ops(cfg.t.len());
    let radices = vec![ops.len(); depth];
    let mut h: Vec<LOp> = Vec::with_capacity(depth);
    gen::odometer(&radices, |dg| {
        h.clear();
        h.extend(dg.iter().map(|&i| ops[i]));
        ctx.case(
            || json!({"kind": "history", "init": cfg.to_json(), "ops": h, "cfg": {"search": "all-sequences", "depth": depth}}),
            |cc| {
                cc.add_transitions(depth as u64);
                cc.add_traces(1);
                run_lazy_history(cfg, &r, &h, 0, false, cc);
            },
        );
    });
}

fn interleave_depth(tier: Tier, tlen: usize) -> usize {
    let a = (1 + 3 * (tlen + 1)) as u64;
    let cap: u64 = tier.pick(100_000, 3_000_000);
    let mut d = 1usize;
    while d < tier.pick(4, 6) && a.pow(d as u32 + 1) <= cap {
        d += 1;
    }
    d
}

fn lazy_interleave_configs(tier: Tier) -> Vec<LazyCfg> {
    let pats: Vec<&[u8]> = vec![b"ab", b"aab", b"abab", b"aaaaaaaab"];
    let texts: Vec<&[u8]> = vec![b"", b"a", b"abab", b"bbaabab", b"aaaaaaaaabaa"];
    let imps: Vec<Imp> = match tier {
        Tier::Quick => vec![Imp::S8, Imp::S64, Imp::L8, Imp::L64],
        Tier::Thorough => IMPS.to_vec(),
    };
    let mut out = vec![];
    for p in &pats {
        for t in &texts {
            let m = p.len() as u64;
            for k in [0u64, 1, 2, m + 1] {
                for &imp in &imps {
                    if imp.accepts(p.len()) {
                        out.push(LazyCfg { imp, ambig: false, p: p.to_vec(), t: t.to_vec(), k });
                    }
                }
            }
        }
    }
    // most expensive first so that the shards even out
    out.sort_by_key(|c| std::cmp::Reverse(c.t.len()));
    out
}

fn lazy_interleave_unit(tier: Tier, shard: usize, nshards: usize, ctx: &mut Ctx) {
    for (i, cfg) in lazy_interleave_configs(tier).iter().enumerate() {
        if i % nshards == shard {
            lazy_interleave_config(cfg, interleave_depth(tier, cfg.t.len()), ctx);
        }
        if ctx.res.capped {
            break;
        }
    }
}

// ------------------------------------------------------------------ K2: reuse of one Myers object

#[derive(Clone, Copy, Debug, PartialEq, Eq, Hash, Serialize, Deserialize)]
enum Api {
    /// find_all_end, consumed completely
    Ends,
    /// find_all + next_path until exhausted
    EagerFull,
    /// find_all, one next_alignment, then dropped
    EagerPartial,
    /// find_all_lazy consumed completely, then path_at/alignment_at at every hit in reverse order, hit_at(|t|)
    LazyFull,
    /// find_all_lazy, one next, path_at there, hit_at at the following end, then dropped
    LazyPartial,
}

#[derive(Clone, Debug, Serialize, Deserialize)]
struct Search {
    t: String,
    k: u64,
    api: Api,
}

/// observable result of one search
#[derive(Clone, Debug, PartialEq, Eq, Hash, Default)]
struct SearchObs {
    ends: Vec<(usize, u64)>,
    hits: Vec<Hit>,
    alns: Vec<AlnT>,
    refused_beyond: Option<bool>,
}

fn exec_search(my: &mut AnyMyers, t: &[u8], k: u64, api: Api) -> Result<SearchObs, String> {
    guard(|| {
        on_myers!(my, m => {
            let mut o = SearchObs::default();
            match api {
                Api::Ends => {
                    o.ends = m.find_all_end(t, k as _).map(|(e, d)| (e, d as u64)).collect();
                }
                Api::EagerFull => {
                    let mut fm = m.find_all(t, k as _);
                    let mut ops = vec![];
                    while let Some((s, e, d)) = fm.next_path(&mut ops) {
                        o.hits.push(Hit { start: s, end: e, dist: d as u64, ops: ops.clone() });
                    }
                }
                Api::EagerPartial => {
                    let mut fm = m.find_all(t, k as _);
                    let mut a = poisoned();
                    if fm.next_alignment(&mut a) {
                        o.alns.push(aln_tuple(&a));
                    }
                }
                Api::LazyFull => {
                    let mut lz = m.find_all_lazy(t, k as _);
                    o.ends = lz.by_ref().map(|(e, d)| (e, d as u64)).collect();
                    for &(e, _) in o.ends.iter().rev() {
                        let mut ops = vec![];
                        if let Some((s, d)) = lz.path_at(e, &mut ops) {
                            o.hits.push(Hit { start: s, end: e + 1, dist: d as u64, ops });
                        }
                        let mut a = poisoned();
                        if lz.alignment_at(e, &mut a) {
                            o.alns.push(aln_tuple(&a));
                        }
                    }
                    o.refused_beyond = Some(lz.hit_at(t.len()).is_none());
                }
                Api::LazyPartial => {
                    let mut lz = m.find_all_lazy(t, k as _);
                    if let Some((e, d)) = lz.next() {
                        o.ends.push((e, d as u64));
                        let mut ops = vec![];
                        if let Some((s, d)) = lz.path_at(e, &mut ops) {
                            o.hits.push(Hit { start: s, end: e + 1, dist: d as u64, ops });
                        }
                        o.refused_beyond = Some(lz.hit_at(e + 1).is_none());
                    }
                }
            }
            o
        })
    })
}

#[derive(Clone)]
struct RState {
    my: AnyMyers,
    depth: usize,
}

fn reuse_step(imp: Imp, p: &[u8], s: &RState, op: &Search, cc: &mut CaseCtx) -> Option<RState> {
    let f = fam(imp, p.len(), false);
    let t = unshow(&op.t);
    let fresh = match build(imp, p, None).and_then(|mut m| exec_search(&mut m, &t, op.k, op.api)) {
        Ok(o) => o,
        Err(msg) => {
            // a fresh object failing is C09's/the K1 sweep's business; do not blame reuse
            cc.violation(vkey(&f, "fresh-object-search", panic_symptom(&msg)), format!("{:?}: {}", op, msg));
            return None;
        }
    };
    cc.set_nontrivial(s.depth > 0 && (fresh.hits.iter().any(|h| h.dist > 0) || fresh.ends.iter().any(|e| e.1 > 0)));
    cc.outcome(&fresh);
    let mut next = s.clone();
    next.depth += 1;
    match exec_search(&mut next.my, &t, op.k, op.api) {
        Err(msg) => {
            cc.violation(vkey(&f, "reuse", panic_symptom(&msg)), format!("{:?} on a used object: {}", op, msg));
            None
        }
        Ok(got) => {
            if got != fresh {
                cc.violation(
                    vkey(&f, "reuse", "answer-depends-on-history"),
                    format!("{:?}: used object gave {:?}, fresh object {:?}", op, got, fresh),
                );
                None
            } else {
                Some(next)
            }
        }
    }
}

/// pattern whose first ten symbols never occur in the texts below: a text that starts with the
/// rest of the pattern yields a hit at text position 0 with more than one block of leading
/// insertions, whose traceback runs into the sentinel column of the column store
const OVERHANG_PATTERN: &[u8] = b"aaaaaaaaaabcbbcbccbcbb";

fn reuse_searches(tier: Tier, m: usize) -> Vec<Search> {
    let _ = tier;
    if m == OVERHANG_PATTERN.len() {
        // (reuse_patterns has no other pattern of this length)
        let texts: Vec<&[u8]> = vec![b"", b"cbbcbcbbbccbcbcbbcbccbbcbcbcbbcbccbcbbbcbcbccbcbcbbcbbcbccbcb", b"bcbbcbccbcbbcbbcbc", b"cbcbcbcbcbcbcbcbcbcbcbcb"];
        let mut out = vec![];
        for t in texts {
            for k in [0u64, 11, 14, m as u64] {
                for api in [Api::Ends, Api::EagerFull, Api::EagerPartial, Api::LazyFull, Api::LazyPartial] {
                    out.push(Search { t: show(t), k, api });
                }
            }
        }
        return out;
    }
    let texts: Vec<&[u8]> = vec![b"", b"ab", b"abab", b"bbaabab", b"aaaaaaaaabaa", b"babababababababaabab", b"aabababababababaabbabababbabababababaabaab"];
    let mut ks = vec![0u64, 1, 3, m as u64, m as u64 + 1];
    ks.sort();
    ks.dedup();
    let mut out = vec![];
    for t in texts {
        for &k in &ks {
            for api in [Api::Ends, Api::EagerFull, Api::EagerPartial, Api::LazyFull, Api::LazyPartial] {
                out.push(Search { t: show(t), k, api });
            }
        }
    }
    out
}

fn reuse_patterns(tier: Tier) -> Vec<&'static [u8]> {
    match tier {
        // 17 and 26 symbols = 3 and 4 blocks of the u8 block-based matcher
        Tier::Quick => vec![b"ab", b"abab", b"aaaaaaaab", b"abababababababaab", OVERHANG_PATTERN],
        Tier::Thorough => vec![b"a", b"ab", b"abab", b"aaaaaaab", b"aaaaaaaab", b"abababababababaab", b"abababababababaabbabababba", OVERHANG_PATTERN],
    }
}

fn reuse_depth(tier: Tier) -> usize {
    tier.pick(3, 4)
}

fn reuse_unit(tier: Tier, imp: Imp, ctx: &mut Ctx) {
    let depth = reuse_depth(tier);
    for p in reuse_patterns(tier) {
        if !imp.accepts(p.len()) {
            continue;
        }
        let my = match build(imp, p, None) {
            Ok(m) => m,
            Err(_) => continue,
        };
        let searches = reuse_searches(tier, p.len());
        bfs::explore(
            ctx,
            vec![(RState { my, depth: 0 }, json!({"reuse": true, "imp": imp.name(), "p": show(p)}))],
            depth,
            |_s: &RState| searches.clone(),
            |s: &RState, op: &Search, cc: &mut CaseCtx| reuse_step(imp, p, s, op, cc),
            |s: &RState| s.my.clone(),
            |o: &Search| serde_json::to_value(o).unwrap(),
            json!({"search": "bfs", "depth": depth}),
        );
        if ctx.res.capped {
            break;
        }
    }
}

// ------------------------------------------------------------------ K1: alignment() on a fresh FullMatches

/// family name of the finding keys of this unit: one root cause (the shared FullMatches code), one key
const FRESH: &str = "fresh-object";

fn check_fresh_alignment(imp: Imp, p: &[u8], t: &[u8], k: K, cc: &mut CaseCtx) {
    let ke = k.for_imp(imp);
    let mut my = match build(imp, p, None) {
        Ok(m) => m,
        Err(msg) => {
            cc.violation(vkey(&fam(imp, p.len(), false), "constructor", panic_symptom(&msg)), msg);
            return;
        }
    };
    let r = guard(|| {
        on_myers!(&mut my, m => {
            let mut fm = m.find_all(t, ke as _);
            let mut a = poisoned();
            let ok = fm.alignment(&mut a);
            (ok, aln_tuple(&a))
        })
    });
    cc.set_nontrivial(true);
    match r {
        Err(msg) => cc.violation(vkey(FRESH, "alignment", panic_symptom(&msg)), format!("{} k={}: {}", imp.name(), ke, msg)),
        Ok((ok, a)) => {
            cc.outcome(&(ok, &a));
            // The rustdoc says "false, nothing is done" before the first hit; the library answers
            // with the empty-prefix column instead.  C10 speaks about reported hits only, so that
            // one shape is counted as an observation, not asserted; any other answer is reported.
            if ok {
                cc.count("fresh_alignment_answered_with_empty_prefix_column_instead_of_false", 1);
            }
            if let Some((symptom, detail)) = judge_fresh_alignment(ok, &a, p.len(), t.len(), false) {
                cc.violation(vkey(FRESH, "alignment", symptom), format!("{} k={}: {}", imp.name(), ke, detail));
            }
        }
    }
}

fn fresh_alignment_unit(tier: Tier, ctx: &mut Ctx) {
    let mut pats: Vec<Vec<u8>> = gen::strings(b"ab", 1, tier.pick(3, 4));
    for extra in [&b"aaaaaaab"[..], b"aaaaaaaab", b"abababababababab", b"abababababababaab", b"aabaabaabaabaabaabaabaabaabaabaaa"] {
        pats.push(extra.to_vec());
    }
    let texts = gen::strings(b"ab", 0, tier.pick(2, 3));
    for p in &pats {
        let m = p.len() as u64;
        let mut kv = vec![0u64, 1, 7, 8, 9, 16, 17, m - 1, m, m + 1];
        kv.sort();
        kv.dedup();
        let mut ks: Vec<K> = kv.into_iter().map(K::N).collect();
        ks.push(K::Max);
        for t in &texts {
            for &k in &ks {
                for imp in IMPS {
                    if !imp.accepts(p.len()) {
                        continue;
                    }
                    ctx.case(
                        || json!({"kind": "fresh-alignment", "imp": imp.name(), "p": show(p), "t": show(t), "k": k.to_json()}),
                        |cc| check_fresh_alignment(imp, p, t, k, cc),
                    );
                }
            }
        }
    }
}

// ------------------------------------------------------------------ K2: call sequences on one FullMatches

#[derive(Clone, Copy, Debug, PartialEq, Eq, Hash, Serialize, Deserialize)]
enum EOp {
    NextEnd,
    Next,
    NextPath,
    NextPathRev,
    NextAln,
    Start,
    Path,
    PathRev,
    Aln,
}

const EOPS: [EOp; 9] = [EOp::NextEnd, EOp::Next, EOp::NextPath, EOp::NextPathRev, EOp::NextAln, EOp::Start, EOp::Path, EOp::PathRev, EOp::Aln];

impl EOp {
    fn advances(self) -> bool {
        matches!(self, EOp::NextEnd | EOp::Next | EOp::NextPath | EOp::NextPathRev | EOp::NextAln)
    }
    fn entry(self) -> &'static str {
        match self {
            EOp::NextEnd => "next_end",
            EOp::Next => "next",
            EOp::NextPath => "next_path",
            EOp::NextPathRev => "next_path_reverse",
            EOp::NextAln => "next_alignment",
            EOp::Start => "start",
            EOp::Path => "path",
            EOp::PathRev => "path_reverse",
            EOp::Aln => "alignment",
        }
    }
}

#[derive(Clone, Debug, PartialEq, Eq, Hash)]
enum EObs {
    End(Option<(usize, u64)>),
    Triple(Option<(usize, usize, u64)>),
    /// next_path / next_path_reverse: result and the vector afterwards
    NPath(Option<(usize, usize, u64)>, Ops),
    /// next_alignment / alignment
    Aln(bool, AlnT),
    Start(Option<usize>),
    /// path / path_reverse
    Path(Option<usize>, Ops),
}

/// Run `ops` on one FullMatches of a fresh matcher. Every call gets a marker vector / a poisoned
/// Alignment. A panic ends the session (Err); `out` then holds the observations made before it.
fn exec_eager_seq(my: &mut AnyMyers, t: &[u8], k: u64, ops: &[EOp], out: &mut Vec<EObs>) -> Result<(), String> {
    guard(|| {
        on_myers!(my, m => {
            let mut fm = m.find_all(t, k as _);
            for op in ops {
                let o = match *op {
                    EOp::NextEnd => EObs::End(fm.next_end().map(|(e, d)| (e, d as u64))),
                    EOp::Next => EObs::Triple(fm.next().map(|(s, e, d)| (s, e, d as u64))),
                    EOp::NextPath => {
                        let mut v = marker_ops();
                        let r = fm.next_path(&mut v).map(|(s, e, d)| (s, e, d as u64));
                        EObs::NPath(r, v)
                    }
                    EOp::NextPathRev => {
                        let mut v = marker_ops();
                        let r = fm.next_path_reverse(&mut v).map(|(s, e, d)| (s, e, d as u64));
                        EObs::NPath(r, v)
                    }
                    EOp::NextAln => {
                        let mut a = poisoned();
                        let ok = fm.next_alignment(&mut a);
                        EObs::Aln(ok, aln_tuple(&a))
                    }
                    EOp::Start => EObs::Start(fm.start()),
                    EOp::Path => {
                        let mut v = marker_ops();
                        let r = fm.path(&mut v);
                        EObs::Path(r, v)
                    }
                    EOp::PathRev => {
                        let mut v = marker_ops();
                        let r = fm.path_reverse(&mut v);
                        EObs::Path(r, v)
                    }
                    EOp::Aln => {
                        let mut a = poisoned();
                        let ok = fm.alignment(&mut a);
                        EObs::Aln(ok, aln_tuple(&a))
                    }
                };
                out.push(o);
            }
        })
    })
}

/// Sequences in which start()/path()/path_reverse() precede the first next_*() are not enumerated:
/// the rustdoc says nothing about them on an object that has not searched yet.
fn eager_seq_admissible(ops: &[EOp]) -> bool {
    for op in ops {
        if op.advances() {
            return true;
        }
        if matches!(op, EOp::Start | EOp::Path | EOp::PathRev) {
            return false;
        }
    }
    true
}

/// Model of a FullMatches session: the hits (validated eager reference of a fresh object) are
/// handed out in order by every next_*(); the accessors answer for the hit returned last; once a
/// next_*() has found nothing, the object is exhausted (see `check_no_hit`).
fn check_eager_seq(cfg: &LazyCfg, r: &LazyRef, ops: &[EOp], obs: &[EObs], cc: &mut CaseCtx) {
    let f = &r.fam;
    let (m, tlen) = (cfg.p.len(), cfg.t.len());
    let multiblock = cfg.imp.is_long() && m > cfg.imp.word();
    let untouched = marker_ops();
    let mut idx = 0usize; // hits handed out so far
    let mut exhausted = false;
    let mut interesting = false;
    for (i, (op, ob)) in ops.iter().zip(obs).enumerate() {
        let what = format!("op #{} {:?} ({} hits handed out{})", i, op, idx, if exhausted { ", exhausted" } else { "" });
        if op.advances() {
            let exp = if exhausted { None } else { r.hits.get(idx) };
            let ok = match (exp, ob) {
                (Some(h), EObs::End(g)) => *g == Some((h.end - 1, h.dist)),
                (Some(h), EObs::Triple(g)) => *g == Some((h.start, h.end, h.dist)),
                (Some(h), EObs::NPath(g, v)) => {
                    *g == Some((h.start, h.end, h.dist)) && if *op == EOp::NextPathRev { v.iter().eq(h.ops.iter().rev()) } else { *v == h.ops }
                }
                (Some(h), EObs::Aln(b, a)) => *b && *a == expected_aln(h, m, tlen),
                (None, EObs::End(g)) => g.is_none(),
                (None, EObs::Triple(g)) => g.is_none(),
                (None, EObs::NPath(g, _)) => g.is_none(),
                (None, EObs::Aln(b, _)) => !*b,
                _ => unreachable!(),
            };
            if !ok {
                let symptom = if exp.is_some() { "differs-from-next_path" } else { "hit-after-exhaustion" };
                cc.violation(vkey(f, op.entry(), symptom), format!("{}: got {:?}, reference hit {:?}", what, ob, exp));
                // the model and the object are out of step now
                return;
            }
            match exp {
                Some(_) => idx += 1,
                None => {
                    exhausted = true;
                    match ob {
                        EObs::NPath(_, v) if *v != untouched && !v.is_empty() => {
                            cc.violation(vkey(f, op.entry(), "argument-garbled-on-none"), format!("{}: returned None and left {:?} in the vector", what, v));
                        }
                        // "If no next hit is found, false is returned and aln remains unchanged"
                        EObs::Aln(_, a) if *a != aln_tuple(&poisoned()) => {
                            cc.violation(vkey(f, op.entry(), "argument-modified-on-false"), format!("{}: returned false but changed the Alignment to {:?}", what, a));
                        }
                        _ => {}
                    }
                }
            }
            continue;
        }
        if !exhausted && idx == 0 {
            // fresh object: only alignment() is enumerated here
            if let EObs::Aln(b, a) = ob {
                interesting = true;
                if let Some((symptom, detail)) = judge_fresh_alignment(*b, a, m, tlen, false) {
                    cc.violation(vkey(f, "alignment", symptom), format!("{}: {}", what, detail));
                }
            }
            continue;
        }
        if exhausted {
            interesting = true;
            let mut x = NoHit { path: marker_ops(), rev: marker_ops(), ..Default::default() };
            match (*op, ob) {
                (EOp::Start, EObs::Start(g)) => x.start = *g,
                (EOp::Path, EObs::Path(g, v)) => {
                    x.path_start = *g;
                    x.path = v.clone();
                }
                (EOp::PathRev, EObs::Path(g, v)) => {
                    x.rev_start = *g;
                    x.rev = v.clone();
                }
                (EOp::Aln, EObs::Aln(b, a)) => {
                    x.aln_ok = *b;
                    x.aln = Some(a.clone());
                }
                _ => unreachable!(),
            }
            check_no_hit(f, &what, &x, r.hits.last(), m, tlen, cc);
            continue;
        }
        let h = &r.hits[idx - 1];
        if h.dist > 0 || multiblock {
            interesting = true;
        }
        let ok = match (*op, ob) {
            (EOp::Start, EObs::Start(g)) => *g == Some(h.start),
            (EOp::Path, EObs::Path(g, v)) => *g == Some(h.start) && *v == h.ops,
            (EOp::PathRev, EObs::Path(g, v)) => *g == Some(h.start) && v.iter().eq(h.ops.iter().rev()),
            (EOp::Aln, EObs::Aln(b, a)) => *b && *a == expected_aln(h, m, tlen),
            _ => unreachable!(),
        };
        if !ok {
            let symptom = if *op == EOp::Aln { "wrong-fields-or-path" } else { "differs-from-next_path" };
            cc.violation(vkey(f, op.entry(), symptom), format!("{}: got {:?}, current hit {:?}", what, ob, h));
        }
    }
    cc.set_nontrivial(interesting);
}

fn run_eager_seq(cfg: &LazyCfg, r: &LazyRef, ops: &[EOp], cc: &mut CaseCtx) {
    let via = cfg.via();
    let mut my = match build(cfg.imp, &cfg.p, via.as_ref()) {
        Ok(m) => m,
        Err(msg) => {
            cc.violation(vkey(&r.fam, "constructor", panic_symptom(&msg)), msg);
            return;
        }
    };
    let mut obs = Vec::with_capacity(ops.len());
    let res = exec_eager_seq(&mut my, &cfg.t, cfg.k, ops, &mut obs);
    cc.outcome(&obs);
    // what was observed before a panic is still checked
    check_eager_seq(cfg, r, &ops[..obs.len()], &obs, cc);
    if let Err(msg) = res {
        let entry = ops.get(obs.len()).map(|o| o.entry()).unwrap_or("find_all");
        cc.violation(vkey(&r.fam, entry, panic_symptom(&msg)), format!("op #{} {:?} panicked: {}", obs.len(), ops.get(obs.len()), msg));
    }
}

fn eager_seq_depth(tier: Tier) -> usize {
    tier.pick(4, 5)
}

/// all admissible call sequences of length `depth` on one FullMatches; every sequence is one case
/// and starts from a fresh matcher
fn eager_seq_config(cfg: &LazyCfg, depth: usize, ctx: &mut Ctx) {
    let mut lref: Option<LazyRef> = None;
    ctx.case(
        || json!({"kind": "eager-seq", "init": cfg.to_json(), "ops": [], "cfg": {"search": "reference"}}),
        |cc| {
            lref = lazy_reference(cfg, cc);
            if let Some(r) = &lref {
                cc.outcome(&r.hits);
            }
        },
    );
    let r = match lref {
        Some(r) => r,
        None => return,
    };
    let radices = vec![EOPS.len(); depth];
    let mut h: Vec<EOp> = Vec::with_capacity(depth);
    gen::odometer(&radices, |dg| {
        h.clear();
        h.extend(dg.iter().map(|&i| EOPS[i]));
        if !eager_seq_admissible(&h) {
            return;
        }
        ctx.case(
            || json!({"kind": "eager-seq", "init": cfg.to_json(), "ops": h, "cfg": {"search": "all-sequences", "depth": depth}}),
            |cc| {
                cc.add_transitions(depth as u64);
                cc.add_traces(1);
                run_eager_seq(cfg, &r, &h, cc);
            },
        );
    });
}

fn eager_seq_unit(tier: Tier, shard: usize, nshards: usize, ctx: &mut Ctx) {
    // the configurations of the lazy all-sequences search (text start hits, k >= |p|, two u8 blocks)
    for (i, cfg) in lazy_interleave_configs(tier).iter().enumerate() {
        if i % nshards == shard {
            eager_seq_config(cfg, eager_seq_depth(tier), ctx);
        }
        if ctx.res.capped {
            break;
        }
    }
}

// ------------------------------------------------------------------ K1: block de-activation family

/// (word size, pattern lengths, longest period unit) — the family of C09, thinned out: a full
/// case costs two orders of magnitude more than a find_all_end
fn deact_families(tier: Tier) -> Vec<(usize, Vec<usize>, usize)> {
    match tier {
        Tier::Quick => vec![(8, vec![9, 16, 17, 24, 25], 2)],
        Tier::Thorough => vec![(8, vec![9, 10, 15, 16, 17, 24, 25, 33], 2), (16, vec![17, 32, 33], 2)],
    }
}

/// the block-based instantiations and one one-word instantiation to compare the alignments with
/// (the other one-word widths see nothing of the block logic; their cases would only cost time)
const DEACT_IMPS: [Imp; 4] = [Imp::S64, Imp::L8, Imp::L16, Imp::L64];

fn deact_j_set(tier: Tier, w: usize) -> Vec<usize> {
    match tier {
        Tier::Quick => vec![0, w - 1, w, w + 1, 2 * w, 2 * w + 2],
        Tier::Thorough => (0..=2 * w + 2).collect(),
    }
}

fn deact_ks(tier: Tier, w: usize) -> Vec<u64> {
    match tier {
        Tier::Quick => vec![0, 1, 3, w as u64],
        Tier::Thorough => vec![0, 1, 2, 3, w as u64 / 2 + 1, w as u64, w as u64 + w as u64 / 2 + 1],
    }
}

fn deact_unit(tier: Tier, shard: usize, nshards: usize, ctx: &mut Ctx) {
    let eq = EqModel::plain();
    // a length can belong to the families of two word sizes: its texts and thresholds are merged
    for (idx, (p, ws)) in deact_plan(&deact_families(tier)).iter().enumerate() {
        if idx % nshards != shard {
            continue;
        }
        let m = p.len();
        let mut texts: Vec<Vec<u8>> = vec![];
        let mut ks: Vec<u64> = vec![];
        for &w in ws {
            let a_set = clamp_set(vec![0, w + 1, m - 1, m], m);
            let c_set = clamp_set(vec![0, w + 1, m], m);
            texts.extend(deact_texts(p, &a_set, &[FOREIGN, b'a', b'c'], &deact_j_set(tier, w), &c_set));
            ks.extend(deact_ks(tier, w));
        }
        texts.sort();
        texts.dedup();
        ks.sort();
        ks.dedup();
        for t in &texts {
            let d = edit::semiglobal_eq(p, t, &eq);
            for &k in &ks {
                full_case(ctx, &DEACT_IMPS, false, p, t, K::N(k), &d);
            }
        }
        if ctx.res.capped {
            return;
        }
    }
}

// ------------------------------------------------------------------ Prop

const EAGER: usize = 24;
const AMBIG: usize = 8;
const BOUNDARY: usize = 8;
const LAZY_BFS: usize = 8;
const LAZY_IL: usize = 12;
const EAGER_SEQ: usize = 4;
const DEACT: usize = 8;

fn unit_names() -> Vec<String> {
    let mut v: Vec<String> = vec![];
    v.extend((0..EAGER).map(|i| format!("eager-{}", i)));
    v.extend((0..LAZY_IL).map(|i| format!("lazy-interleave-{}", i)));
    v.extend((0..BOUNDARY).map(|i| format!("boundary-{}", i)));
    v.extend((0..LAZY_BFS).map(|i| format!("lazy-bfs-{}", i)));
    v.extend((0..AMBIG).map(|i| format!("ambig-{}", i)));
    v.extend(IMPS.iter().map(|i| format!("reuse-{}", i.name())));
    // appended later (unit names are referred to by replay files and evidence; keep the order)
    v.extend((0..DEACT).map(|i| format!("deact-{}", i)));
    v.extend((0..EAGER_SEQ).map(|i| format!("eager-seq-{}", i)));
    v.push("fresh-alignment".into());
    v
}

impl Prop for C10Prop {
    fn id(&self) -> &'static str {
        "C10"
    }
    fn level(&self) -> &'static str {
        "model_checking"
    }
    fn rule(&self) -> &'static str {
        "K2 over LazyMatches sessions: (a) breadth-first search over session states (key = digest of the complete Debug rendering of the session object incl. the borrowed matcher and its column store), every operation {next, hit_at(e), path_at(e), alignment_at(e) | e in 0..=|t|} from every reachable state, each history replayed from a fresh matcher; (b) all operation sequences of a fixed length without state merging; (c) breadth-first search over one Myers object (key = the object, Hash+Eq over all fields) through sequences of searches (find_all_end / find_all complete or abandoned / find_all_lazy complete or abandoned), each answer compared with a fresh object's. K1: every (pattern, text, k) of the sweep, the ambiguity sweep and the word/block boundary family through find_all_end, next_path, the iterator, next_end+start/path/path_reverse/alignment, next_path_reverse, next_alignment and a scripted lazy session; path validator and semiglobal DP as oracle; alignments compared across the seven instantiations. Every K1 case also visits the states of a FullMatches without a current hit: alignment() on a fresh object (block-based implementations with a multi-block pattern; all implementations in fresh-alignment and eager-seq); after the next_end() loop has returned None: start/path/path_reverse/alignment, every next_*() once more, and the four accessors again. (d) eager-seq: all sequences of a fixed length over {next_end, next, next_path, next_path_reverse, next_alignment, start, path, path_reverse, alignment} on one FullMatches (sequences that call start/path/path_reverse before the first next_*() are left out: undocumented), model = the validated hit list handed out in order, accessors answer for the hit returned last, None/false once exhausted. fresh-alignment: alignment() on a fresh FullMatches for every implementation over a small (pattern, text, k) space. deact: periodic multi-block patterns over {a,b,c} against texts p[..a] f^j p[..c] (blocks of the block-based matcher activated, dropped at distance k+w, re-activated) as K1 cases. One case = one transition, one history or one (pattern, text, k); each is enumerated once. Non-trivial: a hit with 0 < d <= k is involved (queried, for lazy histories), or a hit of a pattern spanning more than one block; reuse transitions: applied to a used object and the search has a hit with d > 0; eager-seq: an accessor is called at a hit with d > 0, at a hit of a multi-block pattern, after exhaustion or (alignment) on the fresh object; fresh-alignment: every case."
    }
    fn assumptions(&self) -> Vec<&'static str> {
        vec![
            "oracle: path validator (consumes exactly pattern and t[start..end), Match iff eq, Subst iff not eq, #non-match = d, textbook edit distance of the substring = d) and the semiglobal DP of C09 for the (end, d) list",
            "nothing is demanded of hit_at/path_at/alignment_at at an end that was searched but is not a hit (the block-based version documents that it does not compute such columns), except that the call returns",
            "'not yet searched' = end position beyond the last one returned by next() while next() has not yet returned None; ends >= |t| are never searched",
            "lazy-bfs merges states on a 128-bit digest of the Debug rendering (all fields, derived); reuse merges on the Myers object itself",
            "the Alignment handed to next_alignment/alignment/alignment_at is pre-filled with impossible values, all fields must be set (xstart 0, xend = xlen = |p|, ylen = |t|, ystart/yend, score = d, mode Semiglobal)",
            "states without a current hit (rustdoc of FullMatches): start/path/path_reverse return None and alignment returns false without touching the Alignment when the search has finished without any hit; after hits followed by None the same answers or exactly the last hit's values are accepted (the wording admits both); a vector handed to a call that returns None may come back untouched or cleared; every next_*() after a None returns None/false, next_alignment leaves the Alignment unchanged",
            "alignment() on a fresh FullMatches: documented to return false and do nothing; the library instead reports the empty-prefix column (score |p|, ystart = yend = 1, |p| insertions) whenever the initial column is complete. C10 quantifies over reported hits, so that one shape is tolerated (counted in the evidence by the unit fresh-alignment); any other answer is a violation everywhere",
            "start/path/path_reverse before the first next_*() are not called (nothing is documented about them)",
            "subject built with overflow checks and debug assertions on, as in the pinned test profile",
        ]
    }
    fn bounds(&self, tier: Tier) -> Value {
        let (pmax, tmax) = sweep_bounds(tier);
        let (lmin, lmax, ltmax) = long_sweep_bounds(tier);
        let (bp, bt) = tier.pick((3, 4), (5, 6));
        json!({
            "eager_sweep": {"alphabet": "a,b", "pattern_len": format!("1..={}", pmax), "text_len": format!("0..={}", tmax), "k": "0..=|p|+1, max",
                            "long_patterns": format!("|p| in {}..={} x |t| <= {} (u16, u64, long-u8, long-u16, long-u64)", lmin.max(pmax + 1), lmax, ltmax),
                            "implementations": "Myers<u8|u16|u32|u64>, long::Myers<u8|u16|u64>"},
            "ambiguity": {"pattern": format!("{{a,b,N}}^1..={}", tier.pick(3, 4)), "text": format!("{{a,b,*,N}}^0..={}", tier.pick(5, 6)), "k": "0..=|p|"},
            "boundary": {"pattern_len": boundary_lengths(tier), "texts": format!("flanked neighbourhoods of {} edit(s)", tier.pick("1", "2 (|p|<=33) / 1")), "k": tier.pick("0,2,|p|/2,max", "0,1,2,|p|/2,|p|,|p|+1,max")},
            "lazy_bfs": {"complete": format!("{{a,b}}^1..={} x {{a,b}}^0..={} x k 0..=|p|+1 x 7 implementations", bp, bt),
                         "hand_picked": "patterns of 5,8,9,16,17(,10,33) symbols x 5 texts x k in {0,1,2,|p|-1,|p|,|p|+1}; 3x3 ambiguity configurations",
                         "ops": "next, hit_at(e), path_at(e), alignment_at(e), e in 0..=|t|", "depth": "|hits|+2 (exhausts the state space when queries do not mutate)"},
            "lazy_interleave": {"patterns": "ab, aab, abab, aaaaaaaab", "texts": "'', a, abab, bbaabab, aaaaaaaaabaa", "k": "0,1,2,|p|+1",
                                "depth": format!("largest d <= {} with (1+3(|t|+1))^d <= {}", tier.pick(4, 6), tier.pick(100_000, 3_000_000)),
                                "implementations": tier.pick("u8, u64, long-u8, long-u64", "all seven")},
            "reuse": {"patterns": reuse_patterns(tier).iter().map(|p| show(p)).collect::<Vec<_>>(), "depth": reuse_depth(tier),
                      "searches": "6 texts x k in {0,1,3,|p|+1} x 5 ways of searching"},
            "eager_seq": {"configurations": "those of lazy_interleave", "ops": EOPS.iter().map(|o| o.entry()).collect::<Vec<_>>(), "depth": eager_seq_depth(tier)},
            "fresh_alignment": {"patterns": format!("{{a,b}}^1..={} and 5 patterns of 8, 9, 16, 17, 33 symbols", tier.pick(3, 4)), "texts": format!("{{a,b}}^0..={}", tier.pick(2, 3)),
                                "k": "0,1,7,8,9,16,17,|p|-1,|p|,|p|+1,max", "implementations": "all seven, new()"},
            "block_deactivation": deact_families(tier).iter().map(|(w, lens, mu)| json!({
                "word": w, "pattern_len": lens,
                "patterns": format!("u^r cut to the length, plain and last symbol rotated, u in {{a,b,c}}^1..={} containing c", mu),
                "texts": format!("p[..a] f^j p[..c], a in {{0,w+1,|p|-1,|p|}}, f in {{d,a,c}}, j in {:?}, c in {{0,w+1,|p|}}", deact_j_set(tier, *w)),
                "k": deact_ks(tier, *w), "implementations": DEACT_IMPS.iter().map(|i| i.name()).collect::<Vec<_>>()})).collect::<Vec<_>>()
        })
    }
    fn units(&self, _tier: Tier) -> Vec<String> {
        unit_names()
    }
    fn run_unit(&self, tier: Tier, unit: usize, ctx: &mut Ctx) {
        let mut u = unit;
        if u < EAGER {
            return eager_unit(tier, u, EAGER, ctx);
        }
        u -= EAGER;
        if u < LAZY_IL {
            return lazy_interleave_unit(tier, u, LAZY_IL, ctx);
        }
        u -= LAZY_IL;
        if u < BOUNDARY {
            return boundary_unit(tier, u, BOUNDARY, ctx);
        }
        u -= BOUNDARY;
        if u < LAZY_BFS {
            return lazy_bfs_unit(tier, u, LAZY_BFS, ctx);
        }
        u -= LAZY_BFS;
        if u < AMBIG {
            return ambig_unit(tier, u, AMBIG, ctx);
        }
        u -= AMBIG;
        if u < IMPS.len() {
            return reuse_unit(tier, IMPS[u], ctx);
        }
        u -= IMPS.len();
        if u < DEACT {
            return deact_unit(tier, u, DEACT, ctx);
        }
        u -= DEACT;
        if u < EAGER_SEQ {
            return eager_seq_unit(tier, u, EAGER_SEQ, ctx);
        }
        u -= EAGER_SEQ;
        if u == 0 {
            fresh_alignment_unit(tier, ctx);
        }
    }
    fn replay(&self, case: &Value, ctx: &mut Ctx) {
        match case["kind"].as_str().unwrap_or("") {
            "full" => {
                let p = unshow(case["p"].as_str().unwrap_or(""));
                let t = unshow(case["t"].as_str().unwrap_or(""));
                let k = K::from_json(&case["k"]);
                let ambig = case["ambig"].as_bool().unwrap_or(false);
                let imps: Vec<Imp> = case["imps"]
                    .as_array()
                    .map(|a| a.iter().filter_map(|x| x.as_str().and_then(Imp::parse)).collect())
                    .unwrap_or_else(|| IMPS.to_vec());
                let am = ambig_model();
                let via = if ambig { Some(&am) } else { None };
                let d = edit::semiglobal_eq(&p, &t, &via.cloned().unwrap_or_default());
                ctx.case(|| case.clone(), |cc| check_full_case(&imps, via, &p, &t, k, &d, cc));
            }
            "fresh-alignment" => {
                let p = unshow(case["p"].as_str().unwrap_or(""));
                let t = unshow(case["t"].as_str().unwrap_or(""));
                let k = K::from_json(&case["k"]);
                if let Some(imp) = case["imp"].as_str().and_then(Imp::parse) {
                    ctx.case(|| case.clone(), |cc| check_fresh_alignment(imp, &p, &t, k, cc));
                }
            }
            "eager-seq" => {
                if let Some(cfg) = LazyCfg::from_json(&case["init"]) {
                    let ops: Vec<EOp> = serde_json::from_value(case["ops"].clone()).unwrap_or_default();
                    ctx.case(
                        || case.clone(),
                        |cc| {
                            if let Some(r) = lazy_reference(&cfg, cc) {
                                run_eager_seq(&cfg, &r, &ops, cc);
                            }
                        },
                    );
                }
            }
            "history" => {
                let init = &case["init"];
                if init["reuse"].as_bool().unwrap_or(false) {
                    let imp = match init["imp"].as_str().and_then(Imp::parse) {
                        Some(i) => i,
                        None => return,
                    };
                    let p = unshow(init["p"].as_str().unwrap_or(""));
                    let ops: Vec<Search> = serde_json::from_value(case["ops"].clone()).unwrap_or_default();
                    ctx.case(
                        || case.clone(),
                        |cc| {
                            let my = match build(imp, &p, None) {
                                Ok(m) => m,
                                Err(msg) => {
                                    cc.violation(vkey(&fam(imp, p.len(), false), "constructor", panic_symptom(&msg)), msg);
                                    return;
                                }
                            };
                            let mut s = RState { my, depth: 0 };
                            for op in &ops {
                                match reuse_step(imp, &p, &s, op, cc) {
                                    Some(n) => s = n,
                                    None => break,
                                }
                            }
                        },
                    );
                } else if let Some(cfg) = LazyCfg::from_json(init) {
                    let ops: Vec<LOp> = serde_json::from_value(case["ops"].clone()).unwrap_or_default();
                    ctx.case(
                        || case.clone(),
                        |cc| {
                            if let Some(r) = lazy_reference(&cfg, cc) {
                                run_lazy_history(&cfg, &r, &ops, 0, false, cc);
                            }
                        },
                    );
                }
            }
            _ => {}
        }
    }
}
